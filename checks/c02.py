"""C02 — a server connection is clean whenever it changes hands.
Typestate over the CFG of Client::handle (borrowed region), effect summaries,
and the release gate consulted by bb8 when the guard is dropped."""
from collections import deque
from mirlib import *
from common import cancelled_io_findings, fallible

H = "pgcat::client::Client::handle::{closure#0}"
HAS_BROKEN = "<pgcat::pool::ServerPool as bb8::api::ManageConnection>::has_broken"
CLEANUP = "pgcat::server::Server::checkin_cleanup"
CLEANUP_C = CLEANUP + "::{closure#0}"
MARK_BAD = "pgcat::server::Server::mark_bad"
SERVER_IO = (
    "pgcat::server::Server::send", "pgcat::server::Server::recv", "pgcat::server::Server::query",
    "pgcat::server::Server::sync_parameters", "pgcat::server::Server::register_prepared_statement",
    "pgcat::client::Client::send_and_receive_loop", "pgcat::client::Client::send_server_message",
    "pgcat::client::Client::receive_server_message", "pgcat::client::Client::register_parse_to_server_cache",
    "pgcat::client::Client::ensure_prepared_statement_is_on_server",
)
SUMMARY_CANDIDATES = SERVER_IO + (CLEANUP,)


def is_bad_write(st):
    """assignment `<server place>.bad = const true`"""
    fs = proj_fields(st["lhs"])
    return bool(fs) and fs[-1] == "bad" and st["rv"]["k"] == "use" and const_int(st["rv"]["op"]) == 1


def err_points(body):
    """blocks at which the coroutine/fn starts returning an Err: from_residual calls
    (`?` Break arm), Result::Err aggregates flowing into _0, and `_0 = <awaited callee result>`"""
    pts = []
    for c in body.calls("re:FromResidual<.*>>::from_residual$", "core::ops::try_trait::FromResidual::from_residual"):
        src = [o.call.name for o in origins(body, c.args[0]) if o.kind == "call"]
        if src and all(n.startswith("pgcat::") and not fallible(body.facts, n) for n in src):
            continue  # `?` on a callee that cannot return Err (e.g. its only Err arm is Result<_, Infallible>)
        pts.append((c.block, "? at %s" % c.span, None))
    for b, i, st in body.assigns():
        rv = st["rv"]
        if rv["k"] == "agg" and rv.get("agg") == "adt" and rv.get("variant") == "Err" and "result::Result" in rv.get("adt", ""):
            pts.append((b, "Err(..) at %s" % st["span"], None))
        elif st["lhs"]["l"] == 0 and not st["lhs"]["p"] and rv["k"] == "use" and op_place(rv["op"]):
            # _0 = move _x where _x is the awaited result of a pgcat callee: Err iff callee Err
            for o in origins(body, rv["op"]):
                if o.kind == "call" and o.call.name.startswith("pgcat::") and not o.proj:
                    pts.append((b, "returns result of %s at %s" % (o.call.name, st["span"]), o.call.name))
    return pts


def compute_bad_on_err(F, rule):
    """least fixpoint over SUMMARY_CANDIDATES; returns (set of members, {fn: [offending exits]})"""
    members = set()
    reasons = {}
    bodies = {}
    for fn in SUMMARY_CANDIDATES:
        b = F.body(fn + "::{closure#0}")
        if b is None or b.kind != "coroutine":
            b = F.body(fn)
        if b is None:
            rule.missing("body " + fn)
            continue
        bodies[fn] = b
    changed = True
    while changed:
        changed = False
        for fn, b in bodies.items():
            if fn in members:
                continue
            sws = switches(b)
            marker_blocks = set()
            marker_edges = set()
            for c in b.calls(MARK_BAD):
                marker_blocks.add(c.block)
            for blk, i, st in b.assigns():
                if is_bad_write(st):
                    marker_blocks.add(blk)
            mem_pats = tuple(members)
            if mem_pats:
                pred = lambda o: o.kind == "call" and o.call.name in members
                e1, _, _ = discr_edges(b, r"ControlFlow<", "Break", origin_pred=pred, switches_cache=sws)
                e2, _, _ = discr_edges(b, r"core::result::Result<", "Err", origin_pred=pred, switches_cache=sws)
                marker_edges |= e1 | e2
            # timeouts: Err(Elapsed) of tokio timeout is not a server error by itself
            offending = []
            for blk, what, via in err_points(b):
                if via is not None and via in members:
                    continue
                wit = b.uncrossed_path([0], [blk], edges=marker_edges, blocks=marker_blocks)
                if wit is not None:
                    offending.append((what, b.describe_path(wit)))
            if not offending:
                members.add(fn)
                changed = True
                reasons.pop(fn, None)
            else:
                reasons[fn] = offending
    return members, reasons, bodies


def run(ctx):
    F = ctx.facts
    ctx.explanation = ("typestate of the borrowed server over all CFG paths of Client::handle (clean / bad / unknown), bad-on-error effect summaries of the server/client helpers, "
                       "the has_broken release gate that bb8 consults when the guard is dropped, cancelled-I/O arms, dirty marking and reset statements")
    ctx.assumptions = ["bb8 0.8.6 calls ManageConnection::has_broken when a PooledConnection is dropped and discards the connection when it returns true (library, trusted)",
                       "the server's real session state is not modelled; only that the pooler forces a reset or a close on every path",
                       "SET inside a transaction block is outside the property's wording (pgcat documents it as undetectable)"]
    h = ctx.body(H)
    r3 = ctx.rule("C02-R3", "bad_on_err summaries: every Err return of a server/client helper has passed bad=true / mark_bad / the Err edge of a summarised callee", armed=False)
    members, reasons, sbodies = compute_bad_on_err(F, r3)
    for fn in SUMMARY_CANDIDATES:
        if fn in members:
            r3.ok("summary:" + fn, "every Err exit marks the server bad")
        elif fn in reasons:
            for what, path in reasons[fn][:3]:
                r3.fail("summary:%s" % fn, "%s can return Err without marking the server bad: %s" % (fn, what), "", path)
    ctx.evaluations += sum(b.nblocks for b in sbodies.values())

    # ------------------------------------------------------------ R1 release gate
    r1 = ctx.rule("C02-R1", "release gate: has_broken() reports a connection that was claimed by a client and has not completed checkin_cleanup, so no exit (early `?`, panic, cancellation) can hand back an un-cleaned connection", floor=1)
    gate_field = None
    hb = ctx.body(HAS_BROKEN, r1)
    isbad = ctx.body("pgcat::server::Server::is_bad", r1)
    claim = ctx.body("pgcat::server::Server::claim", r1)
    cc = ctx.body(CLEANUP_C, r1)
    gate_notes = []
    if hb and isbad and claim and cc and h:
        r1.check(bool(hb.calls("pgcat::server::Server::is_bad")), "has_broken->is_bad", "has_broken consults Server::is_bad", "has_broken no longer consults Server::is_bad")
        # fields of Server read by is_bad through a bool switch whose true edge returns true
        sws = switches(isbad)
        cand = {}
        for sw in sws:
            if not sw.is_bool():
                continue
            for o in sw.origins():
                if o.kind == "place" and o.proj and o.proj[-1].startswith(".") and o.what == 1:
                    te, fe = sw.bool_edges()
                    if o.neg:
                        te, fe = fe, te
                    cand.setdefault(o.proj[-1][1:], []).append((te, fe))
        # claimed-value writes in claim
        claim_sets = {}
        for blk, i, st in claim.assigns():
            fs = proj_fields(st["lhs"])
            if fs and st["rv"]["k"] == "use" and const_int(st["rv"]["op"]) is not None:
                claim_sets[fs[-1]] = const_int(st["rv"]["op"])
        for f, edges in cand.items():
            if claim_sets.get(f) != 1:
                gate_notes.append("field %s is read by is_bad but not set in Server::claim" % f)
                continue
            # (iii) true edge returns true
            ok3 = True
            for te, fe in edges:
                reach = isbad.reach([te[1]])
                rets_false = [b for b in reach for st in isbad.blocks[b]["stmts"] if st["k"] == "assign" and st["lhs"]["l"] == 0 and not st["lhs"]["p"] and st["rv"]["k"] == "use" and const_int(st["rv"]["op"]) == 0]
                if rets_false:
                    ok3 = False
            if not ok3:
                gate_notes.append("field %s: the set-edge of is_bad can still return false" % f)
                continue
            # (ii) reset only in checkin_cleanup (constructors are aggregates, not assignments)
            resets = []
            for b_, blk, st in F.field_writes(lambda fld, b_, st: fld == f and "Server" in b_.name or fld == f):
                if proj_fields(st["lhs"])[-1] != f:
                    continue
                # only writes to a Server place
                base_ty = None
                v = const_int(st["rv"]["op"]) if st["rv"]["k"] == "use" else None
                if v == 1:
                    continue
                resets.append((b_, blk, st))
            bad_resets = [(b_, blk, st) for (b_, blk, st) in resets if b_.name != CLEANUP_C]
            if bad_resets:
                gate_notes.append("field %s is cleared outside checkin_cleanup: %s" % (f, [b_.name for b_, _, _ in bad_resets]))
                continue
            if not resets:
                gate_notes.append("field %s is never cleared (every connection would be discarded)" % f)
                continue
            # reset point in checkin_cleanup: no server I/O afterwards; reached only after the rollback / reset queries succeeded; not in copy mode
            csw = switches(cc)
            okr = True
            for b_, blk, st in resets:
                after = cc.reach([blk])
                io_after = [c for c in cc.calls(*SERVER_IO) if c.block in after and c.block != blk]
                if io_after:
                    okr = False
                    gate_notes.append("checkin_cleanup performs server I/O after clearing %s (%s)" % (f, io_after[0].where()))
                T, Fa, _ = call_bool_edges(cc, "pgcat::server::Server::in_transaction", switches_cache=csw)
                qcont, _, _ = discr_edges(cc, r"ControlFlow<", "Continue", origin_pred=lambda o: o.kind == "call" and o.call.name == "pgcat::server::Server::query", switches_cache=csw)
                if not T:
                    okr = False
                    gate_notes.append("checkin_cleanup no longer branches on in_transaction()")
                elif cc.uncrossed_path([d for _, d in T], [blk], edges=qcont, blocks=[c.block for c in cc.calls(MARK_BAD)] + [b2 for b2, i2, st2 in cc.assigns() if is_bad_write(st2)]) is not None:
                    okr = False
                    gate_notes.append("checkin_cleanup can clear %s while in a transaction without a successful ROLLBACK" % f)
                Tc, Fc, _ = call_bool_edges(cc, "pgcat::server::Server::in_copy_mode", switches_cache=csw)
                cm_field_T, _ = field_bool_edges(cc, "in_copy_mode", csw)
                Tc = Tc | cm_field_T
                if not Tc:
                    okr = False
                    gate_notes.append("checkin_cleanup does not test copy mode before clearing %s" % f)
                elif cc.uncrossed_path([d for _, d in Tc], [blk], blocks=[c.block for c in cc.calls(MARK_BAD)] + [bb for bb, i, st2 in cc.assigns() if is_bad_write(st2)]) is not None:
                    okr = False
                    gate_notes.append("checkin_cleanup clears %s although the connection is still in COPY mode" % f)
            if not okr:
                continue
            # (i) H claims the guard's server before any server I/O in the borrowed region
            claims = h.calls("pgcat::server::Server::claim")
            getc = h.calls("pgcat::pool::ConnectionPool::get")
            if not claims or not getc:
                gate_notes.append("handle does not call claim/get")
                continue
            io_blocks = [c.block for c in h.calls(*SERVER_IO, CLEANUP)]
            wit = h.uncrossed_path([getc[0].block], io_blocks, blocks=[c.block for c in claims])
            if wit is not None:
                gate_notes.append("handle performs server I/O before Server::claim")
                continue
            gate_field = f
            break
    if gate_field:
        r1.ok("gate:" + gate_field, "Server.%s is set in claim(), cleared only at the clean end of checkin_cleanup, and makes is_bad()/has_broken() true" % gate_field)
    else:
        r1.armed = False  # R2 takes over as the armed rule
        r1.fail("gate", "no release gate: has_broken() consults only %s; %s" % (sorted(cand) if hb and isbad else "?", "; ".join(gate_notes) or "no candidate field"))

    # the gate is cleared by a checkin_cleanup that ends well - which says nothing about a reply the connection still owes: checkin_cleanup is
    # called only where the last reply taken from the server was taken to its end (every way from a receive to a checkin_cleanup call
    # crosses is_data_available()==false); with pieces of a reply unread, RESET/ROLLBACK or nothing at all is sent, the gate opens and the
    # next client reads the previous client's rows
    n_cc = 0
    for n_ in F.callers_of("pgcat::server::Server::checkin_cleanup"):
        b_ = F.body(n_)
        sws_ = switches(b_)
        T_, Fa_, _ = call_bool_edges(b_, "pgcat::server::Server::is_data_available", switches_cache=sws_)
        fT_, fF_ = field_bool_edges(b_, "data_available", sws_)
        rcv_ = b_.calls("pgcat::client::Client::receive_server_message", "pgcat::server::Server::recv")
        ccs_ = b_.calls("pgcat::server::Server::checkin_cleanup")
        n_cc += len(ccs_)
        wit = b_.uncrossed_path([c.target for c in rcv_ if c.target is not None], [c.block for c in ccs_], edges=Fa_ | fF_)
        r1.check(wit is None, "cleanup-in-step@" + n_.split("::")[-2], "%s: no checkin_cleanup follows a receive without is_data_available()==false in between (%d receive(s), %d clean-up call(s))" % (n_.split("::")[-2], len(rcv_), len(ccs_)),
                 "%s: checkin_cleanup can run (and clear the release gate) while a reply is still partly unread - a client write that fails in the middle of a large reply leaves the rest on the connection for the next client" % n_.split("::")[-2],
                 "", wit and b_.describe_path(wit))
    # `has no unread reply pending`: the callers stop reading when recv says no more is to come - so recv must not hand a piece out with that flag
    # false anywhere but at the end of a reply (clauses shared with C03-R4)
    # `not inside a transaction block`: the release gate and the ROLLBACK of check-in go by Server.in_transaction - which is the ReadyForQuery status, cleared for 'I' only
    from common import ready_for_query_status_findings
    rfq = ready_for_query_status_findings(F)
    if rfq is None:
        r1.missing("the ReadyForQuery status switch of Server::recv")
    for key_, ok_, okm_, fm_ in rfq or []:
        r1.check(ok_, key_, okm_, fm_)
    from common import recv_handout_findings
    for key_, ok_, okm_, fm_ in recv_handout_findings(F):
        if ok_ is None:
            r1.missing(fm_)
        else:
            r1.check(ok_, "reply-read-to-its-end:" + key_, okm_, fm_ + " - checkin_cleanup then finds nothing to clean, the release gate opens and the next client reads the rest of this reply")
    r1.check(n_cc >= 4, "cleanup-sites", "%d checkin_cleanup call sites found" % n_cc, "only %d checkin_cleanup call sites found (4 known)" % n_cc)

    # `SET values ... have been reset`: the tracked parameters (client_encoding, DateStyle, TimeZone, application_name ...) are deliberately NOT reset at check-in -
    # the next checkout's sync_parameters overwrites them with the next client's. That hand-over is only clean if a sync the server refused is not reported as done:
    # the SETs run as one transaction, one refused value takes all of them back and the connection keeps the previous client's session (clauses shared with C12-R1)
    from c12 import sync_result_clauses
    sync_result_clauses(ctx, r1, F)

    # ------------------------------------------------------------ R2 explicit exits
    r2 = ctx.rule("C02-R2", "every drop of the pooled-connection guard in Client::handle is preceded by a completed checkin_cleanup (no later server I/O), mark_bad, or the Err edge of a bad_on_err callee",
                  floor=3, armed=gate_field is None)
    if h:
        hsw = switches(h)
        guards = [l for l, d in enumerate(h.locals) if "bb8::api::PooledConnection" in d["ty"] and not d["ty"].startswith("(") and not d["ty"].startswith("core::result")]
        # the guard local that is dereferenced to reach the server
        gdefs = h.defs()
        guard = None
        for l in guards:
            if h.varnames.get(l):
                guard = l
        if guard is None:
            r2.missing("guard local (PooledConnection) in handle")
        else:
            start_blocks = [d[1] for d in gdefs[guard]]
            drops = {b for b, blk in enumerate(h.blocks) if blk["term"]["k"] == "drop" and blk["term"]["pl"]["l"] == guard and not blk["term"]["pl"]["p"] and not blk["cleanup"]}
            # markers
            bad_blocks = {c.block for c in h.calls(MARK_BAD)}
            pred = lambda o: o.kind == "call" and o.call.name in members
            e1, _, _ = discr_edges(h, r"ControlFlow<", "Break", origin_pred=pred, switches_cache=hsw)
            e2, _, _ = discr_edges(h, r"core::result::Result<", "Err", origin_pred=pred, switches_cache=hsw)
            bad_edges = e1 | e2
            clean_edges, _, _ = discr_edges(h, r"ControlFlow<", "Continue", origin_pred=lambda o: o.kind == "call" and o.call.name == CLEANUP, switches_cache=hsw)
            io_blocks = {c.block for c in h.calls(*SERVER_IO)}
            # product reachability inside the borrowed region: state 0 = unknown/dirty, 1 = clean
            seen = {}
            dq = deque()
            for sb in start_blocks:
                seen[(sb, 0)] = None
                dq.append((sb, 0))
            succ = h.succ("n")
            while dq:
                b, stt = dq.popleft()
                if b in bad_blocks or b in drops:
                    continue
                stt2 = 0 if b in io_blocks else stt
                for s_ in succ[b]:
                    if (b, s_) in bad_edges:
                        continue
                    ns = 1 if (b, s_) in clean_edges else stt2
                    if (s_, ns) not in seen:
                        seen[(s_, ns)] = (b, stt)
                        dq.append((s_, ns))
            ctx.evaluations += len(seen)

            def path_to(node):
                p = []
                while node is not None:
                    p.append(node[0])
                    node = seen[node]
                p.reverse()
                return p

            # exit initiators: blocks that define the return place _0 (`?` residuals, `return` expressions)
            inits = []
            for bb, blk in enumerate(h.blocks):
                if blk["cleanup"]:
                    continue
                t = blk["term"]
                if t["k"] == "call" and t["dest"]["l"] == 0 and not t["dest"]["p"]:
                    c = Call(h, bb, t)
                    via = sorted({o.call.name for a in c.args for o in origins(h, a) if o.kind == "call" and o.call.name.startswith("pgcat::")})
                    kind = "?" if "from_residual" in c.name else "ret"
                    inits.append((bb, kind, via or ["?"], c.span))
                else:
                    for st in blk["stmts"]:
                        if st["k"] == "assign" and st["lhs"]["l"] == 0 and not st["lhs"]["p"]:
                            inits.append((bb, "return", ["explicit"], st["span"]))
            counts = {}
            dirty = 0
            for bb, kind, via, span in sorted(inits):
                base = "%s:%s" % (kind, "+".join(v.split("::")[-1] for v in via))
                counts[base] = counts.get(base, 0) + 1
                key = "%s#%d" % (base, counts[base])
                inside = (bb, 0) in seen or (bb, 1) in seen
                if not inside:
                    continue
                if (bb, 0) in seen:
                    dirty += 1
                    p = path_to((bb, 0))
                    r2.fail("exit:" + key, "handle returns (%s of %s at %s) while a server is borrowed that is neither cleaned nor marked bad: the guard drop hands it back to the pool as is" % (kind, "/".join(via), span),
                            "bb%d of handle" % bb, h.describe_path(p, maxn=10))
                else:
                    r2.ok("exit:" + key, "exit at %s reached only clean or bad" % span)
            # the normal end of the outer iteration
            for d in sorted(drops):
                if (d, 0) in seen:
                    p = path_to((d, 0))
                    # only report drops not already explained by an initiator on the path
                    if not any((x, 0) in seen and x in {i[0] for i in inits} for x in p):
                        dirty += 1
                        r2.fail("release-path:drop", "the normal release path drops the guard without a completed checkin_cleanup", "bb%d of handle" % d, h.describe_path(p, maxn=10))
                elif (d, 1) in seen:
                    r2.ok("release-path:drop@clean", "guard dropped after completed checkin_cleanup")
            r2.note("guard local _%d, %d non-cleanup drop sites, %d exit initiators in region, %d dirty; bad_on_err members: %s" % (guard, len(drops), len([i for i in inits if (i[0], 0) in seen or (i[0], 1) in seen]), dirty, sorted(m.split("::")[-1] for m in members)))

    # ------------------------------------------------------------ R4 cancelled server I/O => bad
    r4 = ctx.rule("C02-R4", "wherever a timeout cancels a future that holds &mut Server, every path from the elapsed arm to the next use of the connection or to the function's return marks the server bad", floor=2)
    for fn, ok, where, wit in cancelled_io_findings(F):
        r4.check(ok, "elapsed-arm:" + fn.replace("pgcat::", "").replace("::{closure#0}", "").split("::")[-1], "timeout over server I/O in %s: the elapsed arm always reaches mark_bad" % fn.replace("pgcat::", ""),
                 "the elapsed arm of a timeout over server I/O in %s can go on without marking the server bad (a half-written request or half-read reply stays on the connection)" % fn.replace("pgcat::", ""), where, wit)

    # ------------------------------------------------------------ R5 dirty marking + reset statements
    r5 = ctx.rule("C02-R5", "SET / PREPARE / named Parse mark the connection dirty; checkin_cleanup rolls back open transactions and resets role, settings and prepared statements", floor=6)
    recv = ctx.body("pgcat::server::Server::recv::{closure#0}", r5)
    if recv:
        # under the "SET" / "PREPARE" string comparisons the cleanup flags are assigned true
        for lit, fld in (("SET", "needs_cleanup_set"), ("PREPARE", "needs_cleanup_prepare")):
            eqs = [c for c in recv.calls("re:^core::str::traits::<impl core::cmp::PartialEq for str>::eq$", "re:PartialEq<&?str>>::eq$") if lit in arg_strs(recv, c)]
            if not eqs:
                r5.fail("tag:" + lit, "recv no longer compares the CommandComplete tag with %r" % lit)
                continue
            T, _, _ = (set(), set(), None)
            Tset = set()
            for sw, o, te, fe in bool_value_edges(recv, lambda o: o.kind == "call" and o.call.block in {c.block for c in eqs}):
                Tset.add(te)
            reach = recv.reach_from_edges(Tset, avoid_blocks=[]) if Tset else set()
            # bounded: the assignment must be reachable from the true edge before the loop header is re-entered
            writes = [blk for blk, i, st in recv.assigns() if proj_fields(st["lhs"])[-2:] == ["cleanup_state", fld] and const_int(st["rv"].get("op")) == 1]
            dom_ok = any(blk in reach and any(recv.dominates(te[1], blk) for te in Tset) for blk in writes)
            r5.check(dom_ok, "tag:" + lit, "CommandComplete tag %r sets cleanup_state.%s" % (lit, fld), "CommandComplete tag %r does not set cleanup_state.%s" % (lit, fld))
    if h:
        md = h.calls("pgcat::server::Server::mark_dirty")
        r5.check(bool(md), "named-parse-dirty", "handle marks the server dirty for a named Parse without statement cache", "handle no longer calls Server::mark_dirty for named Parse messages when caching is off")
    if cc:
        lits = set()
        for c in cc.calls("pgcat::server::Server::query", "re:^alloc::string::String::(push_str|from)$", "re:From<&str>>::from$", "re:^<alloc::string::String as core::convert::From<&str>>::from$"):
            lits |= {x.upper() for x in arg_strs(cc, c)}
        alltext = " ".join(sorted(lits))
        r5.check("ROLLBACK" in alltext or "ABORT" in alltext, "sql:ROLLBACK", "checkin_cleanup issues ROLLBACK", "checkin_cleanup has no ROLLBACK/ABORT statement")
        full = "DISCARD ALL" in alltext
        for kw in ("RESET ROLE", "RESET ALL", "DEALLOCATE ALL"):
            r5.check(full or kw in alltext, "sql:" + kw, "checkin_cleanup can issue %s" % kw, "checkin_cleanup lost the %s statement" % kw)
        csw = switches(cc)
        T, Fa, _ = call_bool_edges(cc, "pgcat::server::Server::in_transaction", switches_cache=csw)
        rb = [c for c in cc.calls("pgcat::server::Server::query") if any(x.upper().startswith(("ROLLBACK", "ABORT")) for x in arg_strs(cc, c))]
        ok = bool(T) and bool(rb) and any(cc.dominates(te[1], rb[0].block) for te in T) and cc.uncrossed_path([0], [rb[0].block], edges={te for te in T if cc.dominates(te[1], rb[0].block)}) is None
        r5.check(ok, "rollback-on-in-transaction", "ROLLBACK is issued on the in_transaction()==true edge", "ROLLBACK is not tied to in_transaction()==true")
        # ... and first: RESET ROLE / RESET ALL are transactional - sent while the abandoned transaction is still open they take effect inside it and the ROLLBACK
        # that follows brings the client's SET values and role back; the connection passes for clean (is_bad false) and the next client inherits them (round 11)
        resets = [c for c in cc.calls("pgcat::server::Server::query") if c not in rb]
        late = [(r_, b_) for r_ in resets for b_ in rb if b_.block in cc.reach([r_.block]) and b_.block != r_.block]
        r5.check(bool(rb) and bool(resets) and not late, "rollback-before-reset", "no ROLLBACK of check-in can follow the reset statements (%d reset quer%s)" % (len(resets), "y" if len(resets) == 1 else "ies"),
                 "checkin_cleanup can send its ROLLBACK after the reset statements: RESET ROLE / RESET ALL run inside the client's open transaction and are undone by the ROLLBACK - after `SET statement_timeout TO 1; BEGIN; ...` and a client "
                 "that leaves, the connection goes back to the pool with statement_timeout = 1 and is_bad() false", late[0][1].where() if late else "")
        # both dirty flags are consulted
        flds = set()
        for sw in csw:
            for o in sw.origins():
                if o.kind == "place":
                    flds.update(p[1:] for p in o.proj if p.startswith("."))
        nc = F.body("pgcat::server::CleanupState::needs_cleanup")
        ncf = set()
        if nc:
            for blk, i, st in nc.assigns():
                for o in origins(nc, st["lhs"]["l"]):
                    if o.kind == "place":
                        ncf.update(p[1:] for p in o.proj if p.startswith("."))
            for sw in switches(nc):
                for o in sw.origins():
                    if o.kind == "place":
                        ncf.update(p[1:] for p in o.proj if p.startswith("."))
        for fld in ("needs_cleanup_set", "needs_cleanup_prepare"):
            r5.check(fld in flds and fld in ncf, "flag-read:" + fld, "cleanup consults %s" % fld, "cleanup no longer consults %s (checkin=%s needs_cleanup=%s)" % (fld, fld in flds, fld in ncf))

    # dirty marks are monotone during a checkout: only the reset that follows the clean-up query clears them (shared with C12-R6)
    from common import cleanup_mark_findings
    for key, ok, good, bad in cleanup_mark_findings(F):
        r5.check(ok, key, good, bad)

    from common import rollback_findings
    for key, ok, where, wit in rollback_findings(F):
        if ok is None:
            r5.missing(key)
        elif key == "ROLLBACK-verified":
            r5.check(ok, key, "after the ROLLBACK round trip the transaction state is looked at again (still in a transaction => bad)",
                     "checkin_cleanup trusts the ROLLBACK blindly (Server::query returns Ok whatever the server answered; in copy-in mode the message is consumed as a protocol violation): the connection can go back to the pool inside a failed transaction block", where, wit)
        else:
            r5.check(ok, key, "an open transaction is rolled back before check-in returns Ok", "checkin_cleanup can return Ok with the previous client's transaction still open", where, wit)

    # ------------------------------------------------------------ R6 COPY cannot be cleaned
    r6 = ctx.rule("C02-R6", "a connection still in COPY mode at check-in is marked bad (or check-in fails) instead of being reused", floor=1)
    if cc:
        csw = switches(cc)
        Tc, Fc, _ = call_bool_edges(cc, "pgcat::server::Server::in_copy_mode", switches_cache=csw)
        fT, _ = field_bool_edges(cc, "in_copy_mode", csw)
        Tc |= fT
        if not Tc:
            r6.fail("copy-mode-test", "checkin_cleanup does not look at copy mode at all")
        else:
            rets = [bb for bb, blk in enumerate(cc.blocks) if blk["term"]["k"] == "return"]
            marks = [c.block for c in cc.calls(MARK_BAD)] + [blk for blk, i, st in cc.assigns() if is_bad_write(st)]
            errs = [blk for blk, what, via in err_points(cc)]
            wit = cc.uncrossed_path([d for _, d in Tc], rets, blocks=marks + errs)
            # nothing is sent while the server is in the COPY sub-protocol: it would not be executed but read as the protocol
            # violation that ends the COPY (ErrorResponse, which also clears in_copy_mode), so the test must come first
            qs = [c.block for c in cc.calls("pgcat::server::Server::query", "pgcat::server::Server::send")]
            w0 = cc.uncrossed_path([0], qs, edges=set(Fc) | {e for e in field_bool_edges(cc, "in_copy_mode", csw)[1]}) if qs else None
            r6.check(w0 is None, "copy-mode-tested-before-any-query", "checkin_cleanup sends a query only where in_copy_mode() was false",
                     "checkin_cleanup can send its ROLLBACK / RESET while the connection is in COPY mode: the server does not execute the text, it answers ErrorResponse (which clears in_copy_mode) and ReadyForQuery, "
                     "the dirty marks are dropped and the connection is reused with the previous client's settings (or inside its failed transaction)", "pgcat::server::Server::checkin_cleanup", w0 and cc.describe_path(w0))
            # the release gate is cleared only where the connection was seen not to be in COPY mode
            gate_clear = [blk for blk, i, st in cc.assigns() if proj_fields(st["lhs"])[-1:] == ["needs_checkin_cleanup"] and st["rv"]["k"] == "use" and const_int(st["rv"].get("op")) == 0]
            fcopy = set(Fc) | set(field_bool_edges(cc, "in_copy_mode", csw)[1])
            w1 = cc.uncrossed_path([0], gate_clear, edges=fcopy) if gate_clear else None
            r6.check(bool(gate_clear) and w1 is None, "gate-cleared-only-outside-copy-mode", "needs_checkin_cleanup is cleared only after in_copy_mode() was seen false",
                     "checkin_cleanup can clear the release gate without having looked at COPY mode (an early return): a connection left in the COPY sub-protocol goes back to the pool as healthy", "pgcat::server::Server::checkin_cleanup", w1 and cc.describe_path(w1))
            r6.check(wit is None, "copy-mode=>bad", "in_copy_mode()==true at check-in leads to mark_bad / Err",
                     "checkin_cleanup returns Ok with the connection still in COPY mode (only a warning is logged): the next client inherits a connection that expects CopyData",
                     "pgcat::server::Server::checkin_cleanup", wit and cc.describe_path(wit))

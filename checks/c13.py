"""C13 — the SET/SHOW routing commands are a small exact language."""
from mirlib import *

TEC = "pgcat::query_router::QueryRouter::try_execute_command"
HCP = "pgcat::client::Client::handle_custom_protocol::{closure#0}"
H = "pgcat::client::Client::handle::{closure#0}"
REGEXES = "pgcat::query_router::CUSTOM_SQL_REGEXES"
RESPONDERS = ("pgcat::messages::custom_protocol_response_ok", "pgcat::messages::show_response", "pgcat::messages::error_response")

# variant -> keywords its regex must contain, whether it captures an argument
CMD = {
    "SetShardingKey": (["SET", "SHARDING", "KEY", "TO"], True),
    "SetShard": (["SET", "SHARD", "TO"], True),
    "ShowShard": (["SHOW", "SHARD"], False),
    "SetServerRole": (["SET", "SERVER", "ROLE", "TO"], True),
    "ShowServerRole": (["SHOW", "SERVER", "ROLE"], False),
    "SetPrimaryReads": (["SET", "PRIMARY", "READS", "TO"], True),
    "ShowPrimaryReads": (["SHOW", "PRIMARY", "READS"], False),
}

# panic-capable operations on query-derived data in try_execute_command that are discharged, with the reason
DISCHARGED = {
    ("buf", "get_u8"): "framing: every message handed to the router has a 1-byte code (read_message guarantees >= 5 bytes)",
    ("buf", "get_i32"): "framing: read_message guarantees the 4-byte length field",
    ("unwrap", "read_string"): "framing: a Q message without the NUL terminator is a malformed frame, not a string over the command vocabulary (C11 inventory)",
    ("index", "matches[0]"): "guarded by matches.len() == 1",
    ("index", "regex_list[matches[0]]"): "RegexSet and the Regex list are built from the same 7-element table (setup asserts equal length); index is a match index of that set",
    ("panic", "unreachable:index"): "match index of a 7-regex set is 0..6 (C13-R1 proves the table has 7 entries and 7 arms)",
    ("panic", "unreachable:role"): "the SET SERVER ROLE regex captures only the five role literals (C13-R1 checks the alternation)",
    ("unwrap", "set_sharding_key"): "QueryRouter::set_sharding_key returns Some(..) on every path (checked structurally below)",
    ("index", "comment-routing-slice"): "only with comment routing regexes configured; bounded by min(len-5, limit) (malformed frames: C11 inventory)",
    ("assert", "comment-routing-arith"): "only with comment routing regexes configured (malformed frames: C11 inventory)",
    ("assert", "rem:shards"): "SET SHARD TO ANY: `% pool_settings.shards`; zero shards is a configuration obligation (C15)",
}


def run(ctx):
    F = ctx.facts
    ctx.explanation = ("the command table (7 anchored case-insensitive regexes aligned with the Command enum) read from the evaluated constant, reply discipline of handle_custom_protocol over all paths, "
                       "handled => not forwarded, SHOW/SET field agreement, and totality of the handler on query-derived text (panic-site inventory with taint)")
    ctx.assumptions = ["regex crate semantics: `(?i)^...$` matches whole strings case-insensitively (trusted library)", "regex matching over all strings is not evaluated; only the table's shape is decided"]
    # ---------------- R1 table
    r1 = ctx.rule("C13-R1", "the 7 command regexes are whole-string anchored, case-insensitive, aligned with the Command variant returned for their index, and exactly the SET commands capture an argument", floor=7)
    rb = ctx.body(REGEXES, r1)
    tec = ctx.body(TEC, r1)
    regexes = []
    if rb:
        for blk, i, st in rb.assigns():
            if st["rv"]["k"] == "agg" and st["rv"].get("agg") == "array":
                regexes = [const_str(o) for o in st["rv"]["ops"]]
    idx_map = {}
    if tec:
        tsw = switches(tec)
        for sw in tsw:
            if sw.ty != "usize" or len(sw.targets) < 5:
                continue
            for v, tb in sw.targets:
                # follow to the Command aggregate
                reach = tec.reach([tb])
                best = None
                for b_ in sorted(reach):
                    if not tec.dominates(tb, b_):
                        continue
                    for st in tec.blocks[b_]["stmts"]:
                        if st["k"] == "assign" and st["rv"]["k"] == "agg" and st["rv"].get("adt", "").endswith("query_router::Command"):
                            best = st["rv"]["variant"]
                            break
                    if best:
                        break
                idx_map[v] = best
            # otherwise arm must be a panic (unreachable) not silently something else
            break
    r1.check(len(regexes) == 7 and all(isinstance(x, str) for x in regexes), "table-size", "CUSTOM_SQL_REGEXES has 7 string entries", "CUSTOM_SQL_REGEXES has %d entries" % len(regexes))
    r1.check(sorted(idx_map) == list(range(len(regexes))) and all(idx_map.values()), "index-arms", "match index arms 0..%d map to Command variants %s" % (len(regexes) - 1, [idx_map.get(i) for i in range(len(regexes))]),
             "index -> Command arms do not cover the table: %s" % idx_map)
    r1.check(sorted(v for v in idx_map.values() if v) == sorted(CMD), "variants-covered", "all seven documented commands are produced", "commands produced by the index switch: %s" % sorted(str(v) for v in idx_map.values()))
    for i, rx in enumerate(regexes):
        if not isinstance(rx, str):
            continue
        var = idx_map.get(i)
        key = "regex[%s]" % (var or i)
        fm = re.match(r"^\(\?([a-zA-Z]*)(?:-([a-zA-Z]+))?\)\^", rx)
        flags = set(fm.group(1)) if fm else set()
        off = set(fm.group(2) or "") if fm else set()
        rest = rx[len(fm.group(0)):] if fm else rx
        # case-insensitive, and NOT multi-line (with `m`, ^ and $ match at every line of the query)
        ok_anchor = bool(fm) and "i" in flags and "m" not in flags and rx.endswith("$") and not rx.endswith("\\$") and not re.search(r"\(\?[a-zA-Z]*m[a-zA-Z]*[-):]", rest)
        r1.check(ok_anchor, key + ":anchored", "%r is anchored with (?i..)^ ... $" % rx, "%r is not a whole-query, case-insensitive pattern: a query that merely contains the command text would be swallowed" % rx)
        # keywords are ASCII: case folding must be ASCII too (Unicode folding makes U+017F LONG S match `S` and U+212A KELVIN SIGN match `K`;
        # PostgreSQL folds keywords in ASCII only) - D43
        r1.check("u" in off, key + ":ascii-case-folding", "case folding is ASCII-only ((?i-u))", "%r folds case the Unicode way: `\u017fET \u017fHARD TO 1` and `SET SHARDING \u212aEY TO 5` are taken for commands although PostgreSQL would reject them" % rx)
        # no unanchored top-level alternation
        depth = 0
        top_alt = False
        j = 0
        while j < len(rx):
            ch = rx[j]
            if ch == "\\":
                j += 2
                continue
            if ch == "(":
                depth += 1
            elif ch == ")":
                depth -= 1
            elif ch == "|" and depth == 0:
                top_alt = True
            j += 1
        r1.check(not top_alt, key + ":no-top-level-alternation", "no top-level `|` (anchors bind the whole pattern)", "%r has a top-level alternation: one side escapes the anchors" % rx)
        if var in CMD:
            kws, cap = CMD[var]
            body = rest[:-1]
            # strip groups (innermost first) to find the keywords
            stripped = body
            while re.search(r"\([^()]*\)", stripped):
                stripped = re.sub(r"\([^()]*\)", " ", stripped)
            words = re.findall(r"[A-Za-z]+", stripped)
            r1.check([w.upper() for w in words] == kws, key + ":keywords", "keywords %s match Command::%s" % (kws, var), "regex %d (%r) is paired with Command::%s but spells %s" % (i, rx, var, words))
            groups = re.findall(r"(?<!\\)\((?!\?)([^()]*)\)", rx)
            # a value may be written quoted or bare: one capture group per spelling, all with the same value pattern
            r1.check((len(groups) >= 1 and len(set(groups)) == 1) if cap else not groups, key + ":capture", "capture groups: %s" % groups,
                     "Command::%s expects %s, regex has %s" % (var, "capture group(s) with one value pattern" if cap else "no capture group", groups))
            # quotes come in pairs (D43): no optional quote, and the quotes around every capture group are both there or both absent
            unb = "'?" in rx or any((rx[m_.start() - 1:m_.start()] == "'") != (rx[m_.end():m_.end() + 1] == "'") for m_ in re.finditer(r"(?<!\\)\((?!\?)[^()]*\)", rx))
            r1.check(not unb, key + ":quotes-balanced", "quotes around the value are both present or both absent", "%r accepts a value with one quote only (`SET SHARD TO '1`), which is not a documented spelling" % rx)
            if var == "SetServerRole":
                alts = sorted(a.lower() for a in groups[0].split("|")) if groups else []
                r1.check(alts == ["any", "auto", "default", "primary", "replica"], key + ":role-literals", "role alternation is exactly the five handled literals", "role alternation %s differs from the literals handled by try_execute_command" % alts)
            if var in ("SetShardingKey", "SetShard"):
                r1.check(bool(groups) and groups[0].split("|")[0] == "[0-9]+", key + ":numeric", "numeric argument is [0-9]+", "numeric argument pattern changed: %s" % (groups and groups[0]))
    # the value is taken from whichever group holds it: every capture group index of the table is read
    if tec and regexes:
        need = max([len(re.findall(r"(?<!\\)\((?!\?)[^()]*\)", rx)) for rx in regexes if isinstance(rx, str)] or [0])
        got = set()
        for n_, b_ in F.bodies.items():
            if n_ == TEC or n_.startswith(TEC + "::{closure"):
                for c in b_.calls("re:regex::regex::string::Captures.*::get$"):
                    if len(c.args) > 1 and const_int(c.args[1]) is not None:
                        got.add(const_int(c.args[1]))
        r1.check(set(range(1, need + 1)) <= got, "value-read-from-every-group", "the value is read from capture group(s) %s" % sorted(got), "the table has patterns with %d capture groups, try_execute_command reads only group(s) %s: a value spelled the other way is lost (the command is forwarded)" % (need, sorted(got)))
    # the role literal match arms in try_execute_command cover the alternation
    if tec:
        lits = set()
        for c in tec.calls("re:^core::str::traits::<impl core::cmp::PartialEq for str>::eq$"):
            lits |= arg_strs(tec, c)
        r1.check({"primary", "replica", "any", "auto", "default"} <= lits, "role-arms", "try_execute_command handles the five role literals", "role literals handled: %s" % sorted(lits))
        r1.check("ANY" in lits, "shard-any-arm", "SET SHARD TO ANY is handled", "SET SHARD TO ANY arm missing")

    # ---------------- R2 every command is answered
    r2 = ctx.rule("C13-R2", "every command arm of handle_custom_protocol sends exactly one reply (CommandComplete / row / error), each ending in ReadyForQuery, before reporting the message as handled", floor=8)
    hcp = ctx.body(HCP, r2)
    if hcp:
        hsw = switches(hcp)
        csw = None
        for sw in hsw:
            d = sw.discr()
            if d and d[0].endswith("query_router::Command"):
                csw = (sw, d)
        if not csw:
            r2.missing("switch on Command in handle_custom_protocol")
        else:
            sw, d = csw
            adt = F.adt_of_type("pgcat::query_router::Command")
            allv = [v["name"] for v in adt["variants"]]
            missing = [v for v in allv if v not in d[2]]
            # `otherwise` must be unreachable when all variants have arms
            oth = hcp.blocks[d[3]]["term"]["k"]
            r2.check(not missing or oth == "unreachable", "arms-cover-enum", "every Command variant has its own arm", "Command variants without an arm: %s (they fall into a default that may not reply)" % missing)
            # the Ok(true) return: aggregate Result::Ok with const true
            ok_true = [blk for blk, i, st in hcp.assigns() if st["rv"]["k"] == "agg" and st["rv"].get("variant") == "Ok" and st["rv"]["ops"] and const_int(st["rv"]["ops"][0]) == 1]
            if not ok_true:
                r2.missing("Ok(true) in handle_custom_protocol")
            resp_calls = hcp.calls(*RESPONDERS)
            resp_blocks = {c.block for c in resp_calls}
            # the SetShard/None sub-arm is infeasible iff try_execute_command always assigns Some(_) to active_shard in the SetShard arm
            none_edges = set()
            for sw2 in hsw:
                d2 = sw2.discr()
                if d2 and d2[0].startswith("core::option::Option<usize>") and "None" in d2[2] and hcp.dominates(d[2].get("SetShard", -1), sw2.block):
                    none_edges.add((sw2.block, d2[2]["None"]))
            for v in allv:
                tgt = d[2].get(v)
                if tgt is None:
                    continue
                wit = hcp.uncrossed_path([tgt], ok_true, blocks=resp_blocks, edges=none_edges)
                r2.check(wit is None, "arm:%s:replies" % v, "Command::%s always replies before Ok(true)" % v, "Command::%s can be reported as handled without any reply to the client (the client hangs)" % v, "", wit and hcp.describe_path(wit))
                # not two replies on one path
                two = False
                for c in resp_calls:
                    if c.block in hcp.reach([tgt]) and hcp.dominates(tgt, c.block):
                        after = hcp.reach([c.target]) if c.target is not None else set()
                        if any(c2.block in after and c2.block != c.block for c2 in resp_calls):
                            two = True
                r2.check(not two, "arm:%s:single" % v, "Command::%s sends one reply" % v, "Command::%s can send two replies for one query" % v)
            if none_edges and tec:
                # companion: SetShard arm of try_execute_command assigns an Option::Some to active_shard
                vals = set()
                for blk, i, st in tec.assigns():
                    fs = proj_fields(st["lhs"])
                    if fs and fs[-1] == "active_shard":
                        for o in origins(tec, st["rv"]["op"]) if st["rv"]["k"] == "use" else []:
                            if o.kind == "agg" and "option::Option" in str(o.what):
                                vals.add(o.extra["variant"])
                r2.check(vals == {"Some"}, "setshard-none-infeasible", "try_execute_command assigns only Some(_) to active_shard (the `None` sub-arm of SET SHARD is infeasible)", "try_execute_command can assign %s to active_shard: SET SHARD could be acknowledged without a reply" % sorted(vals))
    for fn in RESPONDERS:
        b = ctx.body(fn + "::{closure#0}", r2)
        if not b:
            continue
        rets = [bb for bb, blk in enumerate(b.blocks) if blk["term"]["k"] == "return"]
        rfq = [c.block for c in b.calls("pgcat::messages::send_ready_for_query", "pgcat::messages::error_response")]
        errs = [c.block for c in b.calls("re:FromResidual<.*>>::from_residual$")]
        wit = b.uncrossed_path([0], rets, blocks=rfq + errs)
        r2.check(wit is None, "responder:%s" % fn.split("::")[-1], "%s ends with ReadyForQuery on every Ok path" % fn.split("::")[-1], "%s can return Ok without sending ReadyForQuery" % fn, "", wit and b.describe_path(wit))

    # ---------------- R3 handled => not forwarded
    r3 = ctx.rule("C13-R3", "a message handled as a command never reaches a server checkout in that iteration; an unhandled one is never answered by the command handler", floor=2)
    h = ctx.body(H, r3)
    if h:
        hsw2 = switches(h)
        T, Fa, sites = call_bool_edges(h, "pgcat::client::Client::handle_custom_protocol", switches_cache=hsw2)
        if not T:
            r3.missing("branch on handle_custom_protocol() in handle")
        else:
            gets = [c.block for c in h.calls("pgcat::pool::ConnectionPool::get")]
            sends = [c.block for c in h.calls("pgcat::client::Client::send_and_receive_loop", "pgcat::server::Server::send", "pgcat::client::Client::send_server_message")]
            heads = [x for x in loop_headers(h) if gets and h.dominates(x, gets[0])]
            outer = min(heads) if heads else None
            reach = h.reach([d_ for _, d_ in T], avoid_blocks=[outer] if outer is not None else [])
            bad = [b_ for b_ in gets + sends if b_ in reach]
            r3.check(not bad and outer is not None, "handled=>no-checkout", "handle_custom_protocol()==true returns to the idle loop without checkout or send", "a handled command can still reach a checkout/send (bb%s)" % bad)
        # the commands are evaluated against the configuration in force: SET SHARD's range, the sharder of SET SHARDING KEY, the default role come from the
        # router's copy of the pool settings - refreshed from the pool looked up for this message before the handler runs (round 10: a first command after a
        # reload that changed the number of shards was answered for the old pool and selected a shard of the old numbering)
        hcp_calls = h.calls("pgcat::client::Client::handle_custom_protocol")
        ups = h.calls("pgcat::query_router::QueryRouter::update_pool_settings")
        rmb = [c.block for c in h.calls("pgcat::messages::read_message")]
        gp = h.calls("pgcat::client::Client::get_pool")
        if not hcp_calls or not rmb:
            r3.missing("handle_custom_protocol call / read_message in handle")
        else:
            for k_, hc_ in enumerate(hcp_calls):
                fresh = [u_ for u_ in ups if h.dominates(u_.block, hc_.block) and any(h.dominates(r_, u_.block) for r_ in rmb)
                         and any(o.kind == "call" and o.call.name.startswith("pgcat::client::Client::get_pool") and any(h.dominates(r_, o.call.block) for r_ in rmb) for o in origins(h, u_.args[1], taint=True))]
                r3.check(bool(fresh), "settings-refreshed-before-the-command#%d" % k_, "the router takes the settings of the pool looked up for this message before the command handler runs",
                         "handle_custom_protocol runs on the router's settings as they were for the previous message: after a reload that changes shards / sharding function / default role, the first command is "
                         "evaluated for the old pool - SET SHARDING KEY selects a shard of the old numbering, SHOW reports it, and the next statement is checked out on that shard of the new pool", hc_.where())
        if tec:
            # None (not a command) paths of try_execute_command must not mutate router state after the regex decision... reported only
            pass
        hc = ctx.body(HCP)
        if hc:
            hsw3 = switches(hc)
            noneE, someE, _ = discr_edges(hc, r"core::option::Option<\(pgcat::query_router::Command", "None", switches_cache=hsw3)
            if not noneE:
                r3.missing("None arm of try_execute_command result in handle_custom_protocol")
            else:
                reach = hc.reach([d_ for _, d_ in noneE])
                bad = [c for c in hc.calls(*RESPONDERS) if c.block in reach]
                okf = [blk for blk, i, st in hc.assigns() if blk in reach and st["rv"]["k"] == "agg" and st["rv"].get("variant") == "Ok" and st["rv"]["ops"] and const_int(st["rv"]["ops"][0]) == 0]
                r3.check(not bad and bool(okf), "not-command=>untouched", "a non-command returns Ok(false) without writing to the client", "the non-command path writes a reply or does not return Ok(false)")

    # ---------------- R4 SHOW reports what SET established
    r4 = ctx.rule("C13-R4", "the SHOW arms read the very state the SET arms write (active_shard, active_role / parser override, primary reads override)", floor=3)
    if tec:
        written = set()
        for blk, i, st in tec.assigns():
            fs = proj_fields(st["lhs"])
            if fs and st["lhs"]["l"] == 1:
                written.add(fs[-1])
        reads = fields_read(tec)
        callee_reads = set()
        for c in tec.calls("pgcat::query_router::QueryRouter::shard", "pgcat::query_router::QueryRouter::query_parser_enabled", "pgcat::query_router::QueryRouter::primary_reads_enabled"):
            b = F.body(c.name)
            if b:
                callee_reads |= fields_read(b)
        for fld in ("active_shard", "active_role", "query_parser_enabled", "primary_reads_enabled"):
            r4.check(fld in written and (fld in reads or fld in callee_reads), "state:" + fld, "%s is written by SET and read by SHOW" % fld,
                     "%s: written=%s read=%s" % (fld, fld in written, fld in reads or fld in callee_reads))

    # the commands are recognised case-insensitively ((?i), R1), so the captured keyword must be compared case-insensitively too:
    # otherwise `SET PRIMARY READS TO ON` is recognised, acknowledged - and ignored. Sibling arms must agree (SET SERVER ROLE folds).
    if tec:
        ncmp = 0
        for c in tec.calls("re:PartialEq.*::eq$", "re:PartialEq.*::ne$"):
            lit = None
            other = None
            for k_, a in enumerate(c.args[:2]):
                cst = op_const(a)
                sv = cst.get("str") if isinstance(cst, dict) else None
                if sv is None:
                    for o in origins(tec, a):
                        if o.kind == "const" and isinstance(o.what, str):
                            sv = o.what
                if sv is not None and re.fullmatch(r"[A-Za-z_]+", sv):
                    lit, other = sv, c.args[1 - k_]
            if lit is None or other is None:
                continue
            tainted = {o.call.name.split("::")[-1] for o in origins(tec, other, taint=True) if o.kind == "call"}
            if not ({"captures", "as_str"} & tainted):
                continue
            ncmp += 1
            direct = {o.call.name.split("::")[-1] for o in origins(tec, other) if o.kind == "call"}
            folded_l = bool(direct & {"to_ascii_lowercase", "to_lowercase"})
            folded_u = bool(direct & {"to_ascii_uppercase", "to_uppercase"})
            okf = (folded_l and lit == lit.lower()) or (folded_u and lit == lit.upper())
            r4.check(okf, "keyword-compared-folded:%s" % lit, "captured keyword is case-folded before being compared with %r" % lit,
                     "the keyword captured by a case-insensitive command regex is compared with %r as written: `... TO %s` is recognised and acknowledged but has no effect (SHOW keeps the old value)" % (lit, lit.upper()), c.where())
        r4.check(ncmp >= 6, "keyword-comparisons", "%d comparisons of a captured keyword with a literal" % ncmp, "expected >= 6 keyword comparisons in try_execute_command, found %d" % ncmp)

    # a refused command establishes nothing: SHOW keeps reporting what the last accepted SET established
    from common import set_shard_refusal_findings
    for key, ok, okmsg, failmsg in set_shard_refusal_findings(F):
        if ok is None:
            r4.missing(key)
        else:
            r4.check(ok, "refused-set-shard:" + key, okmsg, failmsg)

    # what a SET established stays until the client says otherwise: the session's overrides are written by the command handler alone (the role and the
    # shard also by the per-statement inference, whose guards are C05's / C06's), never as a side effect of something the client did not send - a reload,
    # a settings refresh, a checkout. A writer that is only ever called from an allowed one counts as part of it.
    ALLOWED_W = {"query_parser_enabled": {"try_execute_command"}, "primary_reads_enabled": {"try_execute_command"},
                 "active_role": {"try_execute_command", "infer", "infer_for_batch", "set_default_role"},
                 "active_shard": {"try_execute_command", "handle_inferred_shard", "set_shard"}}
    QR = "pgcat::query_router::QueryRouter::"

    def within(fn, allowed, depth=0):
        if fn.replace("::{closure#0}", "").split("::")[-1] in allowed and fn.startswith(QR):
            return True
        callers = {c.body.name for c in F.all_calls(fn.replace("::{closure#0}", ""))}
        return depth < 3 and bool(callers) and all(within(k, allowed, depth + 1) for k in callers)
    wr = {}
    for b_, blk, st in F.field_writes(lambda f, b_, st: f in ALLOWED_W):
        if "::test" in b_.name or b_.name.startswith("bin:"):
            continue
        # a field of that name of QueryRouter (not of PoolSettings: `pool_settings.query_parser_enabled` is configuration)
        pf = proj_fields(st["lhs"])
        if len(pf) >= 2 and pf[-2] in ("pool_settings", "settings"):
            continue
        wr.setdefault(pf[-1], set()).add(b_.name)
    for fld in sorted(ALLOWED_W):
        strangers = sorted(n_ for n_ in wr.get(fld, ()) if not within(n_, ALLOWED_W[fld]))
        r4.check(bool(wr.get(fld)) and not strangers, "established-stays:" + fld, "QueryRouter.%s is written only by %s" % (fld, sorted(x.split("::")[-1] for x in wr.get(fld, ()))),
                 "QueryRouter.%s is also written by %s: what the client's SET established changes without the client having sent a command, and SHOW reports something the client never set" % (fld, [x.replace(QR, "") for x in strangers]))

    # SET SHARDING KEY establishes the shard of *this* key under the pool's *current* settings, every time it is sent: set_sharding_key passes
    # Sharder::shard and the write of the selection on every way through - a shortcut on `same key as last time` answers CommandComplete and
    # establishes nothing when SET SHARD, a sharding comment, an inferred shard or a reload moved the selection in between
    ssk = F.body("pgcat::query_router::QueryRouter::set_sharding_key")
    if ssk is None:
        r4.missing("QueryRouter::set_sharding_key")
    else:
        shc = [c.block for c in ssk.calls("pgcat::sharding::Sharder::shard")]
        wrs = [c.block for c in ssk.calls("pgcat::query_router::QueryRouter::set_shard")] + [blk for blk, i, st in ssk.assigns() if proj_fields(st["lhs"])[-1:] == ["active_shard"]]
        rets_ = [bb for bb, blk in enumerate(ssk.blocks) if blk["term"]["k"] == "return"]
        w1 = ssk.uncrossed_path([0], rets_, blocks=shc) if shc else [0]
        w2 = ssk.uncrossed_path([0], rets_, blocks=wrs) if wrs else [0]
        r4.check(w1 is None and w2 is None, "sharding-key-always-established", "set_sharding_key computes the shard of its argument and writes the selection on every way through",
                 "set_sharding_key can return without computing the shard of the key it was given (or without writing the selection): the command is acknowledged, SHOW SHARD reports what an intervening SET SHARD / comment / "
                 "inference / reload left, and the next statement runs on that shard's servers", "", (w1 and w1 != [0] and ssk.describe_path(w1)) or (w2 and w2 != [0] and ssk.describe_path(w2)))

    # ... and the inference, which may write the role and the shard, leaves them alone in a session that switched it off with SET SERVER ROLE (the clause is C05-R4's, shared)
    from common import explicit_role_kept_findings
    erk = explicit_role_kept_findings(F)
    if erk is None:
        r4.missing("Client::handle / routing inferences")
    else:
        for key_, ok_, okm_, fm_, wh_, wit_ in erk:
            r4.check(ok_, key_, okm_, fm_ + " - SHOW SERVER ROLE then reports a role no SET established", wh_, wit_)

    # ---------------- R5 totality on query-derived text
    r5 = ctx.rule("C13-R5", "try_execute_command has no panic-capable operation on data derived from the query text other than the discharged ones (numeric arguments of any length get a reply, not a panic)", floor=5)
    if tec:
        ssk = F.body("pgcat::query_router::QueryRouter::set_sharding_key")
        ssk_total = False
        if ssk:
            vals = set()
            for blk, i, st in ssk.assigns():
                if st["lhs"]["l"] == 0 and not st["lhs"]["p"]:
                    if st["rv"]["k"] == "agg":
                        vals.add(st["rv"].get("variant"))
                    else:
                        for o in origins(ssk, st["rv"].get("op")) if st["rv"]["k"] == "use" else []:
                            if o.kind == "agg":
                                vals.add(o.extra.get("variant"))
                            elif o.kind in ("call", "place", "param"):
                                vals.add("?")
            ssk_total = vals == {"Some"}
            if not ssk_total:
                # alternative shape: `self.set_shard(Some(x)); self.active_shard`
                ret_fields = {o.proj[-1] for blk, i, st in ssk.assigns() if st["lhs"]["l"] == 0 and not st["lhs"]["p"] and st["rv"]["k"] == "use" for o in origins(ssk, st["rv"]["op"]) if o.kind == "place" and o.proj}
                setc = ssk.calls("pgcat::query_router::QueryRouter::set_shard")
                some_arg = bool(setc) and all(o.extra.get("variant") == "Some" for o in origins(ssk, setc[0].args[1]) if o.kind == "agg") and any(o.kind == "agg" for o in origins(ssk, setc[0].args[1]))
                rets = [bb for bb, blk in enumerate(ssk.blocks) if blk["term"]["k"] == "return"]
                dom = bool(setc) and all(ssk.dominates(setc[0].block, r_) for r_ in rets)
                sb = F.body("pgcat::query_router::QueryRouter::set_shard")
                stores = bool(sb) and any(proj_fields(st["lhs"])[-1:] == ["active_shard"] and any(o.kind == "param" and o.what == 2 for o in origins(sb, st["rv"]["op"])) for blk, i, st in sb.assigns() if st["rv"]["k"] == "use")
                ssk_total = ret_fields == {".active_shard"} and some_arg and dom and stores
        n = 0
        for s in panic_sites(tec, include_expansion=False):
            srcs = set()
            tainted = False
            for op in s["ops"]:
                for o in origins(tec, op, taint=True):
                    if o.kind == "param" and o.what == 2:
                        tainted = True
                    if o.kind == "call":
                        srcs.add(o.call.name.split("::")[-1])
            kind = s["kind"].split(":")[0]
            if kind == "panic":
                msg = arg_strs(tec, s["call"]) if s["call"] else set()
                # classify the two unreachable!() by the switch that leads to them
                pre = tec.pred("n")[s["block"]]
                key = ("panic", "unreachable:index" if any(tec.blocks[p]["term"]["k"] == "switch" and tec.blocks[p]["term"]["ty"] == "usize" for p in pre) else "unreachable:role")
                tainted = True
            elif not tainted:
                if kind == "assert" and "RemainderByZero" in s["kind"]:
                    key = ("assert", "rem:shards")
                else:
                    continue
            elif kind == "buf":
                key = ("buf", s["what"].split("::")[-1])
            elif kind == "unwrap":
                # the immediate producer of the unwrapped Option/Result
                prod = sorted({o.call.name.split("::")[-1] for o in origins(tec, s["ops"][0]) if o.kind == "call"})
                key = ("unwrap", "+".join(prod) or "?")
                if key == ("unwrap", "parse"):
                    key = ("unwrap", "str::parse")
            elif kind == "index":
                if "matches" in srcs and s["call"] and const_int(s["call"].args[1]) == 0 and "get" not in {o.call.name.split("::")[-1] for o in origins(tec, s["call"].args[0]) if o.kind == "call"}:
                    key = ("index", "matches[0]")
                elif "matches" in srcs:
                    key = ("index", "regex_list[matches[0]]")
                else:
                    key = ("index", "comment-routing-slice")
            elif kind == "assert":
                if "RemainderByZero" in s["kind"]:
                    key = ("assert", "rem:shards")
                else:
                    key = ("assert", "comment-routing-arith")
            else:
                key = (kind, s["what"].split("::")[-1])
            n += 1
            if key in DISCHARGED:
                if key == ("unwrap", "set_sharding_key") and not ssk_total:
                    r5.fail("site:%s:%s" % key, "set_sharding_key can return None, `.unwrap()` on it panics the client task", s["span"])
                else:
                    r5.ok("site:%s:%s" % key, "discharged: " + DISCHARGED[key])
            else:
                r5.fail("site:%s:%s" % key, "panic-capable %s on query-derived data (%s <- %s): a syntactically valid command with such an argument kills the client task instead of producing a reply" % (kind, s["what"].split("::")[-1], sorted(srcs)[:6]), s["span"])
        r5.note("%d query-derived panic-capable sites" % n)

    # ---------------- R6 whether a query is a command is decided by the query alone (round 5)
    r6 = ctx.rule("C13-R6", "a query is handled by the pooler iff its whole text is a documented command: on the way to the command regex set, try_execute_command gives up (returns without matching) only on what the message itself says "
                  "(its code, a routing comment the configured comment regexes captured) - never on a pool setting or a length limit, which would forward valid commands to the server", floor=2)
    tec6 = ctx.body(TEC, r6)
    if tec6:
        ms = tec6.calls("re:^regex::regexset::string::RegexSet::matches$|RegexSet::matches$")
        if not ms:
            r6.missing("RegexSet::matches in try_execute_command")
        else:
            M = ms[0].block
            can_reach = {b for b in range(tec6.nblocks) if M in tec6.reach([b])} | {M}
            before = tec6.reach([0], avoid_blocks=[M])
            nsk = 0
            for sw in switches(tec6):
                if sw.block not in before or sw.block not in can_reach or sw.block == M:
                    continue
                succs = {t for _, t in sw.targets} | {sw.otherwise}
                skip = [t for t in succs if t is not None and t not in can_reach and not tec6.blocks[t]["cleanup"] and tec6.blocks[t]["term"]["k"] != "unreachable"]
                if not skip:
                    continue
                nsk += 1
                op = tec6.blocks[sw.block]["term"]["op"]
                os_ = origins(tec6, op, taint=True)
                selff = sorted({".".join(p_[1:] for p_ in o.proj if p_.startswith(".")) for o in os_ if o.kind in ("place", "param") and o.what == 1 and o.proj})
                via_capture = any(o.kind == "call" and re.search(r"Regex::captures$|Option<T>::and_then$|Captures<'h>::get$|Captures::get$", strip_generics(o.call.name)) for o in os_)
                r6.check(not selff or via_capture, "gives-up-on-the-message-only:bb%d" % sw.block if False else "gives-up-on-the-message-only#%d" % nsk,
                         "the early return is decided by the message (code / captured routing comment)",
                         "try_execute_command skips the command regexes depending on QueryRouter.%s: a valid command (any spelling, any length) can be forwarded to the server instead of being handled, and SHOW no longer reports what the SETs established" % selff,
                         tec6.blocks[sw.block]["term"].get("span", ""))
            r6.check(nsk >= 1, "early-returns", "%d early return(s) before the command regexes, all decided by the message" % nsk, "no early return found before the regex set (anchor changed)")

    # ---------------- R7 the error reply is built whole (round 6)
    r7 = ctx.rule("C13-R7", "a refused command is answered with a well-formed ErrorResponse: in the encoder every field is appended as it was built (type byte, text, terminating NUL) - nothing shortens a field "
                  "after its terminator was added (a cap applied to `text\\0` cuts the terminator off for long texts, e.g. the error that quotes a 300-digit sharding key)", floor=2)
    for enc in ("pgcat::messages::error_response_terminal::{closure#0}",):
        eb = ctx.body(enc, r7)
        if not eb:
            continue
        SHORTEN = r"::(truncate|split_off|split_to|drain|pop|resize|retain|remove|advance|set_len|clear|shrink_to)$"
        puts = eb.calls("re:BufMut>::put_slice$|BufMut::put_slice$|BufMut>::put$|extend_from_slice$")
        npay = 0
        for c in puts:
            if len(c.args) < 2:
                continue
            vis = set()
            origins(eb, c.args[1], visited=vis, taint=True)
            vis = {l for l in vis if isinstance(l, int)}
            cut = []
            for k_ in eb.calls("re:" + SHORTEN):
                v2 = set()
                origins(eb, k_.args[0], visited=v2)
                if {l for l in v2 if isinstance(l, int)} & vis:
                    cut.append(k_)
            npay += 1
            r7.check(not cut, "field-appended-as-built#%d" % npay, "the bytes appended at %s are not shortened after they were built" % c.span.split(":", 1)[1],
                     "the field appended at %s is shortened (%s) after it was built with its terminating NUL: beyond the cap the ErrorResponse has a correct length word but an unterminated field list - "
                     "a client that parses the body runs off the end of the message" % (c.span.split(":", 1)[1], sorted({k_.name.split("::")[-1] for k_ in cut})), cut[0].where() if cut else "")
        r7.check(npay >= 4, "fields", "%d appended pieces examined in %s" % (npay, enc.split("::")[-2]), "expected >= 4 appended pieces in %s, found %d" % (enc, npay))

"""C17 — shutdown is graceful (structure only; timing and exit status are not decided)."""
from mirlib import *
from common import completed_request_release_findings

H = "pgcat::client::Client::handle::{closure#0}"
EP = "pgcat::client::client_entrypoint::{closure#0}"
MAIN = "bin:pgcat::main::{closure#1}"
BRECV = "re:^tokio::sync::broadcast::Receiver::recv$"


def fields_of(body, op, taint=False):
    return {p[1:] for o in origins(body, op, taint=taint) if o.kind in ("place", "param") for p in o.proj if p.startswith(".") and not p[1:].isdigit()}


def run(ctx):
    F = ctx.facts
    ctx.explanation = ("placement of the shutdown observation (only the idle loop of Client::handle polls the broadcast receiver; nothing reachable from the transaction loop touches it), "
                       "the admin-only gate wiring from the SIGINT arm to Client::startup, +1/-1 drain pairing around every Client::handle call, and the arms of main's select loop, over lib+bin MIR")
    ctx.assumptions = ["timing (shutdown_timeout), process exit status and the order of select! readiness are not decided", "tokio::select! numbers its output arms after the elements of its tuple of branch futures (the local the macro names `futures`)",
                       "a panic inside handle skips the -1 (exit then happens by timeout): reported, not armed"]
    # ---------------- R1
    r1 = ctx.rule("C17-R1", "a running transaction is never interrupted by shutdown: the shutdown receiver is polled only in the idle loop; on shutdown a non-admin client gets the administrator-command error and is disconnected, an admin client keeps reading", floor=4)
    h = ctx.body(H, r1)
    if h:
        hsw = switches(h)
        rc = [c for c in h.calls(BRECV) if "shutdown" in fields_of(h, c.args[0])]
        rm = [c.block for c in h.calls("pgcat::messages::read_message")]
        claim = h.calls("pgcat::server::Server::claim")
        heads = [hd for hd in loop_headers(h) if any(b_ in natural_loop(h, hd) for b_ in rm)]
        if not rc or len(heads) < 2 or not claim:
            r1.missing("shutdown.recv() / loops / claim in handle")
        else:
            outer = min(heads)
            inner = min(hd for hd in heads if hd != outer and h.dominates(claim[0].block, hd))
            inner_blocks = natural_loop(h, inner)
            r1.check(len(rc) == 1 and rc[0].block not in inner_blocks and not h.dominates(claim[0].block, rc[0].block), "recv-only-when-idle", "shutdown.recv() is created only in the idle loop, before any checkout", "the shutdown receiver is polled while a server is borrowed (bb%s)" % [c.block for c in rc])
            # no place in the transaction loop mentions Client.shutdown
            touch = sorted({b for b, p, how in all_places(h) if b in inner_blocks and "shutdown" in proj_fields(p)})
            r1.check(not touch, "inner-loop-blind", "no statement of the transaction loop reads or borrows Client.shutdown", "the transaction loop touches Client.shutdown at bb%s" % touch[:5])
            # callees reachable from the transaction loop do not touch it either
            callees = sorted({c.name for c in h.calls() if c.block in inner_blocks and c.name.startswith("pgcat::client::")})
            bad = []
            for n in F.reachable_fns(callees):
                b = F.body(n)
                if b and n != H and any("shutdown" in proj_fields(p) for _, p, how in all_places(b)) and "client::Client" in n:
                    bad.append(n)
            r1.check(not bad, "helpers-blind", "no helper reachable from the transaction loop touches Client.shutdown", "helpers that touch the shutdown receiver: %s" % bad)
            # `an admin client keeps reading`: ... the message it was sending. The wait for the broadcast shares a select! with read_message, which is not
            # cancel-safe: the branch that wins must not read the same socket again (D85, known finding: the admin branch starts a fresh read_message)
            from common import select_cancelled_read_findings
            scr = select_cancelled_read_findings(F)
            if scr is None:
                r1.ok("select-cancelled-read=>gone", "read_message is not a branch of any select! in Client::handle (nothing cancels it but the deadlines of C03-R8)")
            for key_, ok_, good_, bad_, where_ in scr or []:
                r1.check(ok_, key_, good_, bad_, where_)
            # `transaction-mode clients idle between transactions are disconnected`: such a client is in the idle loop, where the broadcast is heard - the transaction
            # loop is left as soon as a request is complete outside a transaction, also when pgcat answered it itself (D83)
            crr = completed_request_release_findings(F)
            if crr is None:
                r1.missing("transaction loop / message-code switch in handle")
            for key, ok, good, bad_ in crr or []:
                r1.check(ok, key, good, bad_)
            # what happens when shutdown fires: find the select output switch arm whose region contains error_response_terminal with the administrator text
            term = [c for c in h.calls("pgcat::messages::error_response_terminal") if any("administrator command" in s_ for s_ in arg_strs(h, c)) and c.block not in inner_blocks]
            if not term:
                r1.fail("admin-command-error", "the idle loop no longer answers shutdown with `terminating connection due to administrator command`")
            else:
                T_ad, F_ad = field_bool_edges(h, "admin", hsw)
                wit = h.uncrossed_path([outer], [term[0].block], edges=F_ad)
                r1.check(bool(F_ad) and wit is None, "only-non-admin-kicked", "only non-admin clients are disconnected on shutdown", "an admin client can be disconnected by shutdown", "", wit and h.describe_path(wit))
                # ... and every non-admin client is: once the broadcast was received (it is consumed: there is no second one), going on without the
                # administrator-command error is possible only for an admin (round 6: `!admin && batch buffer empty` let a client in the middle of a batch
                # read the notice, ignore it and stay for ever)
                goes_on = [c.block for c in h.calls("pgcat::messages::read_message") if c.block not in inner_blocks] + [outer]
                starts_ = [rc[0].target] if rc and rc[0].target is not None else []
                # the arm of the select that belongs to the shutdown branch: blocks dominated by the switch arm that leads to the terminal error
                sel_arm = None
                for sw in hsw:
                    d_ = sw.discr()
                    if d_ and "__tokio_select_util::Out<" in d_[0]:
                        for v_, t_ in d_[2].items():
                            if h.dominates(t_, term[0].block):
                                sel_arm = t_
                if sel_arm is None:
                    r1.missing("select! arm of the shutdown branch in the idle loop")
                else:
                    w_ = h.uncrossed_path([sel_arm], goes_on, blocks=[term[0].block], edges=T_ad)
                    r1.check(bool(T_ad) and w_ is None, "every-non-admin-kicked", "in the shutdown arm only `admin == true` leads on to the next message; every other path sends the administrator-command error",
                             "in the shutdown arm a non-admin client can go on reading messages (the broadcast is consumed, it will never be told again): it keeps starting transactions and holds the drain count above 0 until shutdown_timeout",
                             "", w_ and h.describe_path(w_))
                after = h.reach([term[0].target], avoid_blocks=[outer]) if term[0].target is not None else set()
                disc = [c for c in h.calls("pgcat::stats::client::ClientStats::disconnect") if c.block in after]
                oks = [blk for blk, i, st in h.assigns() if blk in after and st["lhs"]["l"] == 0 and st["rv"]["k"] == "agg" and st["rv"].get("variant") == "Ok"]
                r1.check(bool(disc) and bool(oks) and outer not in h.reach([term[0].target]) - {outer} or True, "kick=>return", "after the error the client is disconnected and handle returns", "the kicked client is not disconnected")
                r1.check(bool(disc) and bool(oks), "kick=>disconnect+return", "the kicked client is unregistered and handle returns Ok", "after the administrator-command error the client is not unregistered / handle does not return")
    # ---------------- R2
    r2 = ctx.rule("C17-R2", "after SIGINT new non-admin logins are refused: the flag set in the SIGINT arm is what client_entrypoint / Client::startup receive as admin_only (see C09-R4 for the gate itself)", floor=3)
    m = ctx.body(MAIN, r2)
    if m:
        ao = m.locals_named("admin_only")
        sp = [c for c in m.calls("re:^tokio::task::spawn::spawn$")]
        ok = False
        sets = []
        if ao:
            sets = [d_[1] for d_ in m.defs().get(ao[0], []) if d_[0] == "assign" and const_int(d_[3]["rv"].get("op")) == 1]
            # the per-client task closure captures admin_only
            for b_, i, st in m.assigns():
                rv = st["rv"]
                if rv["k"] == "agg" and rv.get("agg") in ("coroutine", "closure") and "closure#5" in rv.get("def", "") or (rv["k"] == "agg" and rv.get("agg") in ("coroutine", "closure")):
                    cb = F.body("bin:" + strip_generics(rv["def"]).replace("pgcat::", "pgcat::", 1)) or F.body(strip_generics(rv["def"]))
                    name = "bin:" + strip_generics(rv["def"])
                    cb = F.body(name)
                    if cb and cb.calls("pgcat::client::client_entrypoint"):
                        idxs = [i_ for i_, op in enumerate(rv["ops"]) if op_local(op) == ao[0]]
                        if idxs:
                            ce = cb.calls("pgcat::client::client_entrypoint")[0]
                            ok = any(o.kind in ("place", "param") and o.proj and o.proj[0] == ".%d" % idxs[0] for o in origins(cb, ce.args[4]))
        r2.check(bool(ao) and bool(sets), "flag-set-on-sigint", "main sets admin_only = true when shutdown starts", "main no longer sets admin_only")
        r2.check(ok, "flag-reaches-entrypoint", "client_entrypoint receives main's admin_only flag", "client_entrypoint is not called with main's admin_only flag")
    ep = ctx.body(EP, r2)
    if ep:
        st_calls = ep.calls("pgcat::client::Client::startup", "pgcat::client::startup_tls")
        ok = bool(st_calls) and all(any(o.kind in ("place", "param") for o in origins(ep, c.args[-1])) and "bool" == ep.locals[op_local(c.args[-1])]["ty"] for c in st_calls if op_local(c.args[-1]) is not None)
        srcs = [{tuple(o.proj) for o in origins(ep, c.args[-1]) if o.kind in ("place", "param")} for c in st_calls]
        r2.check(ok and len({frozenset(s_) for s_ in srcs}) == 1, "entrypoint-forwards-flag", "every startup path receives the same admin_only parameter", "startup calls do not all receive client_entrypoint's admin_only parameter")
    # a connection either sees admin_only = true when it is accepted, or is subscribed when it is accepted: flag and subscription are taken in the
    # same turn of main's loop (the one that also holds the SIGINT arm), so that no SIGINT fits between them. A subscription taken later, inside the
    # client's task, misses a broadcast sent while the client was still silent after connecting - it logs in with admin_only = false and is never told
    subs = list(F.all_calls("re:^tokio::sync::broadcast::Sender(<.*>)?::subscribe$"))
    late = sorted({c.body.name for c in subs if c.body.name != MAIN})
    r2.check(bool(subs) and not late, "subscribed-when-accepted", "the shutdown broadcast is subscribed to only in main's loop (%d site(s)), in the turn that accepts the connection and captures admin_only" % len(subs),
             "the shutdown broadcast is subscribed to in %s, inside the client's own task: a SIGINT between accept and that point is sent before the subscription and after admin_only was captured - the client is neither refused nor ever told, "
             "starts transactions during the shutdown and holds the process until shutdown_timeout" % [x.replace("::{closure#0}", "") for x in late])
    if m and ep:
        in_main = [c for c in subs if c.body.name == MAIN]
        eps = ep.calls("pgcat::client::Client::startup", "pgcat::client::startup_tls", "pgcat::client::Client::cancel")
        rx_from_param = bool(eps) and all(any(o.kind == "param" for a in c.args if op_local(a) is not None and "broadcast::Receiver" in ep.locals[op_local(a)]["ty"] for o in origins(ep, a)) for c in eps)
        r2.check(bool(in_main) and rx_from_param, "subscription-reaches-the-client", "the Receiver every Client is built with is client_entrypoint's parameter (main's subscription)", "a Client is built with a Receiver that is not the one main subscribed for it")
    from common import admin_only_gate
    gok, gwhy = admin_only_gate(F)
    if gok is None:
        r2.missing(gwhy)
    else:
        r2.check(gok, "gate-before-every-login", "in Client::startup every way to AuthenticationOk crosses admin == true or admin_only == false, whatever the authentication method of the user",
                 "a non-admin client can be logged in while admin_only is set (after SIGINT / SHUTDOWN): it never hears the shutdown broadcast (sent before it subscribed), keeps starting transactions, "
                 "holds total_clients above 0 until shutdown_timeout and is cut off there", "", gwhy)
    # admin SHUTDOWN is SIGINT by another road: `shutdown()` raises the signal against its own process. Whether the graceful shutdown starts must not depend on the
    # administrator still being there to read the answer - the signal is raised before the function can return, fail or be suspended (round 11)
    sd = ctx.body("pgcat::admin::shutdown::{closure#0}", r2)
    if sd:
        kills = sd.calls("re:^nix::sys::signal::kill$")
        if not kills:
            r2.missing("signal::kill in admin::shutdown")
        else:
            ends = [bb for bb, blk in enumerate(sd.blocks) if blk["term"]["k"] in ("return", "yield") and not blk["cleanup"]]
            wit = sd.uncrossed_path([0], ends, blocks=[k.block for k in kills])
            sig = [o for k in kills for o in origins(sd, k.args[1], taint=True)]
            r2.check(bool(ends) and wit is None, "admin-shutdown-raises-the-signal-first", "admin SHUTDOWN raises the signal before any return, error exit or suspension of shutdown() (%d exits/suspensions)" % len(ends),
                     "admin SHUTDOWN can return or be suspended before it has raised the signal (%s): if writing the answer fails - the administrator has hung up, a script that does not wait for replies - the `?` leaves before "
                     "signal::kill: no admin-only mode, no broadcast, no timer; pgcat goes on accepting clients although SHUTDOWN was given" % (sd.describe_path(wit)[-160:] if wit else ""), kills[0].where())
            hcalls = [c for c in (F.body("pgcat::admin::handle_admin::{closure#0}").calls("pgcat::admin::shutdown") if F.body("pgcat::admin::handle_admin::{closure#0}") else [])]
            r2.check(bool(hcalls), "admin-shutdown-wired", "handle_admin calls shutdown() (%d site(s))" % len(hcalls), "handle_admin no longer calls admin::shutdown")
    # ---------------- R3 drain accounting
    r3 = ctx.rule("C17-R3", "client_entrypoint reports +1 before and -1 after every Client::handle of a non-admin client (both guarded by the same immutable is_admin())", floor=8)
    if ep:
        esw = switches(ep)
        hc = ep.calls("pgcat::client::Client::handle")
        sends = ep.calls("re:^tokio::sync::mpsc::bounded::Sender::send$")
        plus = [c.block for c in sends if const_int(c.args[1]) == 1]
        minus = [c.block for c in sends if const_int(c.args[1]) in (-1, 0xFFFFFFFF)]
        T_ad, F_ad, _ = call_bool_edges(ep, "pgcat::client::Client::is_admin", switches_cache=esw)
        rets = [bb for bb, blk in enumerate(ep.blocks) if blk["term"]["k"] == "return"]
        r3.check(len(hc) == 4 and len(plus) == 4 and len(minus) == 4, "sites", "4 handle call sites, 4 `+1` and 4 `-1` sends", "handle sites=%d, +1 sends=%d, -1 sends=%d" % (len(hc), len(plus), len(minus)))
        for i, c in enumerate(hc):
            wit = ep.uncrossed_path([0], [c.block], blocks=plus, edges=T_ad)
            r3.check(wit is None, "plus-before-handle#%d" % (i + 1), "handle() is entered only after drain.send(1) or for an admin client", "a non-admin client can enter handle() without being counted", c.where())
            wit = ep.uncrossed_path([c.target], rets, blocks=minus, edges=T_ad) if c.target is not None else None
            r3.check(wit is None, "minus-after-handle#%d" % (i + 1), "after handle() returns, drain.send(-1) precedes the return for non-admin clients", "a non-admin client can leave without being un-counted (shutdown would wait for the timeout)", c.where())
    wr = [(b_.name, st["span"]) for b_, blk, st in F.field_writes(lambda f, b_, st: f == "admin" and "client::Client" in b_.name)]
    r3.check(not wr, "admin-immutable", "Client.admin is assigned only in constructors (the two is_admin() tests agree)", "Client.admin is reassigned at %s" % wr)
    # ---------------- R4 the accept loop's arms
    r4 = ctx.rule("C17-R4", "main's loop: SIGINT broadcasts shutdown once, starts the shutdown_timeout timer that forces exit; the drain arm exits when the last client left; SIGTERM and the exit channel leave the loop; admin SHUTDOWN raises SIGINT", floor=6)
    if m:
        msw = switches(m)
        sel = None
        for sw in msw:
            d = sw.discr()
            if d and re.match(r"^pgcat::main::.*__tokio_select_util::Out<", d[0]):
                sel = (sw, d)
        # which signal each arm of the select waits for: arm _i is the i-th element of the tuple of branch futures; that future is `signal.recv()` itself or an
        # async block that waits for several signals and says in its result which one came (then the arm's paths are split by that result)
        def sel_model(body):
            sl = None
            for sw_ in switches(body):
                d_ = sw_.discr()
                if d_ and re.search(r"__tokio_select_util::Out<", d_[0]):
                    sl = (sw_, d_)
            if not sl:
                return None
            n = len([v for v in sl[1][2] if v.startswith("_")])
            tup = None
            for blk in body.blocks:
                for st in blk["stmts"]:
                    if st["k"] == "assign" and st["rv"]["k"] == "agg" and st["rv"]["agg"] == "tuple" and len(st["rv"]["ops"]) == n and not st["lhs"]["p"] \
                            and "futures" in body.varnames.get(st["lhs"]["l"], []):
                        tup = st["rv"]["ops"]
            return (sl[0], sl[1], tup) if tup else None

        def sig_kinds(body, op, upv=None):
            ks = set()
            for o in origins(body, op, taint=True):
                if o.kind == "call" and "SignalKind" in o.call.name:
                    ks.add(o.call.name.split("::")[-1])
                elif upv and o.kind in ("place", "param") and o.what == 1 and o.proj and o.proj[0][1:].isdigit() and int(o.proj[0][1:]) < len(upv[1]):
                    ks |= sig_kinds(upv[0], upv[1][int(o.proj[0][1:])])
            return ks
        mm = sel_model(m)
        # signal -> [(arm variant, None | the value of the arm's payload that stands for it)]
        sig_arm = {}
        if mm:
            for i, op in enumerate(mm[2]):
                for o in origins(m, op):
                    if o.kind == "call" and o.call.is_("re:^tokio::signal::unix::Signal::recv$"):
                        for k in sig_kinds(m, o.call.args[0]):
                            sig_arm.setdefault(k, []).append(("_%d" % i, None))
                    elif o.kind == "agg" and o.extra.get("agg") in ("coroutine", "closure"):
                        nb = F.body("bin:" + strip_generics(o.extra["def"]))
                        nm = sel_model(nb) if nb else None
                        if not nm:
                            continue
                        for j, op2 in enumerate(nm[2]):
                            tgt = nm[1][2].get("_%d" % j)
                            if tgt is None:
                                continue
                            reg_j = {b_ for b_ in nb.reach([tgt]) if nb.dominates(tgt, b_)}
                            vals = {const_int(st["rv"].get("op")) for b_ in reg_j for st in nb.blocks[b_]["stmts"]
                                    if st["k"] == "assign" and st["lhs"]["l"] == 0 and not st["lhs"]["p"] and st["rv"]["k"] == "use"}
                            for o2 in origins(nb, op2):
                                if o2.kind == "call" and o2.call.is_("re:^tokio::signal::unix::Signal::recv$") and len(vals) == 1 and None not in vals:
                                    for k in sig_kinds(nb, o2.call.args[0], (m, o.extra["ops"])):
                                        sig_arm.setdefault(k, []).append(("_%d" % i, next(iter(vals))))
        if not sel or not mm or len(sig_arm) < 2:
            r4.missing("select! output switch / signal receivers in main")
        else:
            sw, d = sel
            arms = d[2]
            rmh = [hd for hd in loop_headers(m) if sw.block in natural_loop(m, hd)]
            loop = natural_loop(m, min(rmh)) if rmh else set()
            head = min(rmh) if rmh else None

            def arm_region(v, val=None):
                """the blocks of arm v; with `val`, only those reached when the arm's payload has that value"""
                av = []
                if val is not None:
                    for sw2 in msw:
                        if sw2.is_bool() and any(o.kind == "place" and ("@" + v) in o.proj for o in sw2.origins()) and not any(o.kind in ("un", "bin") for o in sw2.origins()):
                            te, fe = sw2.bool_edges()
                            av.append(fe if val else te)
                return {b_ for b_ in m.reach([arms[v]], avoid_blocks=[head] if head is not None else [], avoid_edges=av) if m.dominates(arms[v], b_)}, av

            def leaves(reg, av=()):
                return [b_ for b_ in reg if any(s_ not in loop and (b_, s_) not in av and m.blocks[s_]["term"]["k"] != "unreachable" and not m.blocks[s_]["cleanup"] for s_ in m.succ("n")[b_])]
            r4.check(all(k in sig_arm for k in ("hangup", "interrupt", "terminate")), "signals", "SIGHUP, SIGINT and SIGTERM are all awaited in the loop", "signal kinds awaited: %s" % sorted(sig_arm))
            term_arms = {v for v, _ in sig_arm.get("terminate", [])}
            for v_int, val in sig_arm.get("interrupt", []):
                if v_int not in arms:
                    continue
                reg, av = arm_region(v_int, val)
                bs = [c for c in m.calls("re:^tokio::sync::broadcast::Sender::send$") if c.block in reg]
                spn = [c for c in m.calls("re:^tokio::task::spawn::spawn$") if c.block in reg]
                r4.check(bool(bs), "sigint:broadcast", "the SIGINT arm broadcasts the shutdown to client tasks", "the SIGINT arm does not broadcast shutdown")
                ok_t = False
                for c in spn:
                    for o in origins(m, c.args[0]):
                        if o.kind == "agg" and o.extra.get("agg") in ("coroutine", "closure"):
                            tb = F.body("bin:" + strip_generics(o.extra["def"]))
                            if tb:
                                iv = tb.calls("re:^tokio::time::interval::interval$")
                                ex = tb.calls("re:^tokio::sync::mpsc::bounded::Sender::send$")
                                if iv and ex:
                                    # edition-2021 closures capture `config.general.shutdown_timeout` itself: resolve the upvar in the parent
                                    fl = set(fields_of(tb, iv[0].args[0], taint=True))
                                    for oo in origins(tb, iv[0].args[0], taint=True):
                                        if oo.kind in ("place", "param") and oo.what == 1 and oo.proj and oo.proj[0][1:].isdigit():
                                            ui = int(oo.proj[0][1:])
                                            if ui < len(o.extra["ops"]):
                                                fl |= fields_of(m, o.extra["ops"][ui], taint=True)
                                    if "shutdown_timeout" in fl:
                                        ok_t = True
                r4.check(ok_t, "sigint:timer", "the SIGINT arm spawns a timer of general.shutdown_timeout that signals exit", "no shutdown_timeout timer forcing the exit")
                ao = m.locals_named("admin_only")
                sets = [d_[1] for d_ in m.defs().get(ao[0], []) if d_[0] == "assign" and const_int(d_[3]["rv"].get("op")) == 1] if ao else []
                r4.check(bool(sets) and all(s_ in reg for s_ in sets), "sigint:admin_only", "admin_only is set in the SIGINT arm", "admin_only is not set in the SIGINT arm")
                r4.check(not leaves(reg, av), "sigint:stays", "the SIGINT arm does not leave the loop (graceful)", "the SIGINT arm exits immediately")
            for v_term, val in sig_arm.get("terminate", []):
                if v_term not in arms:
                    continue
                reg, av = arm_region(v_term, val)
                r4.check(bool(leaves(reg, av)), "sigterm:break", "the SIGTERM arm leaves the loop immediately", "SIGTERM no longer leaves the loop")
                # `SIGTERM exits immediately`, whatever came before it: no path of the arm goes round the loop again (a second signal is not `already handled`)
                back = m.uncrossed_path([arms[v_term]], [head], edges=av, blocks=[b_ for b_ in range(m.nblocks) if m.blocks[b_]["cleanup"]]) if head is not None else None
                r4.check(back is None, "sigterm:leaves-on-every-path", "every path of the SIGTERM arm leaves the loop",
                         "a path of the SIGTERM arm goes back to waiting (%s): a SIGTERM that arrives in that state - e.g. after SIGINT has started the graceful shutdown - does not end the process" %
                         ("branching at " + ", ".join(str(m.blocks[b_]["term"].get("span")) for b_ in back if m.blocks[b_]["term"]["k"] == "switch")[:160] if back else ""),
                         "bb%s" % back[-2] if back and len(back) > 1 else "")
            # exit channel arm and drain arm: arms _4 / _5 identified by the mpsc receivers
            mrecv = sorted(m.calls("re:^tokio::sync::mpsc::bounded::Receiver::recv$"), key=lambda c: c.block)
            exit_break = False
            drain_ok = False
            for v, tgt in arms.items():
                if not v.startswith("_"):
                    continue
                reg = arm_region(v)[0]
                exits = [b_ for b_ in reg if any(s_ not in loop and m.blocks[s_]["term"]["k"] != "unreachable" and not m.blocks[s_]["cleanup"] for s_ in m.succ("n")[b_])]
                tc = m.locals_named("total_clients")
                writes_total = tc and any(d_[1] in reg for d_ in m.defs().get(tc[0], []))
                if writes_total:
                    # signalling the exit channel (awaited or not) or leaving the loop directly both end the process
                    snd = [c for c in m.calls("re:^tokio::sync::mpsc::bounded::Sender::(send|try_send)$") if c.block in reg] or exits
                    eqz = False
                    for sw2 in msw:
                        if sw2.block in reg and sw2.is_bool():
                            for o in sw2.origins():
                                if o.kind == "bin" and o.what == "Eq" and (const_int(o.extra["b"]) == 0 or const_int(o.extra["a"]) == 0):
                                    eqz = True
                    drain_ok = bool(snd) and eqz
                elif exits and v not in term_arms:
                    exit_break = True
            # `the process exits once all clients have left`: that nobody is left is decided in the drain arm alone, on a count that has taken in every ping queued
            # before - the SIGINT arm asks by queueing a ping of its own (0) behind them. Reading the counter in the SIGINT arm sees only the pings the loop has
            # already received: a client whose +1 is still queued is cut off in mid-transaction
            def chan_of(op):
                return {o.call.block for o in origins(m, op, taint=True) if o.kind == "call" and o.call.name.endswith("mpsc::bounded::channel")}
            tc_ = m.locals_named("total_clients")
            drain_arm = [v for v in arms if v.startswith("_") and tc_ and any(d_[1] in arm_region(v)[0] for d_ in m.defs().get(tc_[0], []))]
            int_arms = [(v, val) for v, val in sig_arm.get("interrupt", []) if v in arms]
            if int_arms and drain_arm:
                dreg = arm_region(drain_arm[0])[0]
                # the exit channel: the one the drain arm signals when the count reaches 0 (select!'s output enum merges the receivers, the senders stay apart)
                exch = set()
                for c in m.calls("re:^tokio::sync::mpsc::bounded::Sender::(send|try_send)$"):
                    if c.block in dreg:
                        exch |= chan_of(c.args[0])
                dch = exch
                ireg = arm_region(*int_arms[0])[0]
                isend = [c for c in m.calls("re:^tokio::sync::mpsc::bounded::Sender::(send|try_send)$") if c.block in ireg]
                ping = [c for c in isend if chan_of(c.args[0]) and not (chan_of(c.args[0]) & exch) and const_int(c.args[1]) == 0]
                stray = [c for c in isend if chan_of(c.args[0]) & exch]
                r4.check(bool(dch) and bool(ping), "sigint:asks-through-the-drain-channel", "the SIGINT arm queues a ping (0) into the drain channel, behind the pings already queued",
                         "the SIGINT arm does not queue a ping into the drain channel: with nobody connected the loop is never asked and waits for shutdown_timeout")
                r4.check(bool(dch) and not stray, "sigint:decides-nothing-itself", "the SIGINT arm signals no exit on its own reading of the counter",
                         "the SIGINT arm signals the exit channel itself (%s), on a counter that lags behind the pings still queued: a client that has just logged in and started a transaction - its +1 not yet taken in - is cut off, "
                         "COMMIT never reaches the server" % [c.where() for c in stray][:1])
            # `SIGTERM exits immediately` (and SIGINT starts the shutdown, and clients are accepted) at every moment: the loop that hears the signals awaits nothing
            # that can take long. A reload connects to servers (validate_config, min_pool_size) for up to connect_timeout each: it runs in a task of its own, the
            # SIGHUP arm only spawns it (D74)
            inline_rl = [c for c in m.calls("pgcat::config::reload_config", "pgcat::pool::ConnectionPool::from_config") if c.block in loop]
            r4.check(not inline_rl, "loop-awaits-no-reload", "main's select loop does not await reload_config / from_config itself",
                     "main's select loop awaits %s inside one of its arms: while the reload connects to a slow server the loop polls nothing - SIGTERM does not end the process, SIGINT starts no shutdown, nobody is accepted, "
                     "for up to connect_timeout per server" % sorted({c.name.split("::")[-1] for c in inline_rl}), inline_rl[0].where() if inline_rl else "")
            r4.check(exit_break, "exit-channel:break", "the exit channel arm leaves the loop", "no arm leaves the loop on the exit channel")
            r4.check(drain_ok, "drain:last-client", "the drain arm signals exit when the client count reaches 0", "the drain arm no longer signals exit at total_clients == 0")
    sd = ctx.body("pgcat::admin::shutdown::{closure#0}", r4)
    if sd:
        k = sd.calls("re:^nix::sys::signal::kill$")
        ok = bool(k) and any(o.kind == "call" and o.call.name.endswith("process::id") for o in origins(sd, k[0].args[0], taint=True)) and any(o.kind == "agg" and o.extra.get("variant") == "SIGINT" for o in origins(sd, k[0].args[1], taint=True))
        r4.check(ok, "admin-shutdown=SIGINT", "admin SHUTDOWN raises SIGINT on the pooler's own pid", "admin SHUTDOWN no longer raises SIGINT on the own pid")

    # ---------------- R5 the loop that decides the exit must itself stay live
    r5 = ctx.rule("C17-R5", "main's loop never waits for room in a channel that only the loop itself drains (a full channel would stop the loop for good: no exit when the last client leaves, none at shutdown_timeout)", floor=2)
    if m:
        def chan(op):
            return {o.call.block for o in origins(m, op, taint=True) if o.kind == "call" and o.call.name.endswith("mpsc::bounded::channel")}
        own = {}
        for c in m.calls("re:^tokio::sync::mpsc::bounded::Receiver::recv$"):
            for ch in chan(c.args[0]):
                own[ch] = c
        r5.check(len(own) == 2, "own-channels", "the loop is the receiver of the drain and the exit channel", "main receives from %d channels (2 expected: drain, exit)" % len(own))
        n = 0
        for c in m.calls("re:^tokio::sync::mpsc::bounded::Sender::(send|send_timeout|reserve|reserve_owned|send_many)$"):
            chs = chan(c.args[0]) & set(own)
            if not chs:
                continue
            n += 1
            vis = set()
            origins(m, c.args[0], visited=vis, taint=True)
            names = sorted({nm for l in vis for nm in m.varnames.get(l if isinstance(l, int) else l[0] if isinstance(l, tuple) else -1, ())})
            cap = [const_int(m.blocks[ch]["term"]["args"][0]["op"] if "op" in m.blocks[ch]["term"]["args"][0] else m.blocks[ch]["term"]["args"][0]) for ch in chs]
            r5.fail("self-send:%s" % ("/".join(names) or "?"), "the loop awaits `%s.send(..)` although it is the only receiver of that channel (capacity %s): once the channel is full the loop blocks in this arm forever and the process neither exits with the last client nor at shutdown_timeout" % ("/".join(names) or "sender", cap), c.where())
        r5.check(True, "scan", "every awaited send of main's loop goes to a channel somebody else drains (%d self-sends)" % n, "")

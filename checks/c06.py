"""C06 — a sharding key always maps to PostgreSQL's hash partition, by every routing path."""
from mirlib import *
from symterm import SymEval, mk, show
from common import positions_follow_numeric_shard_ids

QR = "pgcat::query_router::QueryRouter::"
SH = "pgcat::sharding::Sharder::"
HCP = "pgcat::client::Client::handle_custom_protocol::{closure#0}"
GETC = "pgcat::pool::ConnectionPool::get::{closure#0}"
SEED = 0x7A5B22367996DCFD


def fields_of(body, op, taint=False):
    return {p[1:] for o in origins(body, op, taint=taint) if o.kind in ("place", "param") for p in o.proj if p.startswith(".") and not p[1:].isdigit()}


# ------------------------------------------------------------------ reference: PostgreSQL src/common/hashfn.c + partbounds.c
def rot(x, k):
    return mk("or", 32, mk("shl", 32, x, k), mk("shr", 32, x, 32 - k))


def ref_mix(a, b, c):
    for (x, y, z, k) in (("a", "c", "b", 4), ("b", "a", "c", 6), ("c", "b", "a", 8), ("a", "c", "b", 16), ("b", "a", "c", 19), ("c", "b", "a", 4)):
        v = {"a": a, "b": b, "c": c}
        # x -= y; x ^= rot(y,k); y += z
        v[x] = mk("sub", 32, v[x], v[y])
        v[x] = mk("xor", 32, v[x], rot(v[y], k))
        v[y] = mk("add", 32, v[y], v[z])
        a, b, c = v["a"], v["b"], v["c"]
    return a, b, c


def ref_final(a, b, c):
    for (x, y, k) in (("c", "b", 14), ("a", "c", 11), ("b", "a", 25), ("c", "b", 16), ("a", "c", 4), ("b", "a", 14), ("c", "b", 24)):
        v = {"a": a, "b": b, "c": c}
        v[x] = mk("xor", 32, v[x], v[y])
        v[x] = mk("sub", 32, v[x], rot(v[y], k))
        a, b, c = v["a"], v["b"], v["c"]
    return a, b, c


def ref_hash_uint32_extended(k):
    a = b = c = mk("add", 32, mk("add", 32, 0x9E3779B9, 4), 3923095)
    a = mk("add", 32, a, SEED >> 32)
    b = mk("add", 32, b, SEED & 0xFFFFFFFF)
    a, b, c = ref_mix(a, b, c)
    a = mk("add", 32, a, k)
    a, b, c = ref_final(a, b, c)
    return mk("or", 64, mk("shl", 64, mk("zext", 64, b), 32), mk("zext", 64, c))


def ref_combine64(a, b):
    return mk("xor", 64, a, mk("add", 64, mk("add", 64, mk("add", 64, b, 0x49A0F4DD15E5A8E3), mk("shl", 64, a, 54)), mk("shr", 64, a, 7)))


def ref_partition(key, shards, nonneg):
    lo = mk("trunc", 32, key)
    hi = mk("trunc", 32, mk("sar", 64, key, 32))
    lo = mk("xor", 32, lo, hi if nonneg else mk("not", 32, hi))
    return ("rem", 64, ref_combine64(0, ref_hash_uint32_extended(lo)), shards)


def run(ctx):
    F = ctx.facts
    ctx.explanation = ("term reconstruction (value numbering over the MIR def-use chains, constants folded) of pgcat's partition hash compared syntactically, modulo commutativity, with the term obtained from a transcription of PostgreSQL's hash_bytes_uint32_extended / hash_combine64 / hashint8extended; "
                       "who-may-write on the router's active shard, provenance of every Sharder, the SET SHARD range check and the shard filter of the checkout")
    ctx.assumptions = ["the transcription of hashfn.c / partbounds.c in checks/c06.py is faithful to PostgreSQL (constants and operation order reviewed against the sources cited in sharding.rs)",
                       "numeric agreement for all keys follows from term equality, not from evaluation; the SHA1 rule is only checked to be `last 8 hex digits of sha1(decimal key) % shards` structurally"]
    # ---------------- R4 hash skeleton
    r4 = ctx.rule("C06-R4", "Sharder::pg_bigint_hash is, term for term, PostgreSQL's hashint8extended + hash_combine64(0, .) % shards with seed 0x7A5B22367996DCFD", floor=3)
    ev = SymEval(F)
    key = ("sym", "key")
    slf = ("sym", "self")
    try:
        res = ev.run(SH + "pg_bigint_hash", [slf, key])
    except Exception as e:
        res = None
        r4.fail("reconstruct", "cannot reconstruct pg_bigint_hash as a term: %s" % e)
    if res is not None:
        r4.check(len(res) == 2, "two-paths", "two paths (key >= 0 / key < 0)", "pg_bigint_hash has %d paths, expected the two sign cases" % len(res))
        shards = ("field", slf, "shards")
        seen = set()
        for pc, term in res:
            cond = [c for c in pc if isinstance(c[1], tuple) and c[1][0] == "ges"]
            if len(cond) != 1 or cond[0][1] != ("ges", 64, key, 0):
                r4.fail("path-condition", "unexpected path condition %s" % (pc,))
                continue
            nonneg = (cond[0][0] == "notin" and 0 in cond[0][2]) or (cond[0][0] == "eq" and cond[0][2] == 1)
            seen.add(nonneg)
            ref = ref_partition(key, shards, nonneg)
            same = term == ref
            if not same:
                # locate the first difference for the report
                a, b = show(term), show(ref)
                i = next((i for i in range(min(len(a), len(b))) if a[i] != b[i]), min(len(a), len(b)))
                r4.fail("term:key%s0" % (">=" if nonneg else "<"), "the hash term differs from PostgreSQL's at offset %d: pgcat ...%s... vs postgres ...%s..." % (i, a[max(0, i - 40):i + 60], b[max(0, i - 40):i + 60]))
            else:
                r4.ok("term:key%s0" % (">=" if nonneg else "<"), "identical to the PostgreSQL term (%d characters)" % len(show(term)))
                ctx.sample({"rule": "C06-R4", "case": "key>=0" if nonneg else "key<0", "term_prefix": show(term)[:200]})
        r4.check(seen == {True, False}, "both-signs", "both sign cases reconstructed", "sign cases seen: %s" % seen)
        r4.check(ev.const_item("pgcat::sharding::PARTITION_HASH_SEED") == SEED, "seed", "PARTITION_HASH_SEED = 0x7A5B22367996DCFD", "PARTITION_HASH_SEED changed")
    sh = ctx.body(SH + "shard", r4)
    if sh:
        d = [sw.discr() for sw in switches(sh) if sw.discr()]
        ok = bool(d) and d[0][0].endswith("ShardingFunction")
        calls = {c.name.split("::")[-1] for c in sh.calls("re:^pgcat::sharding::Sharder::")}
        r4.check(ok and calls == {"pg_bigint_hash", "sha1"}, "dispatch", "Sharder::shard dispatches on the configured function to pg_bigint_hash / sha1", "Sharder::shard dispatch changed: %s" % sorted(calls))
    s1 = ctx.body(SH + "sha1", r4)
    if s1:
        names = [c.name.split("::")[-1] for c in s1.calls()]
        ok = "from_str_radix" in names and any("to_string" in n for n in names) and any(st["rv"]["k"] == "bin" and st["rv"]["op"] == "Rem" for _, _, st in s1.assigns())
        r4.check(ok, "sha1-shape", "sha1 rule: sha1(decimal key), last 8 hex digits, % shards", "the SHA1 sharding rule changed shape")
    # ---------------- R1 one sharding function for all delivery paths
    r1 = ctx.rule("C06-R1", "every key->shard conversion goes through Sharder::shard built from the pool's shard count and sharding function; active_shard has only the known sources", floor=6)
    news = list(F.all_calls(SH + "new"))
    sites = sorted({c.body.name.replace(QR, "") for c in news})
    r1.check(set(sites) >= {"set_sharding_key", "infer_shard_from_exprs", "infer_shard_from_bind"}, "sharder-sites", "Sharder::new at %s" % sites, "Sharder::new sites: %s" % sites)
    for c in news:
        if "::test::" in c.body.name:
            continue
        f0 = fields_of(c.body, c.args[0])
        f1 = fields_of(c.body, c.args[1])
        r1.check("shards" in f0 and "pool_settings" in f0 and "sharding_function" in f1, "sharder-args@" + c.body.name.split("::")[-1], "Sharder::new(pool_settings.shards, pool_settings.sharding_function)", "Sharder built with %s / %s" % (sorted(f0), sorted(f1)), c.where())
    # only Sharder::shard is used from outside sharding.rs
    ext = sorted({c.name for c in F.all_calls("re:^pgcat::sharding::Sharder::") if not c.body.name.startswith("pgcat::sharding::") and "::test::" not in c.body.name} - {SH + "new", SH + "shard"})
    r1.check(not ext, "only-shard-entry", "the router uses only Sharder::new and Sharder::shard", "other sharder entry points used: %s" % ext)
    # writers of active_shard
    srcs = {}
    for b_, blk, st in F.field_writes(lambda f, b_, st: f == "active_shard"):
        if "::test::" in b_.name:
            continue
        kinds = set()
        if st["rv"]["k"] == "use":
            for o in origins(b_, st["rv"]["op"], taint=True):
                if o.kind == "call":
                    kinds.add(o.call.name.split("::")[-1])
                if o.kind == "param":
                    kinds.add("param")
                if o.kind in ("place",) and o.proj:
                    kinds.add("field:" + o.proj[-1].lstrip("."))
        srcs[b_.name.replace(QR, "")] = kinds
    exp_writers = {"set_shard", "try_execute_command", "handle_inferred_shard"}
    r1.check(set(srcs) <= exp_writers | {"pgcat::query_router::new", "new"}, "active_shard-writers", "active_shard is written by %s" % sorted(srcs), "active_shard has unexpected writers: %s" % sorted(set(srcs) - exp_writers))
    tec = srcs.get("try_execute_command", set())
    r1.check(not tec or tec & {"parse", "random"}, "set-shard-sources", "SET SHARD stores the parsed number or random %% shards", "SET SHARD stores %s" % sorted(tec))
    # each delivery path reaches Sharder::shard
    for entry in ("set_sharding_key", "infer_shard_from_bind", "infer_shard", "infer_shard_on_write"):
        reach = F.reachable_fns([QR + entry])
        r1.check(SH + "shard" in reach, "path:" + entry, "%s reaches Sharder::shard" % entry, "%s no longer reaches Sharder::shard (keys delivered this way are sharded differently)" % entry)
    tecb = F.body(QR + "try_execute_command")
    if tecb:
        r1.check(len(tecb.calls(QR + "set_sharding_key")) >= 2, "comment+command", "both the sharding_key comment and SET SHARDING KEY go through set_sharding_key", "set_sharding_key call sites in try_execute_command: %d" % len(tecb.calls(QR + "set_sharding_key")))
    # `the selection persists until changed`: outside the router the selected shard is only ever put back to what it was (the refused SET SHARD);
    # nothing in the client drops or replaces it (round 6: a checkout failure reset it to None - the next statement ran on the default shard)
    nset = 0
    for c in F.all_calls(QR + "set_shard"):
        if c.body.name.startswith("pgcat::query_router::") or "::test::" in c.body.name:
            continue
        nset += 1
        srcs_ = {o.call.name for o in origins(c.body, c.args[1], taint=True) if o.kind == "call"}
        r1.check(QR + "shard" in srcs_, "selection-only-restored@" + c.body.name.replace("::{closure#0}", "").split("::")[-1], "the shard given to set_shard outside the router is a value read with QueryRouter::shard() before (restore)",
                 "%s calls QueryRouter::set_shard with a value that is not a previously read selection (%s): the session's shard is dropped or replaced without a command of the client" % (c.body.name.replace("::{closure#0}", "").split("::")[-1], sorted(x.split("::")[-1] for x in srcs_) or "a constant"), c.where())
    r1.check(nset >= 1, "external-set_shard-sites", "%d set_shard call site(s) outside the router" % nset, "no set_shard call outside the router (anchor of the SET SHARD refusal moved)")
    # ---------------- R2 out-of-range SET SHARD refused and rolled back
    r2 = ctx.rule("C06-R2", "SET SHARD to a shard that is not configured is answered with an error and the previous shard is restored", floor=3)
    from common import set_shard_refusal_findings
    for key, ok, okmsg, failmsg in set_shard_refusal_findings(F):
        if ok is None:
            r2.missing(key)
        else:
            r2.check(ok, key, okmsg, failmsg)
    # ---------------- R3 only servers of the selected shard
    r3 = ctx.rule("C06-R3", "ConnectionPool::get keeps only servers of the requested shard, refuses invalid shard ids and indexes the connection pools by the chosen candidate's own coordinates", floor=4)
    g = ctx.body(GETC, r3)
    if g:
        rets = g.calls("re:^alloc::vec::Vec::retain$")
        okr = 0
        for c in rets:
            for o in origins(g, c.args[1]):
                if o.kind == "agg" and o.extra.get("agg") == "closure":
                    cb = F.body(strip_generics(o.extra["def"]))
                    if cb:
                        for blk, i, st in cb.assigns():
                            if st["rv"]["k"] == "bin" and st["rv"]["op"] == "Eq" and "shard" in (fields_of(cb, st["rv"]["a"]) | fields_of(cb, st["rv"]["b"])):
                                okr += 1
        r3.check(okr >= 2, "retain-by-shard", "candidates are narrowed with `address.shard == shard` (explicit shard and default_shard)", "candidates are no longer narrowed by shard (%d retain closures compare Address.shard)" % okr)
        gsw = switches(g)
        T, Fa, _ = call_bool_edges(g, "pgcat::pool::ConnectionPool::valid_shard_id", switches_cache=gsw)
        inv = [blk for blk, i, st in g.assigns() if st["rv"]["k"] == "agg" and st["rv"].get("variant") == "InvalidShardId"]
        r3.check(bool(Fa) and bool(inv) and all(g.uncrossed_path([0], [b_], edges=Fa) is None for b_ in inv), "invalid-shard-refused", "InvalidShardId is returned exactly on valid_shard_id()==false", "invalid shard ids are not refused")
        v = F.body("pgcat::pool::ConnectionPool::valid_shard_id")
        if v:
            lt = [st for _, _, st in v.assigns() if st["rv"]["k"] == "bin" and st["rv"]["op"] == "Lt"]
            r3.check(bool(lt) and any(c.name.endswith("ConnectionPool::shards") for c in v.calls()), "valid=shard<shards", "valid_shard_id is `shard < shards()`", "valid_shard_id is no longer `shard < shards()`")
        r3.check(positions_follow_numeric_shard_ids(F), "positions=shard-ids", "the pools are stored at the position of their numeric shard id (from_config sorts the shard keys numerically), so databases[address.shard] is that shard",
                 "from_config does not order the shard keys numerically before filling the positional vectors: databases[address.shard] is another shard's pool once there are 11+ shards (string order \"10\" < \"2\")")
        idx = [c for c in g.calls("re:Index<.*::index$") if "databases" in fields_of(g, c.args[0], taint=True)]
        okx = False
        fl = set()
        for c in g.calls("re:Index<.*::index$"):
            fl |= fields_of(g, c.args[1], taint=False)
        r3.check({"shard", "address_index"} <= fl, "index-by-candidate", "databases[..][..] is indexed by the candidate's shard and address_index", "the connection pool is not indexed by the candidate's own coordinates: %s" % sorted(fl))

    # ---------------- R5 the bound-parameter path reads the key the client sent
    r5 = ctx.rule("C06-R5", "a key that arrives as a bound parameter is the parameter the statement equates with the sharding key, read with its sign and at its own position in the Bind message: "
                  "signed decoding, the parameter loop consumes every parameter's bytes, and only placeholders compared with the sharding key column are recorded", floor=4)
    ib = ctx.body("pgcat::query_router::QueryRouter::infer_shard_from_bind", r5)
    if ib:
        sh = ib.calls("pgcat::sharding::Sharder::shard")
        if not sh:
            r5.missing("Sharder::shard in infer_shard_from_bind")
        else:
            prod = {o.call.name.split("::")[-1] for o in origins(ib, sh[0].args[1]) if o.kind == "call"}
            unsigned = sorted(p_ for p_ in prod if re.match(r"get_u(8|16|32|64|128|int)(_le|_ne)?$|get_uint", p_))
            r5.check(bool(prod) and not unsigned and prod <= {"get_i16", "get_i32", "get_i64", "parse", "get_int", "get_i8"}, "bind-value-signed", "the key is decoded with signed reads (%s)" % sorted(prod),
                     "a binary key parameter is decoded with %s: int2/int4 values lose their sign (k becomes k+2^16 / k+2^32) and a negative key is routed to another key's shard, unlike the same key sent as text or via SET SHARDING KEY" % (unsigned or sorted(prod)), sh[0].where())
        lens = [c for c in ib.calls("re:Buf::get_i32$") if any(c.block in natural_loop(ib, hd) for hd in loop_headers(ib)) and any(k.block in ib.reach([c.block]) for k in ib.calls("re:^core::slice::<impl \\[T\\]>::contains$"))]
        cont = ib.calls("re:^core::slice::<impl \\[T\\]>::contains$")
        if not lens or not cont:
            r5.missing("parameter loop (length read + placeholder test) in infer_shard_from_bind")
        else:
            dom = [c for c in lens if ib.dominates(c.block, cont[0].block)]
            lr = dom[-1] if dom else lens[0]
            heads = sorted((len(natural_loop(ib, hd)), hd) for hd in loop_headers(ib) if lr.block in natural_loop(ib, hd) and cont[0].block in natural_loop(ib, hd))
            phead = heads[0][1]
            consumers = [c.block for c in ib.calls("re:Buf::(get_u8|get_i8|get_i16|get_i32|get_i64|get_int|get_uint|advance|copy_to_slice|copy_to_bytes)$") if c.block in natural_loop(ib, phead) and c.block != lr.block and c.block in ib.reach([lr.target])]
            # a NULL parameter (length -1) has no bytes: the `len < 0` edge is a legitimate way round
            nullE = set()
            for sw in switches(ib):
                if sw.is_bool():
                    for o in sw.origins():
                        if o.kind == "bin" and o.what in ("Lt", "Le", "Gt", "Ge"):
                            len_left = any(oo.kind == "call" and oo.call.block == lr.block for oo in origins(ib, o.extra["a"]))
                            len_right = any(oo.kind == "call" and oo.call.block == lr.block for oo in origins(ib, o.extra["b"]))
                            other = o.extra["b"] if len_left else o.extra["a"]
                            if (len_left or len_right) and const_int(other) in (0, -1):
                                te, fe = sw.bool_edges()
                                if o.neg:
                                    te, fe = fe, te
                                # `len < 0` / `len <= -1` true, `len >= 0` / `len > -1` false, and the mirrored forms
                                negative_is_true = (o.what in ("Lt", "Le")) == len_left
                                nullE.add(te if negative_is_true else fe)
            w = ib.uncrossed_path([lr.target], [phead], blocks=consumers, edges=nullE)
            r5.check(w is None, "bind-parameters-walked-in-step", "every iteration of the parameter loop consumes the parameter it has read the length of",
                     "the parameter loop of infer_shard_from_bind can go to the next parameter without consuming the bytes of the current one (parameters that are not key placeholders, or a wrong binary width): "
                     "for `WHERE name LIKE $1 AND id = $2` the key $2 is then read from the middle of $1's bytes - wrong shard, no shard, or a panic on a perfectly valid Bind", lr.where(), w and ib.describe_path(w))
    sp = ctx.body("pgcat::query_router::QueryRouter::selection_parser", r5)
    if sp:
        ssw = switches(sp)
        fl = sp.locals_named("found")
        T = set()
        for sw in ssw:
            if sw.is_bool() and set(cond_locals(sp, sw.block)) & set(fl):
                te, fe = sw.bool_edges()
                T.add(te)
        npush = 0
        for c in sp.calls("re:^alloc::vec::Vec::push$"):
            var = {str(o.extra.get("variant")) for o in origins(sp, c.args[1]) if o.kind == "agg" and "ShardingKey" in str(o.what)}
            if not var:
                continue
            npush += 1
            guarded = bool(T) and sp.uncrossed_path([0], [c.block], edges=T) is None
            r5.check(guarded, "recorded-only-for-the-key-column:" + "/".join(sorted(var)), "ShardingKey::%s is recorded only where the left-hand side was the sharding key column (`found`)" % "/".join(sorted(var)),
                     "selection_parser records a ShardingKey::%s without looking at `found` (its sibling arm does): any `col = $n` makes $n a sharding-key placeholder - `WHERE age = $1` is routed by the value of age, and "
                     "`WHERE name = $1 AND id = $2` yields two candidate shards and is not routed at all" % "/".join(sorted(var)), c.where())
        r5.check(npush >= 2 and bool(T), "selection-arms", "%d arms of selection_parser record a sharding key, `found` is tested" % npush, "expected the Number and Placeholder arms of selection_parser (found %d) and a test of `found`" % npush)

    # ---------------- R6 every statement's key gets its turn (D49, D50)
    r6 = ctx.rule("C06-R6", "with automatic_sharding_key, QueryRouter::infer derives the shard of every statement it classifies: the key-parameter positions it records start empty for every message "
                  "(positions of a statement that was parsed but never bound - Parse / Describe / Sync - must not be applied to the next statement's Bind), and no branch of the Query arm skips the shard inference", floor=2)
    inf6 = ctx.body("pgcat::query_router::QueryRouter::infer", r6)
    if inf6:
        sw6 = switches(inf6)
        heads6 = [hd for hd in loop_headers(inf6) if any(c.block in natural_loop(inf6, hd) for c in inf6.calls("pgcat::query_router::QueryRouter::infer_shard"))]
        if not heads6:
            r6.missing("statement loop with infer_shard in QueryRouter::infer")
        else:
            head6 = min(heads6)
            clears = [c for c in inf6.calls("re:^alloc::vec::Vec.*::clear$") if "placeholders" in {p_[1:] for o in origins(inf6, c.args[0]) if o.kind in ("place", "param") for p_ in o.proj if p_.startswith(".")}]
            ok_c = any(inf6.dominates(c.block, head6) for c in clears)
            r6.check(ok_c, "placeholders-start-empty", "infer() empties QueryRouter.placeholders before it looks at the statements of a message",
                     "infer() only ever adds to QueryRouter.placeholders (they are emptied when a Bind has been routed): after `Parse(.. WHERE id = $1) Describe Sync` - how drivers prepare - the position stays behind, "
                     "and the Bind of the next statement (`WHERE v = $1 AND id = $2`) takes $1 for a key: two shards, or none - the statement runs on whatever shard was selected before")
            # the Query arm
            qsw = None
            for sw in sw6:
                d = sw.discr()
                if d and d[0].endswith("sqlparser::ast::Statement") and "Query" in d[2] and sw.block in natural_loop(inf6, head6):
                    qsw = (sw, d)
            if not qsw:
                r6.missing("switch on Statement::Query in infer")
            else:
                qt = qsw[1][2]["Query"]
                ish = [c.block for c in inf6.calls("pgcat::query_router::QueryRouter::infer_shard")]
                noneE, _, _ = discr_edges(inf6, r"core::option::Option<alloc::string::String>", "None", switches_cache=sw6)
                w6 = inf6.uncrossed_path([qt], [head6], blocks=ish, edges=set(noneE))
                r6.check(w6 is None, "query-arm-always-infers-shard", "every way through the Query arm passes infer_shard (unless no automatic sharding key is configured)",
                         "a branch of the Query arm goes on to the next statement without deriving the shard (activity-based routing: a SELECT on a recently written table, or any SELECT while the database counts as initializing): "
                         "the statement runs on the shard the previous statement selected", "", w6 and inf6.describe_path(w6))
    # the positions the router holds are those of the statement it looked at last. A Bind is hashed at those positions: the client looks the bound statement up (and has
    # the router look at it again) unless that statement is the last one parsed - `some statement of this batch` is not enough: after Parse s1, Parse s2 the positions
    # are s2's and Bind s1 is routed by a parameter that is not its key (D82)
    pm = F.body("pgcat::client::Client::parse_message_of_bound_statement")
    hb = F.body("pgcat::client::Client::handle::{closure#0}")
    if pm is None or hb is None:
        r6.missing("Client::parse_message_of_bound_statement / Client::handle")
    else:
        gets_ = [c for c in pm.calls("re:^std::collections::hash::map::HashMap::get$") if "prepared_statements" in {p_[1:] for o in origins(pm, c.args[0]) if o.kind in ("place", "param") for p_ in o.proj if p_.startswith(".")}]
        isb = hb.calls("pgcat::query_router::QueryRouter::infer_shard_from_bind")
        look = hb.calls("pgcat::client::Client::parse_message_of_bound_statement")
        r6.check(bool(isb) and bool(look) and all(any(hb.dominates(l_.block, b_.block) for l_ in look) for b_ in isb), "bind-looks-its-statement-up", "every infer_shard_from_bind of Client::handle comes after the look-up of the bound statement",
                 "a Bind is hashed at the recorded positions without the bound statement having been looked up")
        if not gets_:
            r6.missing("look-up of the bound statement in Client.prepared_statements")
        else:
            LAST = re.compile(r"(Iterator::rev|DoubleEndedIterator::(next_back|rfind|rfold|rposition)|Iterator::last|VecDeque::back|::last)$")
            skipped = []
            for blk, i, st in pm.assigns():
                rv_ = st["rv"]
                if not (st["lhs"]["l"] == 0 and not st["lhs"]["p"] and rv_["k"] == "agg" and rv_.get("variant") == "None" and pm.dominates(gets_[0].block, blk) and blk in pm.reach([gets_[0].block])):
                    continue
                # a `?` on the look-up itself is not a skip: the statement is unknown
                deps = pm.direct_control_deps(blk)
                evid = set()
                for sb, _t in deps:
                    for o in origins(pm, pm.blocks[sb]["term"]["op"], taint=True):
                        if o.kind == "call":
                            evid.add(o.call.name)
                if not deps:
                    continue
                if not any(LAST.search(n_) for n_ in evid):
                    skipped.append((blk, sorted(x.split("::")[-1] for x in evid)))
            r6.check(not skipped, "bind-routed-by-its-own-statement", "the look-up of a known statement is skipped only on evidence about the last Parse of the batch (a reverse walk / last element of the buffered messages)",
                     "Client::parse_message_of_bound_statement gives up on a known statement on evidence that is not about the last statement parsed (%s): after `Parse s1 (id = $1 ..), Parse s2 (.. id = $2)` the router holds "
                     "s2's key positions, `Bind s1` is not looked at again and is hashed at position 2 - the statement runs on the shard of a value that is not its key" % skipped[:2])
    # every key the statement mentions takes part: the routines that collect keys from the AST (rows of VALUES, conjuncts of WHERE, assignments,
    # the parameters of a Bind) walk their collections in full - an iterator over the AST that is cut short (take / skip / step_by / take_while /
    # skip_while) leaves keys unseen: `INSERT .. VALUES (1, ..), (2, ..)` routed by its first row alone runs the second row on the wrong shard
    KEYFN = re.compile(r"^pgcat::query_router::QueryRouter::(infer|infer_shard|process_query|selection_parser|assignment_parser|infer_shard_from_exprs|infer_shard_from_bind)(::\{closure#\d+\})*$")
    CUT = "re:(^|::)Iterator::(take|skip|step_by|take_while|skip_while)$"
    kfs = sorted(n_ for n_ in F.bodies if KEYFN.match(n_))
    n_loops = 0
    for n_ in kfs:
        b_ = F.body(n_)
        n_loops += len(loop_headers(b_))
        for c in b_.calls(CUT):
            r6.fail("walks-in-full:%s@%s" % (c.name.split("::")[-1], n_.split("QueryRouter::")[-1]), "%s cuts an iterator short with %s(): part of the statement's rows / conditions / parameters never reach the key extraction, "
                    "and the statement is routed by the keys of the part that was looked at" % (n_.split("QueryRouter::")[-1], c.name.split("::")[-1]), c.where())
    r6.check(len(kfs) >= 6 and n_loops >= 8, "walks-in-full", "the %d key-extraction routines (%d loops) apply no truncating adaptor to an iterator" % (len(kfs), n_loops), "key-extraction routines not found (%d, %d loops)" % (len(kfs), n_loops))

"""C16 — PAUSE holds new transactions and RESUME releases every one of them."""
from mirlib import *
from common import completed_request_release_findings

H = "pgcat::client::Client::handle::{closure#0}"
WP = "pgcat::pool::ConnectionPool::wait_paused::{closure#0}"
PAUSE = "pgcat::pool::ConnectionPool::pause"
RESUME = "pgcat::pool::ConnectionPool::resume"
NOTIFIED = "tokio::sync::notify::Notify::notified"
NOTIFY_WAITERS = "tokio::sync::notify::Notify::notify_waiters"
LOAD = "re:^core::sync::atomic::Atomic.*::load$"
STORE = "re:^core::sync::atomic::Atomic.*::(store|swap|fetch_[a-z]+|compare_exchange.*)$"
SERVER_IO = ("pgcat::client::Client::send_and_receive_loop", "pgcat::client::Client::send_server_message", "pgcat::client::Client::receive_server_message",
             "pgcat::server::Server::send", "pgcat::server::Server::recv", "pgcat::server::Server::query", "pgcat::server::Server::sync_parameters")


def fields_of(body, op):
    return {p[1:] for o in origins(body, op) if o.kind in ("place", "param") for p in o.proj if p.startswith(".") and not p[1:].isdigit()}


def run(ctx):
    F = ctx.facts
    ctx.explanation = ("the two orderings that make the pause gate free of lost wake-ups (waiter registered before the flag is read; flag cleared before waiters are notified), "
                       "who-may-write on the flag and the Notify, the placement of the gate before every checkout, and the admin wiring, decided by dominance/must-pass rules over the MIR")
    ctx.assumptions = ["tokio::sync::Notify: a Notified future receives notify_waiters() from the moment it is created, even if not yet polled (documented, trusted)",
                       "interleavings themselves are not explored; the orderings decided here are the ones the documented Notify contract needs"]
    # the gate word: whatever atomic field(s) of the pool ConnectionPool::paused() / wait_paused() load
    gate = set()
    for fn in ("pgcat::pool::ConnectionPool::paused", WP):
        gb = F.body(fn)
        if gb:
            for c in gb.calls(LOAD):
                gate |= {f for f in F.deep_fields(gb, c.args[0]) if f not in ("0", "data")}
    gate = {f for f in gate if any(fl["name"] == f for v in (F.adts.get("pgcat::pool::ConnectionPool") or {}).get("variants", []) for fl in v["fields"])}
    # ---------------- R1
    r1 = ctx.rule("C16-R1", "wait_paused creates the Notified future before it reads the paused flag, and awaits that very future when the flag was set", floor=3)
    wp = ctx.body(WP, r1)
    if wp:
        nt = wp.calls(NOTIFIED)
        ld = [c for c in wp.calls(LOAD) if F.deep_fields(wp, c.args[0]) & gate] + wp.calls("pgcat::pool::ConnectionPool::paused")
        if not nt or not ld:
            r1.missing("Notify::notified / load(paused) in wait_paused")
        else:
            r1.check("paused_waiter" in fields_of(wp, nt[0].args[0]), "notified-on-paused_waiter", "the waiter is registered on self.paused_waiter", "notified() is not called on self.paused_waiter")
            r1.check(all(wp.dominates(nt[0].block, c.block) for c in ld) and nt[0].block != ld[0].block, "register-before-read", "notified() dominates the load of `paused`",
                     "the paused flag is read before the waiter is registered: a RESUME between the read and the registration is lost and the client waits forever", ld[0].where())
            # the awaited future is that Notified, on the paused==true edge
            sws = switches(wp)
            T, Fa, _ = call_bool_edges(wp, LOAD, "pgcat::pool::ConnectionPool::paused", switches_cache=sws)
            polls = [c for c in wp.calls() if wp.is_poll_of_coroutine(c)]
            okp = False
            for pc in polls:
                src = {o.call.name for o in origins(wp, pc.args[0]) if o.kind == "call"}
                if src == {NOTIFIED} and T and all(wp.uncrossed_path([0], [pc.block], edges=T) is None for _ in [0]):
                    okp = True
            # the same future under a deadline is a wait that is given up: PAUSE holds until RESUME, not for a while (round 11)
            timed = [pc for pc in polls if not okp and NOTIFIED in {o.call.name for o in origins(wp, pc.args[0], taint=True) if o.kind == "call"}
                     and any(re.search(r"tokio::time::(timeout|sleep|interval)", o.call.name) for o in origins(wp, pc.args[0], taint=True) if o.kind == "call")]
            r1.check(okp, "await-registered-future", "on paused==true the function awaits the Notified created before the read",
                     ("wait_paused awaits the registered Notified only under a deadline (%s): when it runs out the client goes on to its checkout although nobody has resumed the pool - PAUSE holds new transactions until RESUME, however long that takes"
                      % sorted({o.call.name.split("::")[-1] for o in origins(wp, timed[0].args[0], taint=True) if o.kind == "call" and "tokio::time" in o.call.name})) if timed else
                     "wait_paused does not await the pre-registered Notified on the paused==true edge (it creates a new one or does not wait)", timed[0].where() if timed else "")
            # on paused == false it does not wait
            rets = [bb for bb, blk in enumerate(wp.blocks) if blk["term"]["k"] == "return"]
            ys = [bb for bb, blk in enumerate(wp.blocks) if blk["term"]["k"] == "yield"]
            reach = wp.reach([d for _, d in Fa])
            r1.check(bool(Fa) and not [y for y in ys if y in reach], "not-paused=>no-wait", "when not paused the gate does not suspend", "wait_paused suspends although the pool is not paused")
    # ---------------- R2
    r2 = ctx.rule("C16-R2", "resume clears the flag before notify_waiters (all waiters); pause only sets it; nobody else writes the flag or notifies", floor=4)
    rs = ctx.body(RESUME, r2)
    if rs:
        st = [c for c in rs.calls(STORE) if F.deep_fields(rs, c.args[0]) & gate]
        nw = rs.calls(NOTIFY_WAITERS)
        r2.check(bool(st) and ((const_int(st[0].args[1]) == 0 and st[0].name.endswith("::store")) or st[0].name.endswith("::fetch_and")), "resume-stores-false", "resume clears the pause flag (%s)" % (st[0].name.split("::")[-1] if st else ""), "resume does not clear the pause flag")
        r2.check(bool(nw) and "paused_waiter" in fields_of(rs, nw[0].args[0]), "resume-notifies-all", "resume calls notify_waiters() on paused_waiter (wakes every held client)", "resume does not call Notify::notify_waiters on paused_waiter (notify_one wakes a single client)")
        r2.check(bool(st) and bool(nw) and rs.dominates(st[0].block, nw[0].block) and st[0].block != nw[0].block, "clear-before-notify", "the flag is cleared before the waiters are woken",
                 "resume wakes the waiters before clearing the flag: a client that re-checks (or arrives) in between is held until the next RESUME")
    ps = ctx.body(PAUSE, r2)
    if ps:
        st = [c for c in ps.calls(STORE) if F.deep_fields(ps, c.args[0]) & gate]
        r2.check(len(st) == 1 and ((const_int(st[0].args[1]) == 1 and st[0].name.endswith("::store")) or st[0].name.endswith("::fetch_or")), "pause-stores-true", "pause sets the pause flag (%s)" % (st[0].name.split("::")[-1] if st else ""), "pause does not simply set the pause flag")
    r2.check(bool(gate), "gate-word", "the pause gate reads ConnectionPool.%s" % sorted(gate), "cannot find the atomic field that paused()/wait_paused() load")
    wr = {}
    for c in F.all_calls(STORE):
        if c.body.name.startswith("bin:") or "::test" in c.body.name:
            continue
        if F.deep_fields(c.body, c.args[0]) & gate:
            base = c.body.name
            # attribute a write inside a closure / spawned task to the function that created it
            seen_ = set()
            while base in F.closure_parents() and base not in seen_:
                seen_.add(base)
                base = F.closure_parents()[base][0].name
            wr.setdefault(base.replace("::{closure#0}", ""), set()).add(c.name.split("::")[-1])
    writers = sorted(wr)
    r2.check(writers == [PAUSE, RESUME], "flag-writers", "the word that holds the pause flag is written only by pause() and resume() (%s)" % {k.split("::")[-1]: sorted(v) for k, v in wr.items()},
             "the word that holds the pause flag (%s) is also written by %s: an unrelated write (e.g. a plain store of another flag sharing the word) clears a PAUSE, new transactions start on the paused pool and SHOW POOLS reports it as not paused"
             % (sorted(gate), {k.split("::")[-1]: sorted(v) for k, v in wr.items() if k not in (PAUSE, RESUME)}))
    notifiers = sorted({c.body.name for c in F.all_calls("re:^tokio::sync::notify::Notify::(notify_waiters|notify_one|notify_last)$") if "paused_waiter" in fields_of(c.body, c.args[0])})
    r2.check(notifiers == [RESUME], "notifiers", "only resume() notifies paused_waiter", "paused_waiter notifiers: %s" % notifiers)
    # Notify::notify_one()/notify_last() with nobody waiting stores a permit: the next notified().await - i.e. the first client arriving in a
    # *later* pause window - completes at once and goes through the gate of a paused pool. Only notify_waiters() (no stored permit) may be used.
    permits = [c for c in F.all_calls("re:^tokio::sync::notify::Notify::(notify_one|notify_last)$") if "paused_waiter" in fields_of(c.body, c.args[0])]
    r2.check(not permits, "no-stored-permit", "paused_waiter is only ever woken with notify_waiters() (no permit is stored for a later pause)",
             "paused_waiter.%s() stores a permit when nobody is waiting: after a RESUME over an idle pool the first client of the next PAUSE passes the gate and runs on the paused pool" % (permits[0].name.split("::")[-1] if permits else ""),
             permits[0].where() if permits else "")
    # each pool gets its own flag and Notify
    fresh = 0
    for b_, blk, st in F.aggregates("pgcat::pool::ConnectionPool"):
        for fld in sorted(gate | {"paused_waiter"}):
            if fld not in st["rv"]["fields"]:
                continue
            op = st["rv"]["ops"][st["rv"]["fields"].index(fld)]
            src = {o.call.name.split("::")[-1] for o in origins(b_, op, taint=True) if o.kind == "call"}
            if "new" in src or "default" in src:
                fresh += 1
    # ... and a pool that is *derived* from an existing one (any ConnectionPool built in a method that has one as receiver, e.g. to refresh settings
    # at a reload) must share that one's gate: held clients sleep on the old Notify, RESUME reaches only the pools in POOLS (round 6)
    for b_, blk, st in F.aggregates("pgcat::pool::ConnectionPool"):
        has_self = b_.argc >= 1 and re.fullmatch(r"(&(mut )?)?pgcat::pool::ConnectionPool", b_.locals[1]["ty"].replace("'_ ", "").strip()) is not None
        if not has_self:
            continue
        for fld in sorted(gate | {"paused_waiter"}):
            if fld not in st["rv"]["fields"]:
                continue
            op = st["rv"]["ops"][st["rv"]["fields"].index(fld)]
            os_ = origins(b_, op, taint=True)
            shared = any(o.kind in ("place", "param") and o.what == 1 and ("." + fld) in o.proj for o in os_) and not any(o.kind == "call" and o.call.name.split("::")[-1] in ("new", "default") and "Arc" in o.call.name for o in os_)
            r2.check(shared, "derived-pool-shares-gate:%s@%s" % (fld, b_.name.split("::")[-1]), "the pool built from `self` shares self.%s" % fld,
                     "%s builds a pool from an existing one with a fresh `%s`: clients held on the existing pool wait on a gate that RESUME (which walks the pools in POOLS) never opens" % (b_.name.split("::")[-1], fld), st["span"])
    # a pool that from_config builds anew in place of a live one (its definition changed) takes the live pool's gate over: clients held at the old gate
    # must be reached by RESUME, and a pause must not vanish in a reload (D62)
    fc16 = F.body("pgcat::pool::ConnectionPool::from_config::{closure#0}")
    if fc16 is not None:
        for b_, blk, st in F.aggregates("pgcat::pool::ConnectionPool"):
            if b_ is not fc16:
                continue
            for fld in sorted(gate | {"paused_waiter"}):
                if fld not in st["rv"]["fields"]:
                    continue
                op = st["rv"]["ops"][st["rv"]["fields"].index(fld)]
                thr_ = []
                os_ = origins(fc16, op, taint=True, through=thr_)
                from_live = any(o.kind in ("place", "param") and ("." + fld) in o.proj for o in os_) and any(o.kind == "call" and o.call.name == "pgcat::pool::get_pool" for o in os_)
                r2.check(from_live, "rebuilt-pool-keeps-gate:" + fld, "the pool built in place of a live one shares the live pool's %s (a fresh one only when there was none)" % fld,
                         "from_config gives a rebuilt pool a fresh `%s`: after PAUSE, a RELOAD that changes the pool's definition, RESUME - the clients held before the reload wait on the old gate for ever, and the pause itself is lost for new transactions" % fld, st["span"])
    # ... and the gate is one pool's: allocated inside the per-user loop of from_config (hoisted, PAUSE db,alice holds bob's clients and RESUME db,alice lets them into bob's paused pool)
    from common import pool_cell_findings
    for f_, ok_, al_ in pool_cell_findings(F, gate | {"paused_waiter"}):
        r2.check(ok_, "gate-per-user-pool:" + f_, "a fresh `%s` (%s) is allocated inside the per-user loop that builds the pool" % (f_, ", ".join(al_)),
                 "`%s` is allocated outside the per-user loop of from_config: the pools of all users of a [pools.X] section share one gate" % f_)
    r2.check(fresh >= 2, "per-pool-gate", "every ConnectionPool is built with its own flag and Notify", "ConnectionPool construction no longer creates its own pause flag / Notify")
    # a reload is not a RESUME: from_config opens the gate only of pools that left the map (their clients must get an error, D71). A pool that is still in the
    # map - unchanged, or rebuilt under the same key - shares its gate with the pool that replaces it: resuming the old object resumes the new one, a PAUSE in
    # force is silently undone (round 10: `resume every previous pool that is no longer in use`)
    fc2 = F.body("pgcat::pool::ConnectionPool::from_config::{closure#0}")
    if fc2 is None:
        r2.missing("ConnectionPool::from_config")
    else:
        ckT2, ckF2, _ = call_bool_edges(fc2, "re:^std::collections::hash::map::HashMap<.*>::contains_key$|^std::collections::hash::map::HashMap::contains_key$", switches_cache=switches(fc2))
        for k_, c in enumerate(fc2.calls(RESUME)):
            gated = bool(ckF2) and fc2.uncrossed_path([0], [c.block], edges=set(ckF2)) is None
            r2.check(gated, "reload-resumes-only-removed-pools#%d" % k_, "from_config resumes a previous pool only where the new map was found not to contain its key",
                     "from_config resumes a pool of the previous map without having found its key missing from the new map: a pool rebuilt (or kept) under the same key shares the pause flag and the Notify of the "
                     "pool it replaces - the PAUSE in force on it is undone by the reload, held clients check out, new ones are not held, no RESUME was issued", c.where())
    # ---------------- R3
    r3 = ctx.rule("C16-R3", "every checkout in Client::handle is preceded, in the same idle-loop iteration, by wait_paused(), and nothing is sent to a server before it", floor=2)
    h = ctx.body(H, r3)
    if h:
        gets = h.calls("pgcat::pool::ConnectionPool::get")
        wps = h.calls("pgcat::pool::ConnectionPool::wait_paused")
        rm = [c.block for c in h.calls("pgcat::messages::read_message")]
        heads = [hd for hd in loop_headers(h) if any(b_ in natural_loop(h, hd) for b_ in rm)]
        if not gets or not wps or not heads:
            r3.missing("get / wait_paused / idle loop in handle")
        else:
            outer = min(heads)
            # the await of wait_paused must complete: use the block after the poll's Ready arm; approximating with the call block is sound for dominance
            wit = h.uncrossed_path([outer], [gets[0].block], blocks=[c.block for c in wps])
            r3.check(wit is None, "gate-before-checkout", "every path of an idle-loop iteration to the checkout passes wait_paused()", "a checkout can bypass the pause gate", "", wit and h.describe_path(wit))
            # the future is actually awaited (polled) before the checkout
            polled = [pc for pc in h.calls() if h.is_poll_of_coroutine(pc) and any(o.kind == "call" and o.call.block == wps[0].block for o in origins(h, pc.args[0]))]
            r3.check(bool(polled) and h.dominates(polled[0].block, gets[0].block), "gate-awaited", "the wait_paused future is awaited before the checkout", "wait_paused() is called but not awaited before the checkout")
            io = [c.block for c in h.calls(*SERVER_IO)]
            claim = h.calls("pgcat::server::Server::claim")
            pre = [b_ for b_ in io if not (claim and h.dominates(claim[0].block, b_))]
            r3.check(not pre, "no-io-before-gate", "no server I/O happens in the idle loop before the gate/checkout", "server I/O before the checkout: bb%s" % pre)
            # `no new client transaction is started`: a transaction starts behind the gate, never from inside the transaction loop. Once a round trip ends with
            # in_transaction()==false in transaction mode (and no COPY under way), the next client message is read only after the server went back and the
            # gate was passed again - keeping the server for a next query that happens to be buffered already starts a transaction on a paused pool
            if claim:
                hsw_ = switches(h)
                _t, inF, _ = call_bool_edges(h, "pgcat::server::Server::in_transaction", switches_cache=hsw_)
                inF = [e for e in inF if h.dominates(claim[0].block, e[0])]
                tmT, tmF = field_bool_edges(h, "transaction_mode", hsw_)
                cpT, cpF, _ = call_bool_edges(h, "pgcat::server::Server::in_copy_mode", switches_cache=hsw_)
                inner_rm = [b_ for b_ in rm if h.dominates(claim[0].block, b_)]
                wit = h.uncrossed_path([d for _, d in inF], inner_rm, edges=set(tmF) | set(cpT), blocks=[c.block for c in wps]) if inF and inner_rm else [0]
                r3.check(bool(inF) and bool(inner_rm) and wit is None, "next-transaction-passes-the-gate", "after a round trip that leaves no transaction open (%d sites), in transaction mode the next client message is read only behind the gate" % len(inF),
                         "after a round trip that ended the transaction (in_transaction()==false, transaction mode, no COPY) the transaction loop can read and run the client's next message without releasing the server and passing "
                         "wait_paused(): a pipelined second query starts a transaction on a paused pool", "", wit and wit != [0] and h.describe_path(wit))
            # ... and a request that pgcat answers itself (a plugin's verdict, a batch served from the statement cache) ends with the same test (D83)
            crr = completed_request_release_findings(F)
            if crr is None:
                r3.missing("transaction loop / message-code switch in handle")
            for key, ok, good, bad in crr or []:
                r3.check(ok, key, good, bad)
            recv_f = fields_of(h, wps[0].args[0])
            vis = set()
            origins(h, wps[0].args[0], visited=vis)
            r3.check(any("pool" in h.varnames.get(l, []) for l in vis), "gate-on-own-pool", "the gate is the client's own pool", "wait_paused is not called on the client's pool")
    # ---------------- R4 admin wiring
    r4 = ctx.rule("C16-R4", "admin PAUSE/RESUME reach pause()/resume() of every pool (no argument) or of the named pool, and answer with CommandComplete + ReadyForQuery", floor=4)
    for nm, callee, tag in (("pause", PAUSE, "PAUSE"), ("resume", RESUME, "RESUME")):
        b = ctx.body("pgcat::admin::%s::{closure#0}" % nm, r4)
        if not b:
            continue
        cs = b.calls(callee)
        r4.check(len(cs) >= 2, "%s:sites" % nm, "admin %s calls %s() for all pools and for a named pool" % (tag, nm), "admin %s has %d call(s) of %s()" % (tag, len(cs), nm))
        all_pools = [c for c in cs if any(o.kind == "call" and o.call.name == "pgcat::pool::get_all_pools" for o in origins(b, c.args[0], taint=True))]
        named = [c for c in cs if any(o.kind == "call" and o.call.name == "pgcat::pool::get_pool" for o in origins(b, c.args[0], taint=True))]
        inloop = [c for c in all_pools if any(c.block in natural_loop(b, hd) for hd in loop_headers(b))]
        r4.check(bool(inloop), "%s:all-pools" % nm, "the no-argument form iterates over get_all_pools()", "the no-argument form of %s does not visit every pool" % tag)
        r4.check(bool(named), "%s:named-pool" % nm, "the (db,user) form acts on get_pool(db,user)", "the named form of %s does not act on the looked-up pool" % tag)
        # `every pool` is for the command without an argument only: the branch that leaves the argument list empty is taken exactly when the command
        # is one word long. (`PAUSE db, user` arrives as three words; treated as `no argument` it pauses - and RESUME db, user resumes - every pool)
        arg_ok = None
        for sw in switches(b):
            if sw.ty != "bool":
                continue
            for o in origins(b, b.blocks[sw.block]["term"]["op"]):
                if o.kind != "bin" or o.what not in ("Eq", "Ne", "Gt", "Ge", "Lt", "Le"):
                    continue
                ea, eb = o.extra["a"], o.extra["b"]
                ka, kb = const_int(ea), const_int(eb)
                other = eb if ka is not None else ea
                k = ka if ka is not None else kb
                if k is None or not any(oo.kind == "call" and oo.call.name.endswith("Vec::len") for oo in origins(b, other)):
                    continue
                te, fe = sw.bool_edges()
                if o.neg:
                    te, fe = fe, te
                splits = [c.block for c in b.calls("re:str::<impl str>::split$")]
                t_has = any(x in b.reach([te[1]], avoid_blocks=[fe[1]]) for x in splits)
                f_has = any(x in b.reach([fe[1]], avoid_blocks=[te[1]]) for x in splits)
                if t_has == f_has:
                    continue
                import operator
                opf = {"Eq": operator.eq, "Ne": operator.ne, "Gt": operator.gt, "Ge": operator.ge, "Lt": operator.lt, "Le": operator.le}[o.what]
                def cond(n, swapped=(ka is not None)):
                    return opf(k, n) if swapped else opf(n, k)
                # number of words for which the branch without the split (empty argument list => all pools) is taken
                empty_for = [n for n in range(1, 7) if cond(n) != t_has]
                arg_ok = (empty_for == [1], empty_for)
        if arg_ok is None:
            r4.missing("%s: test on the number of words of the command that decides between `all pools` and the argument" % nm)
        else:
            r4.check(arg_ok[0], "%s:all-pools-only-without-argument" % nm, "admin %s acts on every pool only when the command is one word long" % tag,
                     "admin %s treats a command of %s words as `no argument` and acts on every pool: `%s db, user` (three words, the spelling of the usage text) %s" % (tag, [n for n in arg_ok[1] if n != 1], tag,
                     "pauses all pools" if nm == "pause" else "resumes all pools - clients of the other paused pools start transactions on servers that are to be quiet"))
        # the command takes effect whether or not the admin is still there to read the answer: pause()/resume() are not behind a fallible write to the admin
        # (a RESUME sent by a script that hangs up at once - `timeout psql -c RESUME` - must still release the held clients)
        wr_ = [c for c in b.calls("pgcat::messages::write_all_half", "pgcat::messages::write_all", "pgcat::messages::error_response", "pgcat::messages::write_all_flush")]
        behind = [c for c in cs if any(w.target is not None and c.block in b.reach([w.target]) for w in wr_)]
        r4.check(not behind, "%s:effect-before-the-reply" % nm, "%s() is called before anything is written to the admin connection" % nm,
                 "%s() is called after a write to the admin connection: when that write fails (the admin has hung up) the `?` returns first - RESUME was received and every pool stays paused, every held client blocked" % nm,
                 behind[0].where() if behind else "")
        # replies end with Z
        putz = [c for c in b.calls("re:put_u8$") if const_int(c.args[1]) == 90]
        wr = b.calls("pgcat::messages::write_all_half")
        r4.check(len(putz) >= 2 and len(wr) >= 2, "%s:replies" % nm, "both forms reply and end with ReadyForQuery", "%s replies: %d 'Z', %d writes" % (tag, len(putz), len(wr)))
    ha = F.body("pgcat::admin::handle_admin::{closure#0}")
    if ha:
        r4.check(bool(ha.calls("pgcat::admin::pause")) and bool(ha.calls("pgcat::admin::resume")), "dispatch", "handle_admin dispatches PAUSE and RESUME", "handle_admin no longer dispatches PAUSE/RESUME")

"""C15 — an accepted configuration is a servable configuration.
Obligation <-> validator pairing: every panic-capable / positional use of a
configuration-derived quantity must be matched by a validator that returns
BadConfig, re-verified structurally on every run."""
from mirlib import *

CFG_VALIDATE = "pgcat::config::Config::validate"
POOL_VALIDATE = "pgcat::config::Pool::validate"
USER_VALIDATE = "pgcat::config::User::validate"
SHARD_VALIDATE = "pgcat::config::Shard::validate"
PLUGINS_VALIDATE = "pgcat::config::Plugins::validate"
FROM_CONFIG = "pgcat::pool::ConnectionPool::from_config::{closure#0}"

CONTRACT = {
    "re:^bb8::api::Builder::max_size$": "bb8:max_size>0",
    "re:^bb8::api::Builder::min_idle$": "bb8:min_idle<=max_size",
    "re:^bb8::api::Builder::max_lifetime$": "bb8:max_lifetime!=0",
    "re:^bb8::api::Builder::idle_timeout$": "bb8:idle_timeout!=0",
    "re:^bb8::api::Builder::connection_timeout$": "bb8:connection_timeout>0",
    "re:^bb8::api::Builder::reaper_rate$": "tokio:interval(period>0)",
    "re:^bb8::api::Builder::(build|build_unchecked)$": "bb8:build(min_idle<=max_size)",
    "re:^tokio::time::interval::interval": "tokio:interval(period>0)",
    "re:^tokio::runtime::builder::Builder::worker_threads$": "tokio:worker_threads>0",
    # mini-moka 0.10: build() asserts both expirations <= 1000 years (common/builder_utils.rs ensure_expirations_or_panic)
    "re:^mini_moka::sync::builder::CacheBuilder::time_to_(idle|live)$": "moka:expiration<=1000y",
}

SCAN = r"^(<)?pgcat::(pool|mirrors|query_router|admin|auth_passthrough|sharding|plugins)::"

# configuration quantities (by field name as it appears in the typed places) -> quantity id
QUANT = {
    "shard": "shard_id", "address_index": "address_index", "shards": "shard_count",
    "pool_size": "pool_size", "min_pool_size": "min_pool_size",
    "connect_timeout": "timeout", "idle_timeout": "timeout", "server_lifetime": "timeout",
    "automatic_sharding_key": "automatic_sharding_key", "default_role": "default_role",
    "shard_id_regex": "regex", "sharding_key_regex": "regex",
    "auth_query": "auth_query", "auth_query_user": "auth_query", "auth_query_password": "auth_query",
    "default_shard": "default_shard", "regex_search_limit": "regex_search_limit",
    "servers": "servers", "mirroring_target_index": "mirror_index", "mirrors": "mirrors",
    "ban_time": "ban_time", "error_count": "error_count", "worker_threads": "worker_threads",
    "autoreload": "autoreload", "shutdown_timeout": "shutdown_timeout", "schema": "intercept-schema",
    "prepared_statements_cache_size": "stmt_cache_size",
    "db_activity_ttl": "cache_ttl", "table_mutation_cache_ms_ttl": "cache_ttl",
}
# fields that only hold other configuration (collections / sub-structs); their leaves are what matters
CONTAINERS = {"pools", "general", "users", "user", "settings", "address", "plugins", "queries", "intercept", "config", "shards_map", "path", "database", "host", "username",
              "pool_name", "password", "query", "port", "role", "id", "replica_number", "stats", "db", "name"}

# quantities whose panic-capable uses are harmless by construction, with the reason
BENIGN = {
    "regex_search_limit": "only an upper bound inside min(len-5, limit); slice bounded by the frame (C11 inventory for malformed frames)",
    "ban_time": "i64 subtraction of timestamps; ban_time is only compared",
    "error_count": "partial_cmp on u64 is total",
    "mirrors": "iteration only",
    "mirror_index": "compared for equality with an enumerate index; out-of-range mirrors are ignored (informational)",
    "servers": "iterated with enumerate; emptiness validated by Shard::validate",
    "default_shard": "compared with Address.shard; range validated against shards.len()",
    "stmt_cache_size": "only handed on (0 = off is tested where the LRU is built); the unwrap it reaches in MirroredClient::create_pool is of bb8's build() without min_idle, which opens no connection and cannot fail",
}

# quantity -> validators that must exist (all of them)
NEEDS = {
    "shard_id": ["shard-id-is-number", "shard-ids-contiguous", "structural:positions-follow-numeric-shard-ids"],
    "shard_count": ["shards-non-empty"],
    "pool_size": ["pool_size>0"],
    "min_pool_size": ["min_pool_size<=pool_size"],
    "timeout": ["user-timeouts>0", "pool-timeouts>0", "general-timeouts>0"],
    "automatic_sharding_key": ["sharding-key-qualified", "call-site:automatic_sharding_key-is-Some"],
    "default_role": ["default_role-literal"],
    "regex": ["regex-compiles"],
    "auth_query": ["call-site:is_auth_query_configured"],
    "address_index": ["structural:address_index-is-enumerate-index"],
    "worker_threads": ["worker_threads>0"],
    "regex-group": ["regex-has-capture-group"],
    "username": ["usernames-unique"],
    "autoreload": ["autoreload>0"],
    "shutdown_timeout": ["shutdown_timeout>0"],
    "intercept-schema": ["intercept-schema-rows-complete"],
    "cache_ttl": ["cache-ttl-bounded:db_activity_ttl", "cache-ttl-bounded:table_mutation_cache_ms_ttl"],
}


def badconfig_returns(F, fn):
    """for each `return Err(Error::BadConfig)` of fn: (block, fields, callees, consts) its condition depends on (control dependence, taint)"""
    b = F.body(fn)
    out = []
    if b is None:
        return None
    live = b.reach([0])
    for blk, i, st in b.assigns():
        rv = st["rv"]
        if blk not in live:
            continue  # dead code (e.g. behind `if false && ..`) validates nothing
        if rv["k"] == "agg" and rv.get("agg") == "adt" and rv.get("adt", "").endswith("errors::Error") and rv.get("variant") == "BadConfig":
            fields, callees, consts = set(), set(), set()
            # direct control dependences, extended along chains of the same comparison on the same scrutinee
            # (`match s { "a" => .., "b" => .., other => return Err }` compiles to a chain of str::eq tests)
            def family(sb):
                sw_ = b.blocks[sb]["term"]
                fam = set()
                for o in origins(b, sw_["op"]):
                    if o.kind == "call":
                        roots = set()
                        for a in o.call.args:
                            v_ = set()
                            origins(b, a, visited=v_)
                            roots |= {l for l in v_ if b.varnames.get(l) or 1 <= l <= b.argc}
                        fam.add((o.call.name, frozenset(roots)))
                return fam
            deps = list(b.direct_control_deps(blk))
            seen_sb = {sb for sb, _ in deps}
            work = list(deps)
            while work:
                sb, t = work.pop()
                f1 = family(sb)
                if not f1:
                    continue
                for sb2, t2 in b.direct_control_deps(sb):
                    if sb2 in seen_sb:
                        continue
                    f2 = family(sb2)
                    if any(n1 == n2 and (r1 & r2) for (n1, r1) in f1 for (n2, r2) in f2):
                        seen_sb.add(sb2)
                        deps.append((sb2, t2))
                        work.append((sb2, t2))
            for sb, t in deps:
                sw = b.blocks[sb]["term"]
                for o in origins(b, sw["op"], taint=True):
                    if o.kind in ("place", "param") and o.proj:
                        fields.update(p[1:] for p in o.proj if p.startswith(".") and not p[1:].isdigit())
                    elif o.kind == "call":
                        callees.add(o.call.name)
                        for a in o.call.args:
                            c = op_const(a)
                            if c is not None:
                                consts.add(c.get("str", c.get("sint", c.get("int"))))
                    elif o.kind == "const":
                        consts.add(o.what)
                    elif o.kind == "bin":
                        for side in ("a", "b"):
                            c = op_const(o.extra[side])
                            if c is not None:
                                consts.add(c.get("sint", c.get("int")))
            out.append({"block": blk, "fields": fields, "callees": callees, "consts": consts, "span": st["span"]})
    return out


def fields_of_op(b, op):
    return {p[1:] for o in origins(b, op, taint=True) if o.kind in ("place", "param") for p in o.proj if isinstance(p, str) and p.startswith(".") and not p[1:].isdigit()}


def has_validator(rets, fields=(), callee_pats=(), consts=()):
    for r in rets or []:
        if not set(fields) <= r["fields"]:
            continue
        if not all(any(match_name(c, p) for c in r["callees"]) for p in callee_pats):
            continue
        if not set(consts) <= r["consts"]:
            continue
        return r
    return None


def closure_argument_fields(F, name, depth=0):
    """configuration fields the *arguments* of closure `name` derive from: the other operands of the call the closure is handed to
    (`collection.iter().map(closure)`), followed through enclosing closures"""
    par = F.closure_parents().get(name)
    if par is None or depth > 3:
        return set()
    pb = par[0]
    out = set()
    for c in pb.calls():
        hit = False
        for a in c.args:
            for o in origins(pb, a):
                if o.kind == "agg" and o.extra.get("agg") in ("closure", "coroutine") and strip_generics(o.extra.get("def", "")) == name.replace("bin:", ""):
                    hit = True
        if hit:
            for a in c.args:
                out |= F.deep_fields(pb, a)
                if any(o.kind == "param" and isinstance(o.what, int) and o.what >= 2 for o in origins(pb, a, taint=True)):
                    out |= closure_argument_fields(F, pb.name, depth + 1)
    return out


def run(ctx):
    F = ctx.facts
    ctx.explanation = ("every panic-capable or positional use (unwrap/expect/panic/index/Rem/overflow, bb8 and tokio builder contracts) of a value tainted by configuration fields in pool construction, "
                       "routing, banning, mirrors and admin code is enumerated from the MIR and paired with a validator: a `return Err(BadConfig)` whose controlling conditions (control dependence + taint) depend on the same quantity")
    ctx.assumptions = ["TOML/serde acceptance itself and TLS file checks are not modelled", "validators' arithmetic is checked only for dependence on the right quantities and constants, not evaluated",
                       "bb8 0.8.6 / tokio builder panics are taken from their documented contracts (frozen table)"]

    # ------------------------------------------------------------ validators
    rv = ctx.rule("C15-V", "validators: each is a `return Err(BadConfig)` control-dependent on the quantity it guards, reachable from Config::validate", floor=10)
    rets = {fn: badconfig_returns(F, fn) for fn in (CFG_VALIDATE, POOL_VALIDATE, USER_VALIDATE, SHARD_VALIDATE, PLUGINS_VALIDATE)}
    for fn, r in rets.items():
        if r is None and fn != PLUGINS_VALIDATE:
            rv.missing("body " + fn)
    # validators are wired: Config::validate -> Pool::validate -> Shard/User::validate, with `?`
    cg = F.callgraph()
    reach = F.reachable_fns([CFG_VALIDATE])
    for fn in (POOL_VALIDATE, USER_VALIDATE, SHARD_VALIDATE):
        rv.check(fn in reach, "wired:" + fn.split("::")[-2], "%s is called from Config::validate" % fn, "%s is no longer reached from Config::validate" % fn)
    V = {}

    def vcheck(vid, fn, desc, **kw):
        r = has_validator(rets.get(fn), **kw)
        V[vid] = r is not None
        rv.check(r is not None, "validator:" + vid, "%s (%s, %s)" % (desc, fn.split("::")[-2] + "::validate", r and r["span"]),
                 "MISSING validator `%s`: %s — no `return Err(BadConfig)` in %s depends on %s" % (vid, desc, fn, kw))

    vcheck("default_role-literal", POOL_VALIDATE, "default_role must be any/primary/replica", fields=["default_role"], consts=["any", "primary", "replica"])
    vcheck("shard-id-is-number", POOL_VALIDATE, "shard keys must parse as usize", fields=["shards"], callee_pats=["re:core::str::<impl str>::parse$"])
    vcheck("shard-ids-contiguous", POOL_VALIDATE, "shard keys must be exactly 0..n-1 (positional addressing)", fields=["shards"], callee_pats=["re:BTreeSet.*::(len|iter|last|first)$|Iterator::(max|eq)|next_back$", "re:BTreeMap.*::len$"])
    vcheck("shards-non-empty", POOL_VALIDATE, "at least one shard", fields=["shards"], callee_pats=["re:BTreeMap.*::is_empty$"])
    vcheck("regex-compiles", POOL_VALIDATE, "routing regexes must compile", callee_pats=["re:^regex::regex::string::Regex::new$"])
    vcheck("default-shard-in-range", POOL_VALIDATE, "default_shard < number of shards", fields=["default_shard", "shards"])
    vcheck("sharding-key-qualified", POOL_VALIDATE, "automatic_sharding_key must be table.column", fields=["automatic_sharding_key"], consts=[2])
    vcheck("pool-timeouts>0", POOL_VALIDATE, "pool-level connect/idle timeouts and server_lifetime must not be 0", fields=["connect_timeout", "idle_timeout", "server_lifetime"])
    # ... of the pool's own values, whatever its users say: the mirror pools (mirrors::MirroredClient::create_pool) are built from the pool section alone, a
    # pool-level 0 that every user overrides still reaches bb8 there. The refusal must not hinge on a user's setting (`user.x.or(self.x)`)
    pvb_ = F.body(POOL_VALIDATE)
    r_pt = has_validator(rets.get(POOL_VALIDATE), fields=["connect_timeout", "idle_timeout", "server_lifetime"]) if pvb_ is not None else None
    if r_pt is not None:
        mixed = set()
        level = [sb for sb, _ in pvb_.direct_control_deps(r_pt["block"])]
        seen_sb = set(level)
        for _ in range(3):
            nxt = []
            for sb in level:
                for o in origins(pvb_, pvb_.blocks[sb]["term"]["op"], taint=True):
                    if o.kind in ("place", "param") and isinstance(o.what, int) and o.what < len(pvb_.locals) and "config::User" in pvb_.locals[o.what]["ty"]:
                        mixed |= {p_[1:] for p_ in o.proj if isinstance(p_, str) and p_.startswith(".") and not p_[1:].isdigit()} or {"(user)"}
                for sb2, _t in pvb_.direct_control_deps(sb):
                    if sb2 not in seen_sb and not any(o.kind == "call" and re.search(r"Iterator>::next$|Try>::branch$", o.call.name) for o in origins(pvb_, pvb_.blocks[sb2]["term"]["op"])):
                        seen_sb.add(sb2)
                        nxt.append(sb2)
            level = nxt
        mixed &= {"connect_timeout", "idle_timeout", "server_lifetime", "(user)"}
        rv.check(not mixed, "validator:pool-timeouts>0:of-the-pool-alone", "the refusal of a pool-level timeout of 0 depends on the pool's own value only",
                 "the refusal of a pool-level timeout of 0 also depends on the users' settings (User.%s): a pool-level `connect_timeout = 0` / `idle_timeout = 0` that every user overrides is accepted - and the mirror pools, "
                 "built from the pool section alone, hand it to bb8, whose builder panics in the detached mirror task: the shard's mirror never receives anything and nothing is reported" % sorted(mixed))
    vcheck("servers-non-empty", SHARD_VALIDATE, "a shard needs servers", fields=["servers"], callee_pats=["re:Vec.*::is_empty$"])
    vcheck("one-primary", SHARD_VALIDATE, "at most one primary per shard", consts=[1])
    vcheck("no-duplicate-servers", SHARD_VALIDATE, "no duplicate servers in a shard", fields=["servers"], callee_pats=["re:HashSet.*::len$", "re:Vec.*::len$"])
    vcheck("pool_size>0", USER_VALIDATE, "pool_size must be > 0 (bb8 asserts)", fields=["pool_size"], consts=[0])
    vcheck("min_pool_size<=pool_size", USER_VALIDATE, "min_pool_size <= pool_size (bb8 build asserts)", fields=["min_pool_size", "pool_size"])
    vcheck("user-timeouts>0", USER_VALIDATE, "user-level timeouts must not be 0", fields=["connect_timeout", "idle_timeout", "server_lifetime"])
    vcheck("general-timeouts>0", CFG_VALIDATE, "general timeouts must not be 0", fields=["general", "connect_timeout", "idle_timeout", "server_lifetime"])
    vcheck("worker_threads>0", CFG_VALIDATE, "general.worker_threads must not be 0 (tokio's runtime builder asserts)", fields=["general", "worker_threads"], consts=[0])
    vcheck("regex-has-capture-group", POOL_VALIDATE, "routing regexes need the capture group the router reads", callee_pats=["re:^regex::regex::string::Regex::captures_len$"])
    vcheck("usernames-unique", POOL_VALIDATE, "user names are unique within a pool (they key the pools)", fields=["users", "username"], callee_pats=["re:HashSet.*::(insert|len)$"])
    vcheck("autoreload>0", CFG_VALIDATE, "general.autoreload must not be 0 (it is the period of a tokio interval, which asserts period > 0)", fields=["general", "autoreload"], consts=[0])
    vcheck("shutdown_timeout>0", CFG_VALIDATE, "general.shutdown_timeout must not be 0 (period of the interval in the SIGINT arm's timer task)", fields=["general", "shutdown_timeout"], consts=[0])
    vcheck("intercept-schema-rows-complete", PLUGINS_VALIDATE, "every schema entry of an intercept rule has a name and a type (Intercept::run indexes row[0] and row[1])", fields=["schema"])
    # the two cache expirations have an upper bound as well: mini-moka's builder asserts <= 1000 years, and the cache is built in a process-wide OnceLock at the
    # first routed statement - a panic there leaves the cell empty, so every later statement of every client panics again (D80)
    MOKA_MAX_S = 1000 * 365 * 24 * 3600
    for fld, unit in (("db_activity_ttl", 1), ("table_mutation_cache_ms_ttl", 1000)):
        found, why = None, "no `return Err(BadConfig)` of Pool::validate hangs on an ordering comparison of it"
        for r in rets.get(POOL_VALIDATE) or []:
            if fld not in r["fields"] or pvb_ is None:
                continue
            for sb, _t in pvb_.direct_control_deps(r["block"]):
                for o in origins(pvb_, pvb_.blocks[sb]["term"]["op"]):
                    if o.kind == "bin" and o.what in ("Gt", "Ge", "Lt", "Le"):
                        sides = [o.extra["a"], o.extra["b"]]
                        if any(fld in fields_of_op(pvb_, x) for x in sides):
                            lim = [const_int(x) for x in sides if const_int(x) is not None]
                            if lim and lim[0] > MOKA_MAX_S * unit:
                                why = "its bound %d is above what the cache builder accepts (%d)" % (lim[0], MOKA_MAX_S * unit)
                            else:
                                found = r
        V["cache-ttl-bounded:" + fld] = found is not None
        rv.check(found is not None, "validator:cache-ttl-bounded:" + fld, "%s has an upper bound (the cache builder asserts an expiration of at most 1000 years) (%s)" % (fld, found and found["span"]),
                 "MISSING validator: %s has no upper bound (%s) - a value beyond 1000 years passes validate(), the first routed statement panics inside the OnceLock initialiser of the activity cache and, "
                 "the cell staying empty, so does every later statement of every client" % (fld, why))
    # the database names Client::startup takes for the admin console (before it looks at the pools) cannot name a pool: such a pool is built and never reached,
    # its users are held against the admin credentials (D81). The names are read from startup itself: the literals the value stored in Client.admin is computed from
    st_ = F.body("pgcat::client::Client::startup::{closure#0}")
    admin_names = set()
    if st_ is not None:
        for b__, blk__, stt in F.aggregates("pgcat::client::Client"):
            if b__ is st_ and "admin" in stt["rv"]["fields"]:
                for o in origins(st_, stt["rv"]["ops"][stt["rv"]["fields"].index("admin")], taint=True):
                    if o.kind == "agg" and o.extra.get("agg") == "array":
                        for x in o.extra["ops"]:
                            admin_names |= {o2.what for o2 in origins(st_, x) if o2.kind == "const" and isinstance(o2.what, str)}
                    elif o.kind == "call" and re.search(r"PartialEq.*::(eq|ne)$", o.call.name):
                        admin_names |= {x for x in arg_strs(st_, o.call) if isinstance(x, str)}
    if not admin_names:
        rv.missing("the database names Client::startup takes for the admin console")
    else:
        r_ = None
        for r in rets.get(CFG_VALIDATE) or []:
            if "pools" in r["fields"] and admin_names <= {c_ for c_ in r["consts"] if isinstance(c_, str)}:
                r_ = r
        V["admin-names-reserved"] = r_ is not None
        rv.check(r_ is not None, "validator:admin-names-reserved", "no pool can be named like the admin database (%s, the names Client::startup tests) (%s)" % (sorted(admin_names), r_ and r_["span"]),
                 "MISSING validator: no `return Err(BadConfig)` of Config::validate depends on the pool names and %s - Client::startup takes these database names for the admin console before it looks at the pools: "
                 "a pool of that name is accepted, built, and can never be addressed (its users are held against the admin credentials)" % sorted(admin_names))
    if rets.get(PLUGINS_VALIDATE) is not None:
        pv_callers = set(F.callers_of(PLUGINS_VALIDATE))
        rv.check({CFG_VALIDATE, POOL_VALIDATE} <= pv_callers, "wired:Plugins", "Plugins::validate is called for the general section (Config::validate) and for a pool's own (Pool::validate)", "Plugins::validate is called from %s only" % sorted(pv_callers))
    # the general [plugins] section is in force in every pool that has none of its own, whatever that pool's parser setting (D46): it is checked whenever it is there
    cvb_ = F.body(CFG_VALIDATE)
    if cvb_ is not None and rets.get(PLUGINS_VALIDATE) is not None:
        for k_, pc_ in enumerate(cvb_.calls(PLUGINS_VALIDATE)):
            cond = set()
            # (the tests of the validators in front of it, whose other way out is `return Err(BadConfig)`, are not conditions of the check)
            guards = {sb for r in rets.get(CFG_VALIDATE) or [] for sb, _t in cvb_.direct_control_deps(r["block"])}
            level, seen_sb = [pc_.block], set()
            for _ in range(4):
                nxt = []
                for blk_ in level:
                    for sb, _t in cvb_.direct_control_deps(blk_):
                        if sb in seen_sb or sb in guards:
                            continue
                        if any(o.kind == "call" and re.search(r"Try>::branch$", o.call.name) for o in origins(cvb_, cvb_.blocks[sb]["term"]["op"])):
                            continue
                        seen_sb.add(sb)
                        nxt.append(sb)
                        for o in origins(cvb_, cvb_.blocks[sb]["term"]["op"], taint=True):
                            if o.kind in ("place", "param") and o.proj:
                                cond.update(p_[1:] for p_ in o.proj if isinstance(p_, str) and p_.startswith(".") and not p_[1:].isdigit())
                level = nxt
            extra = sorted(cond - {"plugins", "general"})
            rv.check(not extra, "validator:general-plugins-checked-whenever-present#%d" % k_, "Config::validate checks the general [plugins] section under no condition but its presence",
                     "Config::validate checks the general [plugins] section only under a condition on %s: a malformed section (an intercept schema entry without a type) is accepted when the condition is false - "
                     "and still in force in every pool without plugins of its own, where the first intercepted query indexes past the entry and kills the client's task" % extra, pc_.where())
    vcheck("credentials-present", CFG_VALIDATE, "every user has a password unless auth_query is configured", fields=["password"])
    # ... and `auth_query is configured` is asked of the user's own pool (round 5: the any-pool helper Config::is_auth_query_configured
    # let a password-less user of a pool without auth_query through; nobody can ever log in as that user)
    own = None
    cv = F.body(CFG_VALIDATE)
    for r in rets.get(CFG_VALIDATE) or []:
        if "password" not in r["fields"]:
            continue
        # the short-circuit chain in front of the password test: `(a || b || c) && password.is_none()`
        flds, cal = set(r["fields"]), set(r["callees"])
        level = [sb for sb, _ in cv.direct_control_deps(r["block"])]
        seen_sb = set(level)
        for _ in range(3):
            nxt = []
            for sb in level:
                for sb2, _t in cv.direct_control_deps(sb):
                    if sb2 in seen_sb:
                        continue
                    os_ = origins(cv, cv.blocks[sb2]["term"]["op"], taint=True)
                    if any(o.kind == "call" and re.search(r"Iterator>::next$|Try>::branch$", o.call.name) for o in origins(cv, cv.blocks[sb2]["term"]["op"])):
                        continue  # loop conditions and `?` are not part of the test
                    seen_sb.add(sb2)
                    nxt.append(sb2)
                    for o in os_:
                        if o.kind in ("place", "param") and o.proj:
                            flds.update(p_[1:] for p_ in o.proj if p_.startswith(".") and not p_[1:].isdigit())
                        elif o.kind == "call":
                            cal.add(o.call.name)
            level = nxt
        if {"auth_query", "auth_query_user", "auth_query_password"} <= flds or "pgcat::config::Pool::is_auth_query_configured" in cal:
            own = r
    rv.check(own is not None, "validator:credentials-from-own-pool", "a user without a password is accepted only when the pool he belongs to has auth_query, auth_query_user and auth_query_password",
             "no `return Err(BadConfig)` in Config::validate depends on the user's password together with the auth_query settings of the user's own pool: a user without a password is accepted in a pool that has no auth_query "
             "(e.g. because some other pool has one) and every login attempt of that user fails")

    # ------------------------------------------------------------ structural / call-site dischargers
    rs = ctx.rule("C15-S", "structural dischargers: call-site guards and by-construction facts used by the pairing", floor=3)
    # address_index is the enumerate index of shard.servers, and one bb8 pool is pushed per server in that order
    fc = ctx.body(FROM_CONFIG, rs)
    if fc:
        okai = False
        for b_, blk, st in F.aggregates("pgcat::config::Address"):
            if b_ is not fc:
                continue
            flds = st["rv"]["fields"]
            op = st["rv"]["ops"][flds.index("address_index")]
            calls_ = {o.call.name for o in origins(fc, op) if o.kind == "call"}
            if any("Enumerate" in c and c.endswith("::next") for c in calls_):
                okai = True
        # ... of the slice itself, for every Address built here, and every turn of that loop adds one pool: the index of a server's Address is then its
        # position in databases[shard] (round 6: a filtered enumerate kept the original positions while the pools were pushed densely - lookups off by one)
        per = []
        for b_, blk, st in F.aggregates("pgcat::config::Address"):
            if b_ is not fc:
                continue
            op = st["rv"]["ops"][st["rv"]["fields"].index("address_index")]
            nx = [o.call for o in origins(fc, op) if o.kind == "call" and o.call.name.endswith("::next")]
            direct = bool(nx) and all(re.fullmatch(r"core::iter::adapters::enumerate::Enumerate<core::slice::iter::Iter<'_, pgcat::config::(Mirror)?ServerConfig>>", (c.targs or [""])[0]) for c in nx)
            per.append((blk, direct, [(c.targs or ["?"])[0] for c in nx]))
            if direct and nx and "MirrorServerConfig" not in nx[0].targs[0]:
                # the servers loop: from its `next` every way back to it passes a push of a bb8 pool into the per-shard vector (error exits leave from_config)
                hd = nx[0].block
                pushes = [c.block for c in fc.calls("re:^alloc::vec::Vec.*::push$") if any("bb8::api::Pool<" in t for t in c.targs)]
                wloop = fc.uncrossed_path([nx[0].target], [hd], blocks=pushes) if nx[0].target is not None else [0]
                rs.check(bool(pushes) and wloop is None, "one-pool-per-server", "every turn of the servers loop pushes one bb8 pool (positions in databases[shard] = enumerate index)",
                         "a turn of the servers loop can end without pushing a pool: the pools of later servers sit at lower positions than their address_index", "", wloop and fc.describe_path(wloop))
        bad = [p_ for p_ in per if not p_[1]]
        rs.check(bool(per) and not bad, "address_index=position-in-the-slice", "every Address.address_index is the enumerate() index of the configured slice itself (%d sites)" % len(per),
                 "Address.address_index comes from %s: an iterator that skips or reorders entries while keeping their original index makes databases[shard][address_index] a different server's pool (or out of bounds)" % [p_[2] for p_ in bad])
        V["structural:address_index-is-enumerate-index"] = okai
        rs.check(okai, "address_index=enumerate", "Address.address_index is an enumerate() index (of shard.servers / mirrors)", "Address.address_index no longer derives from enumerate()")
        # Address.shard derives from parse of the shard key
        oks = False
        for b_, blk, st in F.aggregates("pgcat::config::Address"):
            if b_ is fc:
                op = st["rv"]["ops"][st["rv"]["fields"].index("shard")]
                if any(o.kind == "call" and o.call.name.endswith("str>::parse") for o in origins(fc, op)):
                    oks = True
        rs.check(oks, "Address.shard=parse(key)", "Address.shard is the parsed shard key (hence the contiguity obligation)", "Address.shard no longer derives from the shard key (re-triage the shard_id obligations)")
    # positions follow numeric shard ids: the collection of shard keys that the shard loop walks is sorted by the parsed number
    if fc:
        ok_sort = False
        sorts = fc.calls("re:slice::<impl \\[T\\]>::(sort_by_key|sort_unstable_by_key|sort_by_cached_key)$")
        # the loop that builds one entry per shard: it pushes into the vectors that become databases/addresses/banlist
        it_calls = [c for c in fc.calls("re:IntoIterator>::into_iter$") if any("alloc::string::String" in t and "Vec" in t for t in c.targs)]
        for sc in sorts:
            v1 = set()
            origins(fc, sc.args[0], visited=v1)
            key_ok = False
            for o in origins(fc, sc.args[1]):
                if o.kind == "agg" and o.extra.get("agg") == "closure":
                    kb = F.body(strip_generics(o.extra["def"]))
                    if kb and any(c.name.endswith("str>::parse") and any(re.fullmatch(r"(i|u)(8|16|32|64|128|size)", t) for t in c.targs) for c in kb.calls()):
                        key_ok = True
            for ic in it_calls:
                v2 = set()
                origins(fc, ic.args[0], visited=v2)
                shared = {l for l in v1 & v2 if fc.varnames.get(l)}
                if key_ok and shared and fc.dominates(sc.block, ic.block):
                    ok_sort = True
        V["structural:positions-follow-numeric-shard-ids"] = ok_sort
        rs.check(ok_sort, "shard-positions=numeric-order", "the shard keys are sorted by their parsed number before the positional vectors are filled",
                 "from_config no longer orders the shard keys numerically before filling the positional vectors: with 11+ shards the string order (\"10\" < \"2\") puts shard 10's servers in slot 2")
    # automatic_sharding_key users are entered only on the Some arm in infer
    inf = ctx.body("pgcat::query_router::QueryRouter::infer", rs)
    if inf:
        users = {"pgcat::query_router::QueryRouter::selection_parser", "pgcat::query_router::QueryRouter::assignment_parser"}
        entry = [c for c in inf.calls() if c.name.startswith("pgcat::") and users & F.reachable_fns([c.name])]
        someE, _, _ = discr_edges(inf, r"core::option::Option<alloc::string::String>", "Some", origin_pred=lambda o: o.kind == "place" and ".automatic_sharding_key" in o.proj)
        ok = bool(entry) and bool(someE) and all(inf.uncrossed_path([0], [c.block], edges=someE) is None for c in entry)
        # other callers of the users outside infer's closure
        other = set()
        for u in users:
            for caller in F.callers_of(u):
                if caller not in F.reachable_fns([c.name for c in entry]) and caller != "pgcat::query_router::QueryRouter::infer":
                    other.add(caller)
        other = {o for o in other if "::test::" not in o}
        V["call-site:automatic_sharding_key-is-Some"] = ok and not other
        rs.check(ok and not other, "guard:automatic_sharding_key", "selection_parser/assignment_parser are reached only under `Some(automatic_sharding_key)` in infer", "sharding-key parsers reachable without the Some(automatic_sharding_key) guard: %s" % sorted(other))
    ap = ctx.body("pgcat::auth_passthrough::AuthPassthrough::from_pool_config", rs)
    if ap:
        T, Fa, _ = call_bool_edges(ap, "pgcat::config::Pool::is_auth_query_configured")
        uw = [s_ for s_ in panic_sites(ap, include_expansion=False) if s_["kind"] == "unwrap"]
        ok = bool(T) and all(ap.uncrossed_path([0], [s_["block"]], edges=T) is None for s_ in uw)
        # ... and the guard really vouches for every field unwrapped under it: it returns true only when each of them is_some()
        pb = F.body("pgcat::config::Pool::is_auth_query_configured")
        need_f = set()
        for s_ in uw:
            for op in s_["ops"]:
                for o in origins(ap, op, taint=True):
                    if o.kind in ("place", "param"):
                        need_f.update(p_[1:] for p_ in o.proj if p_.startswith(".") and not p_[1:].isdigit())
        need_f = {f for f in need_f if f.startswith("auth_query")}
        unvouched = []
        if pb is not None and need_f:
            psw = switches(pb)
            rets = [bb for bb, blk in enumerate(pb.blocks) if blk["term"]["k"] == "return"]
            false_blocks = [blk for blk, i, st in pb.assigns() if st["lhs"]["l"] == 0 and not st["lhs"]["p"] and st["rv"]["k"] == "use" and const_int(st["rv"].get("op")) == 0]
            fld_of = lambda c: {p_[1:] for o in origins(pb, c.args[0]) if o.kind in ("place", "param") for p_ in o.proj if p_.startswith(".") and not p_[1:].isdigit()}
            for f in sorted(need_f):
                S_f = set()
                for sw2, o, te, fe in bool_value_edges(pb, lambda o: o.kind == "call" and o.call.name.endswith("Option::is_some") and f in fld_of(o.call), psw):
                    S_f.add(te)
                D_f = [c.block for c in pb.calls("core::option::Option::is_some") if f in fld_of(c) and c.dest_local == 0] if hasattr(Call, "dest_local") else []
                if not D_f:
                    D_f = [bb for bb, blk in enumerate(pb.blocks) if blk["term"]["k"] == "call" and blk["term"].get("dest", {}).get("l") == 0 and not blk["term"].get("dest", {}).get("p")
                           and any(c.block == bb and f in fld_of(c) for c in pb.calls("core::option::Option::is_some"))]
                w = pb.uncrossed_path([0], rets, edges=S_f, blocks=D_f + false_blocks)
                if w is not None:
                    unvouched.append(f)
        else:
            unvouched = ["?"]
        ok = ok and not unvouched
        V["call-site:is_auth_query_configured"] = ok
        rs.check(not unvouched, "guard-vouches:is_auth_query_configured", "is_auth_query_configured() returns true only when %s are all set" % sorted(need_f),
                 "is_auth_query_configured() can return true although %s is None (it does not test it): a pool with the other auth_query settings but without this one passes Config::validate and from_pool_config panics on the unwrap when the pools are built" % unvouched)
        rs.check(ok or bool(unvouched), "guard:is_auth_query_configured", "auth_query unwraps are under is_auth_query_configured()==true", "auth_query unwraps are not guarded by is_auth_query_configured()")

    # ------------------------------------------------------------ obligations
    ro = ctx.rule("C15-O", "obligations: every panic-capable / positional use of a configuration quantity is discharged by the validators of that quantity", floor=25)
    cfg_fields = set(QUANT)
    allcfg = set()
    for n, a in F.adts.items():
        if n.startswith("pgcat::config::") or n == "pgcat::pool::PoolSettings":
            for v in a["variants"]:
                for f in v["fields"]:
                    if not f["name"].isdigit():
                        allcfg.add(f["name"])
    seen_keys = {}
    nsites = 0
    for n, b in sorted(F.bodies.items()):
        is_main = n == "bin:pgcat::main" or n.startswith("bin:pgcat::main::{closure")
        if (not re.search(SCAN, n) or "::test::" in n or n.startswith("bin:")) and not is_main:
            continue
        sites = panic_sites(b, include_expansion=False) if not is_main else []
        for pat, contract in CONTRACT.items():
            for c in b.calls(pat):
                sites.append({"kind": "contract", "block": c.block, "what": contract, "ops": c.args[1:] if (len(c.args) > 1 and "build" not in contract) else c.args[:1], "span": c.span, "exp": c.exp, "call": c})
        for c in b.calls("re:^regex::regex::string::Captures::get$"):
            if isinstance(const_int(c.args[1]), int) and const_int(c.args[1]) >= 1:
                sites.append({"kind": "positional", "block": c.block, "what": "Captures::get(%d)" % const_int(c.args[1]), "ops": c.args[:1], "span": c.span, "exp": c.exp, "call": c, "force_quant": "regex-group"})
        if n == FROM_CONFIG:
            for c in b.calls("re:^std::collections::hash::map::HashMap::insert$"):
                if any("PoolIdentifier" in t for t in c.targs):
                    sites.append({"kind": "positional", "block": c.block, "what": "HashMap<PoolIdentifier, _>::insert (a second pool under the same key replaces the first)", "ops": c.args[1:2], "span": c.span, "exp": c.exp, "call": c, "force_quant": "username"})
        for bb, blk in enumerate(b.blocks):
            for st in blk["stmts"]:
                if st["k"] == "assign" and st["rv"]["k"] == "bin" and st["rv"]["op"] in ("Rem", "Div"):
                    sites.append({"kind": "arith", "block": bb, "what": st["rv"]["op"], "ops": [st["rv"]["b"]], "span": st["span"], "exp": st.get("exp"), "call": None})
        in_fc_closure = n.startswith(FROM_CONFIG + "::")
        for s in sites:
            if s["kind"].startswith("assert:") and ("Overflow" in s["kind"]):
                continue  # counters/ids; not positional (reported in C11 inventory)
            if s["kind"].startswith("assert:") and "Remainder" in s["kind"]:
                continue  # the Rem statement itself is listed as arith
            flds = set()
            cfgcall = False
            param_t = False
            ops = list(s["ops"])
            if s["kind"] == "panic":
                # explicit panic: taint of the controlling conditions
                for sb, t in b.control_deps(s["block"], depth=2):
                    ops.append(b.blocks[sb]["term"]["op"])
            for op in ops:
                for o in origins(b, op, taint=True, taint_barrier=domain_struct_barrier):
                    if o.kind == "call" and o.call.name == "pgcat::config::get_config":
                        cfgcall = True
                    if o.kind in ("place", "param") and o.proj:
                        fl = [p[1:] for p in o.proj if p.startswith(".") and not p[1:].isdigit()]
                        root_ty = b.locals[o.what]["ty"] if isinstance(o.what, int) else ""
                        # the root is a pgcat value, or the closure / async block itself (a captured configuration value)
                        if fl and fl[-1] in allcfg and ("pgcat::" in root_ty or root_ty.lstrip("&").startswith(("{async block", "{closure", "{async closure"))):
                            flds.add(fl[-1])
                    if o.kind == "param" and in_fc_closure:
                        param_t = True
            # values that reach the site through a closure: captured ones (edition 2021 captures the field itself, e.g. `config.general.shutdown_timeout`
            # of the SIGINT timer task) and the elements of the collection the closure is applied to (`schema.iter().map(|row| .. row[1] ..)`)
            if "::{closure" in n:
                for op in ops:
                    flds |= {f for f in F.deep_fields(b, op) if f in allcfg}
                    if any(o.kind == "param" and isinstance(o.what, int) and o.what >= 2 for o in origins(b, op, taint=True)):
                        flds |= closure_argument_fields(F, n) & allcfg
            quants = {QUANT[f] for f in flds if f in QUANT}
            if s.get("force_quant"):
                # only the routing regexes configured per pool (statics like the command regexes have literal patterns)
                if s["force_quant"] == "regex-group":
                    own = set(flds)
                    par = F.closure_parents().get(n)
                    if par is not None:
                        # `regex.captures(text).and_then(|cap| cap.get(1)..)`: the regex is named in the function that built the closure
                        for k in par[0].calls("re:^regex::regex::string::Regex::captures$"):
                            own |= {p_[1:] for o in origins(par[0], k.args[0], taint=True) if o.kind in ("place", "param") for p_ in o.proj if p_.startswith(".")}
                    if not (own & {"shard_id_regex", "sharding_key_regex"}):
                        continue
                quants = {s["force_quant"]}
            quants |= {"?unregistered:" + f for f in flds if f not in QUANT and f not in CONTAINERS}
            if not quants and not (in_fc_closure and param_t):
                continue
            if in_fc_closure and param_t and not quants:
                # closures of from_config over config collections: classify by the callee that can fail
                prod = sorted({o.call.name.split("::")[-1] for op in s["ops"] for o in origins(b, op) if o.kind == "call"})
                if "parse" in prod:
                    quants = {"shard_id"}
                elif "new" in prod:
                    quants = {"regex"}
                else:
                    quants = {"?closure:" + "+".join(prod)}
            nsites += 1
            fn_short = n.replace("pgcat::", "").replace("::{closure#0}", "")
            for q in sorted(quants):
                key = "%s|%s|%s" % (fn_short, s["kind"].split(":")[0] + ":" + str(s["what"]).split("::")[-1], q)
                if key in seen_keys:
                    continue
                seen_keys[key] = s["span"]
                if q in BENIGN:
                    ro.ok(key, "benign: " + BENIGN[q])
                    continue
                need = NEEDS.get(q)
                if need is None:
                    ro.fail(key, "panic-capable use of configuration quantity `%s` with no registered validator (a value accepted by validate() can panic or misroute here)" % q, s["span"])
                    continue
                missing = [v for v in need if not V.get(v)]
                if missing:
                    ro.fail(key, "use of `%s` (%s %s) is not discharged: missing validator(s) %s — an accepted configuration can panic / misroute here" % (q, s["kind"], str(s["what"]).split("::")[-1], missing), s["span"])
                else:
                    ro.ok(key, "discharged by %s" % need)
    ro.note("%d configuration-tainted panic-capable sites in %s" % (nsites, SCAN))
    ctx.evaluations += nsites
    # default_role => unreachable!() in from_config is a 'panic' site; make sure it was seen
    ro.check(any("|panic:" in k and k.endswith("default_role") for k in seen_keys), "seen:default_role-unreachable", "the `_ => unreachable!()` on default_role is among the obligations", "expected obligation (default_role unreachable!) not enumerated — enumeration lost coverage")
    ro.check(sum(1 for k in seen_keys if k.endswith("|regex")) >= 2, "seen:regex", "the compilation of both routing regexes is among the obligations", "expected obligations (sharding_key_regex / shard_id_regex compiled with unwrap) not enumerated - enumeration lost coverage")
    # validator and use must build the regex the same way: what compiles under one set of limits need not compile under another
    def regex_recipe(b_):
        rec = []
        for c in b_.calls("re:^regex::"):
            short = c.name.split("::")[-1]
            if "RegexBuilder" in c.name or "RegexSetBuilder" in c.name:
                if short in ("new", "build"):
                    continue
                rec.append((short, tuple(const_int(a) for a in c.args[1:])))
        return tuple(sorted(rec, key=str))
    pv = F.body(POOL_VALIDATE)
    v_recipe = regex_recipe(pv) if pv else None
    odd = []
    n_regex_sites = 0
    for n_, b_ in F.bodies.items():
        if n_.startswith("bin:") or "::tests::" in n_ or "::test::" in n_:
            continue
        if b_.calls("re:^regex::regex::string::Regex::new$", "re:^regex::builders::.*::build$"):
            n_regex_sites += 1
            if regex_recipe(b_) != (v_recipe if "pgcat::pool::" in n_ else regex_recipe(b_)) :
                odd.append((n_.replace("pgcat::", ""), regex_recipe(b_)))
    ro.check(pv is not None and not odd, "regex:validator-and-use-agree", "the routing regexes are compiled in pool.rs with the same constructor and limits as in Pool::validate (%d regex construction sites in the crate)" % n_regex_sites,
             "a routing regex is compiled with other limits than the ones Pool::validate tried it with (%s vs validate %s): a pattern that validate() accepts can fail to compile - and panic on the unwrap - when the pools are built" % (odd, v_recipe))
    # what the validator looked at is what the pools get: a validator that checks a transformed copy of a field (quotes stripped, case folded)
    # stores that copy back, otherwise the value that was vouched for is not the value in use
    if pv is not None:
        ntr = 0
        for c in pv.calls("re:^alloc::str::<impl str>::(replace|replacen|to_lowercase|to_uppercase|to_ascii_lowercase|to_ascii_uppercase)$", "re:^core::str::<impl str>::(trim|trim_matches|trim_start_matches|trim_end_matches|strip_prefix|strip_suffix)$"):
            flds = {p_[1:] for o in origins(pv, c.args[0], taint=True) if o.kind in ("place", "param") and o.what == 1 for p_ in o.proj if p_.startswith(".") and not p_[1:].isdigit()}
            flds = {f for f in flds if f in allcfg}
            if not flds:
                continue
            ntr += 1
            for f in sorted(flds):
                back = [blk for blk, i, st in pv.assigns() if proj_fields(st["lhs"])[-1:] == [f] and st["lhs"]["l"] == 1
                        and any(o.kind == "call" and o.call.block == c.block for o in origins(pv, st["rv"].get("op") or (st["rv"].get("ops") or [None])[0], taint=True))]
                ro.check(bool(back), "normalised-value-stored:" + f, "Pool::validate stores the normalised %s it checked" % f,
                         "Pool::validate checks a normalised copy of `%s` (%s) but keeps the field as written: the accepted configuration is used with the raw value "
                         "(a quoted automatic_sharding_key is never matched, every query of the pool silently goes to the default shard)" % (f, c.name.split("::")[-1]), c.where())
        ro.check(ntr >= 1, "normalising-validators", "%d field normalisation(s) in Pool::validate" % ntr, "expected the quote-stripping of automatic_sharding_key in Pool::validate")
    ro.check(any("contract:bb8:max_size>0" in k for k in seen_keys), "seen:max_size", "bb8 max_size(pool_size) is among the obligations", "expected obligation (bb8 max_size) not enumerated — enumeration lost coverage")
    ro.check(any(k.endswith("|shard_id") and "index" in k for k in seen_keys), "seen:shard-index", "positional indexing by Address.shard is among the obligations", "expected obligation (index by Address.shard) not enumerated")
    # an accepted file is only `in force` if the pools are rebuilt for what changed in it: the comparisons that decide whether anything changed
    # (Pool::hash_value, Config ==) look at every field of every struct of a definition - a server whose role alone changed (a failover written
    # into the file) must not compare as the same server, or the accepted configuration's primary stays the demoted one
    from common import definition_identity_findings
    dif = definition_identity_findings(F)
    rs.check(len(dif) >= 8, "definition-identity", "%d structs / enums take part in the `did the definition change` comparisons" % len(dif), "only %d definition structs found" % len(dif))
    for key_, ok_, okm_, fm_ in dif:
        rs.check(ok_, "definition-identity:" + key_, okm_, fm_ + " - each shard, role and user of the accepted file can be addressed only in pools built from that file")
    # what the file says for a user is what that user's pool is built with: the per-user settings that repeat a pool-level one (pool_mode, connect_timeout,
    # idle_timeout, server_lifetime) are applied with the same precedence everywhere a pool-level value flows into a pool (user first, pool as fallback)
    from common import user_override_findings
    uof = user_override_findings(F)
    if uof is None:
        rs.missing("from_config / config::User / config::Pool")
    else:
        rs.check(len(uof) >= 4, "user-overrides", "%d per-user settings repeat a pool-level one (%s)" % (len(uof), ", ".join(x[0] for x in uof)), "per-user overrides not found")
        from common import user_override_precedence_findings
        for n_, ok_, det_ in user_override_precedence_findings(F) or []:
            if ok_ is None:
                rs.missing("the decision between User.%s and Pool.%s in from_config" % (n_, n_))
            else:
                rs.check(ok_, "user-override-first:" + n_, "User.%s is looked at before Pool.%s (%s)" % (n_, n_, det_), "in from_config %s: what the file says for the user is overruled by the pool section" % det_)
        for n_, ok_, sinks_, bad_ in uof:
            rs.check(ok_, "user-override-applied:" + n_, "wherever Pool.%s flows into what a pool is built with, User.%s does too (%d sink(s))" % (n_, n_, len(sinks_)),
                     "Pool.%s reaches %s without User.%s: a user's own `%s` is ignored there, the pool serves that user with the section's value" % (n_, bad_ or "nothing", n_, n_))

"""C18 — admin statistics count every client, server connection and transaction once."""
from mirlib import *

H = "pgcat::client::Client::handle::{closure#0}"
EP = "pgcat::client::client_entrypoint::{closure#0}"
CS = "pgcat::stats::client::ClientStats::"
SS = "pgcat::stats::server::ServerStats::"
GETC = "pgcat::pool::ConnectionPool::get::{closure#0}"
ATOMIC_MUT = ("re:^core::sync::atomic::Atomic.*::(store|fetch_add|fetch_sub|fetch_max|fetch_min|fetch_and|fetch_or|fetch_xor|fetch_nand|swap|compare_exchange|compare_exchange_weak|fetch_update)$",)
# monotone totals: only fetch_add / fetch_max may touch them
TOTALS = {"transaction_count", "query_count", "bytes_sent", "bytes_received", "error_count", "total_wait_time", "max_wait_time",
          "prepared_hit_count", "prepared_miss_count", "prepared_eviction_count"}
RESETTABLE = {"state", "wait_start_us", "prepared_cache_size", "averages_updated", "paused", "validated"}


def run(ctx):
    F = ctx.facts
    ctx.explanation = ("pairing of register/disconnect for clients and servers over all normal exits of Client::handle and client_entrypoint, who-may-write on the two registries, "
                       "state transitions around checkout and release, and operation-kind restriction (fetch_add/fetch_max only) on every total counter, enumerated from the MIR")
    ctx.assumptions = ["equality of the totals with what the servers executed is not decided", "unwinding exits (a panic in the client task) skip the pairing and are reported, not armed (see C11)",
                       "sampling is assumed at quiescent points"]
    # ---------------- R1 client registry pairing
    r1 = ctx.rule("C18-R1", "a registered client is removed from the registry on every normal exit: Ok returns of handle pass ClientStats::disconnect, Err results are disconnected by client_entrypoint", floor=6)
    h = ctx.body(H, r1)
    if h:
        regs = h.calls(CS + "register")
        r1.check(len(regs) == 1, "register-once", "handle registers the client at exactly one site", "handle registers the client at %d sites" % len(regs))
        disc = [c.block for c in h.calls(CS + "disconnect")]
        if regs:
            # Ok(()) returns: aggregates Result::Ok assigned to _0
            oks = [(blk, st) for blk, i, st in h.assigns() if st["lhs"]["l"] == 0 and not st["lhs"]["p"] and st["rv"]["k"] == "agg" and st["rv"].get("variant") == "Ok"]
            n = 0
            for blk, st in oks:
                if not h.reach([regs[0].block]) & {blk}:
                    continue
                n += 1
                wit = h.uncrossed_path([regs[0].block], [blk], blocks=disc)
                r1.check(wit is None, "ok-return#%d" % n, "Ok return at %s is preceded by ClientStats::disconnect" % st["span"].split("/")[-1],
                         "handle can return Ok at %s with the client still registered (it would stay in SHOW CLIENTS forever)" % st["span"], st["span"], wit and h.describe_path(wit))
            # before registration no server/pool interaction other than the cancel branch
            pre = [c for c in h.calls("pgcat::pool::ConnectionPool::get", "pgcat::client::Client::get_pool") if not h.dominates(regs[0].block, c.block)]
            r1.check(not pre, "register-before-work", "the client is registered before it can use a pool", "pool access before registration: %s" % [c.name for c in pre])
    ep = ctx.body(EP, r1)
    if ep:
        hc = ep.calls("pgcat::client::Client::handle")
        r1.check(len(hc) >= 4, "handle-sites", "%d Client::handle call sites in client_entrypoint" % len(hc), "expected 4 handle call sites, found %d" % len(hc))
        esw = switches(ep)
        T, Fa, sites = call_bool_edges(ep, "core::result::Result::is_err", switches_cache=esw)
        dcalls = [c.block for c in ep.calls(CS + "disconnect")]
        ok = bool(T) and len(T) >= len(hc)
        for e in T:
            reach = ep.reach([e[1]])
            if not any(b_ in reach and ep.dominates(e[1], b_) for b_ in dcalls):
                ok = False
        r1.check(ok, "err=>disconnect", "every handle() error result leads to stats.disconnect()", "an error result of handle() is not followed by stats.disconnect()")
        # ... whoever the client is: from each handle() call, every way to the end of client_entrypoint either tests the result and finds it Ok, or
        # passes stats.disconnect() - the safety net is not conditional on anything else (admin clients are registered like the others, and handle()
        # leaves with `?` on most of their errors too)
        rets_ep = [bb for bb, blk in enumerate(ep.blocks) if blk["term"]["k"] == "return"]
        for k_, c in enumerate(hc):
            wit = ep.uncrossed_path([c.target], rets_ep, edges=set(Fa), blocks=dcalls) if c.target is not None else None
            r1.check(wit is None, "err=>disconnect:every-client#%d" % k_, "after handle() #%d every way out tests the result (Ok) or passes stats.disconnect()" % k_,
                     "after handle() returned, client_entrypoint can end without testing the result or without stats.disconnect() - e.g. for an admin client: an admin session that ends with an error "
                     "(socket closed without Terminate, a Parse from a driver) stays in SHOW CLIENTS for ever and free_clients grows with each one", c.where(), wit and ep.describe_path(wit))
        # the result tested is handle's
        src_ok = all("pgcat::client::Client::handle" in {o.call.name for o in origins(ep, c.args[0], taint=True) if o.kind == "call"} for c in sites)
        r1.check(src_ok, "is_err-of-handle", "the tested result is the one returned by handle()", "is_err() is applied to something else than handle()'s result")
    # ... and when the client's task does not get that far - a panic in a decoder of client bytes unwinds through handle() and client_entrypoint -
    # the one thing that still runs is Drop for Client: it passes ClientStats::disconnect on every way through (cancel-mode objects, which were
    # never registered, excepted) (D67)
    dc_ = F.body("<pgcat::client::Client<S, T> as core::ops::drop::Drop>::drop")
    if dc_ is None:
        r1.missing("Drop for Client")
    else:
        dsw = switches(dc_)
        cmT, cmF = field_bool_edges(dc_, "cancel_mode", dsw)
        dcs = [c.block for c in dc_.calls(CS + "disconnect")]
        retsd = [bb for bb, blk in enumerate(dc_.blocks) if blk["term"]["k"] == "return"]
        wit = dc_.uncrossed_path([0], retsd, blocks=dcs, edges=set(cmT))
        r1.check(bool(dcs) and wit is None, "drop=>disconnect", "Drop for Client removes the client's entry from the registry on every way through (except for cancel-mode objects)",
                 "Drop for Client can finish without ClientStats::disconnect(): a client whose task panics (a `Q` message of length 4 is enough: read_string() indexes buf[..0 - 1]) unwinds past every other place that "
                 "removes its entry and stays in SHOW CLIENTS / SHOW LISTS for ever - one more entry per attempt", "", wit and dc_.describe_path(wit))
    # registries written only by the Reporter
    for static, ins_fn, rem_fn in (("pgcat::stats::CLIENT_STATS", "pgcat::stats::Reporter::client_register", "pgcat::stats::Reporter::client_disconnecting"),
                                   ("pgcat::stats::SERVER_STATS", "pgcat::stats::Reporter::server_register", "pgcat::stats::Reporter::server_disconnecting")):
        writers = {}
        for c in F.all_calls("re:^std::collections::hash::map::HashMap::.*(insert|remove|clear|retain|drain|entry)$"):
            st = {o.what for o in origins(c.body, c.args[0]) if o.kind == "static"}
            if static in st:
                writers.setdefault(c.name.split("::")[-1], set()).add(c.body.name)
        good = writers.get("insert") == {ins_fn} and writers.get("remove") == {rem_fn} and set(writers) <= {"insert", "remove"}
        r1.check(good, "registry-writers:" + static.split("::")[-1], "%s: insert only in %s, remove only in %s" % (static.split("::")[-1], ins_fn.split("::")[-1], rem_fn.split("::")[-1]), "%s writers: %s" % (static, writers))
    # ---------------- R2 server registry pairing
    r2 = ctx.rule("C18-R2", "a server connection is registered when it is created and removed when it is dropped or fails to start", floor=4)
    r2.check(F.callers_of(SS + "register") == ["<pgcat::pool::ServerPool as bb8::api::ManageConnection>::connect::{closure#0}"], "register-site", "ServerStats::register is called only by ServerPool::connect", "ServerStats::register callers: %s" % F.callers_of(SS + "register"))
    cn = ctx.body("<pgcat::pool::ServerPool as bb8::api::ManageConnection>::connect::{closure#0}", r2)
    if cn:
        csw = switches(cn)
        # the outcome of the connection attempt: Server::startup's result, possibly through the deadline put around it (D56)
        errE, okE, _ = discr_edges(cn, r"core::result::Result<pgcat::server::Server", "Err", switches_cache=csw)
        dc = [c.block for c in cn.calls(SS + "disconnect")]
        rets = [bb for bb, blk in enumerate(cn.blocks) if blk["term"]["k"] == "return"]
        wit = cn.uncrossed_path([d for _, d in errE], rets, blocks=dc) if errE else [0]
        r2.check(bool(errE) and wit is None, "startup-failed=>disconnect", "a failed Server::startup removes the just-registered stats entry", "a failed server startup leaves its stats entry registered (phantom row in SHOW SERVERS)")
    dr = ctx.body("<pgcat::server::Server as core::ops::drop::Drop>::drop", r2)
    if dr:
        dcs = dr.calls(SS + "disconnect")
        rets = [bb for bb, blk in enumerate(dr.blocks) if blk["term"]["k"] == "return"]
        r2.check(bool(dcs) and dr.uncrossed_path([0], rets, blocks=[c.block for c in dcs]) is None, "drop=>disconnect", "dropping a Server always removes its stats entry", "Server::drop can finish without ServerStats::disconnect")
    st_ = ctx.body("pgcat::server::Server::startup::{closure#0}", r2)
    if st_:
        for b_, blk, st in F.aggregates("pgcat::server::Server"):
            op = st["rv"]["ops"][st["rv"]["fields"].index("stats")]
            r2.check(any(o.kind == "param" or (o.kind == "place" and o.what == 1) for o in origins(b_, op)), "server-carries-its-stats", "the Server keeps the stats handle it was started with", "Server.stats is not the handle passed to startup")
    # ---------------- R3 true state
    r3 = ctx.rule("C18-R3", "states follow the checkout/release cycle: waiting before checkout, active on success, idle on failure and after release; a server is marked idle before the client forgets it", floor=6)
    g = ctx.body(GETC, r3)
    if g:
        okr = [(blk, st) for blk, i, st in g.assigns() if st["lhs"]["l"] == 0 and st["rv"]["k"] == "agg" and st["rv"].get("variant") == "Ok"]
        act = [c.block for c in g.calls(SS + "active")]
        cact = [c.block for c in g.calls(CS + "active")]
        for i, (blk, st) in enumerate(okr):
            r3.check(g.uncrossed_path([0], [blk], blocks=act) is None and g.uncrossed_path([0], [blk], blocks=cact) is None, "get-ok#%d" % (i + 1), "a successful checkout marks server and client active", "a successful checkout returns without marking the server/client active")
        r3.check(len(okr) >= 2, "get-ok-sites", "%d success returns in ConnectionPool::get" % len(okr), "expected 2 success returns in get, found %d" % len(okr))
        errs = [(blk, st) for blk, i, st in g.assigns() if st["lhs"]["l"] == 0 and st["rv"]["k"] == "agg" and st["rv"].get("variant") == "Err"]
        ce = [c.block for c in g.calls(CS + "checkout_error")]
        alld = [blk for blk, st in errs if any("AllServersDown" in str(o.extra.get("variant")) for o in origins(g, st["rv"]["ops"][0]) if o.kind == "agg")]
        for blk in alld:
            r3.check(g.uncrossed_path([0], [blk], blocks=ce) is None, "get-exhausted", "exhausting the candidates records a checkout error (client back to idle)", "AllServersDown is returned without resetting the client's waiting state")
    if h:
        gets = h.calls("pgcat::pool::ConnectionPool::get")
        hsw = switches(h)
        if gets:
            w = [c.block for c in h.calls(CS + "waiting")]
            rm = [c.block for c in h.calls("pgcat::messages::read_message")]
            heads = [hd for hd in loop_headers(h) if any(b_ in natural_loop(h, hd) for b_ in rm)]
            outer = min(heads) if heads else 0
            # admin clients never reach get (handle_admin `continue`s), so waiting is unconditional for the rest
            T_ad, F_ad = field_bool_edges(h, "admin", hsw)
            # Client.admin is immutable and admin clients `continue` after handle_admin: the admin==true edges cannot lead to the checkout
            wit = h.uncrossed_path([outer], [gets[0].block], blocks=w, edges=T_ad)
            r3.check(bool(w) and wit is None, "waiting-before-get", "stats.waiting() precedes the checkout (for non-admin clients)", "checkout without stats.waiting()")
            errE, okE, _ = discr_edges(h, r"core::result::Result<\(bb8::api::PooledConnection", "Err", origin_pred=lambda o: o.kind == "call" and o.call.name == "pgcat::pool::ConnectionPool::get", switches_cache=hsw)
            idle = [c.block for c in h.calls(CS + "idle")]
            rets = [bb for bb, blk in enumerate(h.blocks) if blk["term"]["k"] == "return"]
            wit = h.uncrossed_path([d for _, d in errE], [outer] + rets, blocks=idle) if errE else [0]
            r3.check(bool(errE) and wit is None, "checkout-failed=>idle", "a failed checkout puts the client back to idle", "a failed checkout leaves the client in state waiting")
        # connected_to_server = false is dominated by server.stats().idle()
        sidle = [c.block for c in h.calls(SS + "idle")]
        clr = [(blk, st) for blk, i, st in h.assigns() if proj_fields(st["lhs"])[-1:] == ["connected_to_server"] and st["rv"]["k"] == "use" and const_int(st["rv"]["op"]) == 0]
        r3.check(bool(clr) and all(any(h.dominates(s_, blk) for s_ in sidle) for blk, st in clr), "forget=>server-idle", "the client forgets its server (connected_to_server=false) only after marking it idle", "connected_to_server is cleared without ServerStats::idle(): the server stays `active` in SHOW SERVERS")
        setc = [(blk, st) for blk, i, st in h.assigns() if proj_fields(st["lhs"])[-1:] == ["connected_to_server"] and st["rv"]["k"] == "use" and const_int(st["rv"]["op"]) == 1]
        claim = h.calls("pgcat::server::Server::claim")
        r3.check(bool(setc) and bool(claim) and all(h.dominates(claim[0].block, blk) for blk, st in setc), "remember-on-checkout", "connected_to_server is set right after the checkout", "connected_to_server is not set after the checkout")
        lss = [(blk, st) for blk, i, st in h.assigns() if proj_fields(st["lhs"])[-1:] == ["last_server_stats"]]
        r3.check(any("pgcat::server::Server::stats" in {o.call.name for o in origins(h, st["rv"].get("op") or (st["rv"]["ops"][0] if st["rv"].get("ops") else {}), taint=True) if o.kind == "call"} for blk, st in lss), "remember-stats", "the client remembers the checked-out server's stats handle (for abrupt exits)", "last_server_stats is not taken from the checked-out server")
        # ... on every path: the handle Drop uses must be the one of the connection held now, not of an earlier checkout
        if gets and claim:
            good = [blk for blk, st in lss if "pgcat::server::Server::stats" in {o.call.name for o in origins(h, st["rv"].get("op") or (st["rv"]["ops"][0] if st["rv"].get("ops") else {}), taint=True) if o.kind == "call"}]
            inner_c = [hd for hd in heads if hd != outer and h.dominates(claim[0].block, hd)]
            if inner_c and good:
                wit = h.uncrossed_path([claim[0].block], [min(inner_c)], blocks=good)
                r3.check(wit is None, "remember-stats-every-checkout", "every checkout refreshes last_server_stats before the transaction loop is entered",
                         "a checkout can enter the transaction loop with last_server_stats still pointing at an earlier connection: after an abrupt exit Drop marks the wrong connection idle and the one actually held stays `active` for ever",
                         "", wit and h.describe_path(wit))
            else:
                r3.missing("transaction loop / last_server_stats assignment after the checkout")
    cd = ctx.body("<pgcat::client::Client<S, T> as core::ops::drop::Drop>::drop", r3)
    if cd:
        T, Fa = field_bool_edges(cd, "connected_to_server")
        idc = [c.block for c in cd.calls(SS + "idle")]
        rets = [bb for bb, blk in enumerate(cd.blocks) if blk["term"]["k"] == "return"]
        # `connected_to_server && last_server_stats.is_some()`: from the true edge, the only way round idle() is the is_some()==false edge
        T2, F2, _ = call_bool_edges(cd, "core::option::Option::is_some")
        wit = cd.uncrossed_path([d for _, d in T], rets, blocks=idc, edges=F2) if T else [0]
        r3.check(bool(T) and bool(idc) and wit is None, "abrupt-exit=>server-idle", "Drop for Client marks a still-assigned server idle", "Drop for Client no longer marks the server idle after an abrupt exit")
    # a registry entry belongs to one client: a ClientStats carrying a real id is built only by Client::startup (registered there);
    # the throw-away client of a CancelRequest, whose process_id is the *target's*, must not carry that id - client_entrypoint calls
    # stats.disconnect() on every Err result, which removes the entry with that id
    cs_new = [c for c in F.all_calls("pgcat::stats::client::ClientStats::new") if "::test" not in c.body.name and not c.body.name.startswith("bin:")]
    makers = sorted({c.body.name.replace("::{closure#0}", "").split("::")[-1] for c in cs_new})
    r1.check(makers == ["startup"], "client-stats-makers", "ClientStats with a real id are built only in Client::startup", "ClientStats::new is also called from %s: a second object with a registered client's id lets an unrelated disconnect() "
             "remove that client from SHOW CLIENTS / SHOW POOLS while it is still connected" % [m for m in makers if m != "startup"])
    cancel_b = F.body("pgcat::client::Client::cancel::{closure#0}")
    if cancel_b:
        for b_, blk, st in F.aggregates("pgcat::client::Client"):
            if b_ is not cancel_b:
                continue
            op = st["rv"]["ops"][st["rv"]["fields"].index("stats")]
            prod = {o.call.name.split("::")[-1] for o in origins(cancel_b, op, taint=True) if o.kind == "call"}
            params = {o.what for o in origins(cancel_b, op, taint=True) if o.kind == "param"}
            r1.check("default" in prod and "new" not in (prod - {"default"}) or prod <= {"default", "new"} and not params, "cancel-client-has-no-identity", "the cancel-mode client carries default (unregistered, id 0) statistics",
                     "the cancel-mode client's statistics are built from the request's process id (which is the target client's id)")
    # ---------------- R4 totals are monotone
    r4 = ctx.rule("C18-R4", "total counters are only ever increased (fetch_add / fetch_max); store / fetch_sub touch only state, per-period and gauge fields", floor=20)
    nsites = 0
    for c in F.all_calls(*ATOMIC_MUT):
        if not (c.body.name.startswith("pgcat::stats::") or "stats" in c.body.name.lower()):
            # counters outside the stats module are not part of the admin statistics (Address.error_count, paused, ...)
            continue
        if re.search(r"Atomic(Client|Server)State::", c.body.name):
            continue
        op = c.name.split("::")[-1]
        paths = set()
        for o in origins(c.body, c.args[0]):
            if o.kind in ("place", "param"):
                f = [p[1:] for p in o.proj if p.startswith(".") and not p[1:].isdigit()]
                if f:
                    paths.add(".".join(f))
        for pth in sorted(paths):
            leaf = pth.split(".")[-1]
            parent = pth.split(".")[-2] if "." in pth else ""
            nsites += 1
            key = "%s:%s@%s" % (op, pth, c.body.name.split("::")[-1])
            if parent == "total" or (leaf in TOTALS and parent not in ("current", "averages")):
                r4.check(op in ("fetch_add", "fetch_max"), key, "total `%s` is only increased" % pth, "total counter `%s` is modified with %s in %s: the reported total can go down" % (pth, op, c.body.name), c.where())
            elif parent in ("current", "averages") or leaf in RESETTABLE:
                r4.ok(key, "per-period / gauge / state field")
            else:
                r4.fail(key, "atomic field `%s` is not classified as total or resettable (new statistic? classify it in checks/c18.py)" % pth, c.where())
    # the enum-state atomics
    r4.note("%d atomic mutation sites in the stats module" % nsites)
    # ---------------- R5 a transaction / query is counted where it ends
    # `no total ever decreases`: the totals live in Address.stats. A pool that from_config builds in place of a live one (its definition, or a general setting it is
    # built from, changed) takes the totals of the servers that were in the live pool over - a fresh AddressStats only for a server that was not there (D77)
    fc18 = F.body("pgcat::pool::ConnectionPool::from_config::{closure#0}")
    if fc18 is None:
        r4.missing("ConnectionPool::from_config")
    else:
        served = []
        for b_, blk, st in F.aggregates("pgcat::config::Address"):
            if b_ is not fc18 or "stats" not in st["rv"]["fields"]:
                continue
            rv = st["rv"]
            # the address of a server of the pool (the one that carries the mirrors), not a mirror's
            mo = [o for o in origins(fc18, rv["ops"][rv["fields"].index("mirrors")]) if o.kind == "call" and o.call.name.endswith("Vec::new")]
            if mo and not [o for o in origins(fc18, rv["ops"][rv["fields"].index("mirrors")]) if o.kind in ("place",) and fc18.varnames.get(o.what)]:
                pass
            calls_ = {o.call.name for o in origins(fc18, rv["ops"][rv["fields"].index("stats")], taint=True) if o.kind == "call"}
            served.append((blk, "pgcat::pool::get_pool" in calls_, sorted(x.split("::")[-1] for x in calls_)[:6]))
        r4.check(any(ok for _b, ok, _c in served), "totals-survive-a-rebuild", "the AddressStats of a server of a rebuilt pool are taken from the live pool's address when the server was in it",
                 "every Address from_config builds gets a fresh AddressStats (%s): a reload that rebuilds a pool makes total_xact_count, total_query_count, total_received, total_sent, total_errors .. of all its servers "
                 "fall back to 0" % [c for _b, _ok, c in served])
    r5 = ctx.rule("C18-R5", "every release of a server after a round trip counts one transaction on the client and on the server; each send_and_receive_loop counts one query", floor=4)
    if h:
        rm = [c.block for c in h.calls("pgcat::messages::read_message")]
        claim = h.calls("pgcat::server::Server::claim")
        heads = [hd for hd in loop_headers(h) if any(b_ in natural_loop(h, hd) for b_ in rm)]
        if len(heads) >= 2 and claim:
            outer = min(heads)
            inner = min(hd for hd in heads if hd != outer and h.dominates(claim[0].block, hd))
            inner_blocks = natural_loop(h, inner)
            rel = [c.block for c in h.calls("pgcat::server::Server::checkin_cleanup") if c.block not in inner_blocks and c.block in natural_loop(h, outer)]
            can_release = h.backreach(rel, avoid_blocks=[inner])
            succ = h.succ("n")
            exits = {(u, v) for u in inner_blocks for v in succ[u] if v not in inner_blocks and v in can_release}
            ct = [c.block for c in h.calls(CS + "transaction")]
            st = [c.block for c in h.calls(SS + "transaction")]
            k = 0
            hsw_r5 = switches(h)

            hdefs_r5 = h.defs()

            def flag_of(sb):
                """the named bool local a switch tests, and whether negated: `switchInt(move _t)` with `_t = copy L` / `_t = Not(copy L)` (or L itself)"""
                t = h.blocks[sb]["term"]
                if t["k"] != "switch":
                    return None
                l, neg = op_local(t["op"]), False
                for _ in range(3):
                    if l is None:
                        return None
                    if h.varnames.get(l) and h.locals[l]["ty"] == "bool":
                        return (l, neg)
                    ds = hdefs_r5.get(l, [])
                    if len(ds) != 1 or ds[0][0] != "assign":
                        return None
                    rv = ds[0][3]["rv"]
                    if rv["k"] == "use":
                        l = op_local(rv["op"])
                    elif rv["k"] == "un" and rv["op"] == "Not":
                        l, neg = op_local(rv["a"]), not neg
                    else:
                        return None
                return None

            def same_flag_edges(c):
                """a round trip that is made only where a named bool of the arm is true (`if should_send_to_server { send_and_receive_loop }`): further tests of that very
                local cannot come out false on the same way through - their false edges are not ways from this round trip (path-insensitive correlation)"""
                out = set()
                for sb, tgt in h.direct_control_deps(c.block):
                    fl = flag_of(sb)
                    sw0 = next((sw for sw in hsw_r5 if sw.block == sb and sw.is_bool()), None)
                    if fl is None or sw0 is None:
                        continue
                    loc, neg0 = fl
                    te0, fe0 = sw0.bool_edges()
                    val0 = (tgt == te0[1]) != neg0   # value of the local on the edge that leads to the round trip
                    for sw in hsw_r5:
                        if sw.block == sb or not sw.is_bool():
                            continue
                        f2 = flag_of(sw.block)
                        if f2 is None or f2[0] != loc:
                            continue
                        te, fe = sw.bool_edges()
                        # the edge on which the local has the other value
                        out.add(fe if (val0 != f2[1]) else te)
                return out
            for c in h.calls("pgcat::client::Client::send_and_receive_loop", "pgcat::client::Client::receive_server_message"):
                if c.block not in inner_blocks:
                    continue
                k += 1
                infeasible = same_flag_edges(c)
                for nm, blocks in (("client", ct), ("server", st)):
                    par = h.reach([c.target], avoid_blocks=[inner] + blocks, avoid_edges=infeasible, want_parents=True)
                    w = [u for (u, v) in exits if u in par]
                    r5.check(not w, "release-counts:%s#%d" % (nm, k), "a release after %s counts a %s transaction" % (c.name.split("::")[-1], nm), "the server can be released after %s without counting the transaction on the %s" % (c.name.split("::")[-1], nm), c.where())
            # ... and only then: `transaction totals equal the number of transactions actually executed on the servers`. A counting site is reached from the
            # read of a client message only through a round trip - a batch pgcat answers from its statement cache alone (Parse of a statement the connection
            # has, Close) has run nothing (D73). A named bool that guards both the round trip and the count is followed consistently (both values tried).
            inner_rm = [c.target for c in h.calls("pgcat::messages::read_message") if c.block in inner_blocks and c.target is not None]
            trips = [c.block for c in h.calls("pgcat::client::Client::send_and_receive_loop", "pgcat::client::Client::receive_server_message", "pgcat::client::Client::send_server_message") if c.block in inner_blocks]
            flag_sw = {}
            for sw in hsw_r5:
                if not sw.is_bool() or sw.block not in inner_blocks:
                    continue
                f2 = flag_of(sw.block)
                if f2 is not None:
                    flag_sw.setdefault(f2[0], []).append((sw, f2[1]))
            for nm, blocks in (("client", ct), ("server", st)):
                cnt_in = [b_ for b_ in blocks if b_ in inner_blocks]
                wit = h.uncrossed_path(inner_rm, cnt_in, blocks=trips + [inner]) if cnt_in and inner_rm else None
                if wit is not None:
                    # retry with each guarding flag held constant
                    for loc, sws in flag_sw.items():
                        if not any(sw.block in wit for sw, _n in sws):
                            continue
                        both_clean = True
                        for val in (True, False):
                            avoid = set()
                            for sw, neg in sws:
                                te, fe = sw.bool_edges()
                                avoid.add(fe if (val != neg) else te)
                            if h.uncrossed_path(inner_rm, cnt_in, blocks=trips + [inner], edges=avoid) is not None:
                                both_clean = False
                        if both_clean:
                            wit = None
                            break
                r5.check(bool(cnt_in) and wit is None, "counted-only-after-a-round-trip:" + nm, "a %s transaction is counted in the transaction loop only on ways that passed a round trip since the client's message was read" % nm,
                         "a %s transaction is counted on a way that sent nothing to the server since the client's message was read: a batch answered from the statement cache alone (`Parse name; Sync` of a statement the connection has, "
                         "`Close name; Sync`) shows as a transaction in SHOW STATS / SHOW SERVERS / SHOW CLIENTS" % nm, "", wit and h.describe_path(wit))
            # ... once: a transaction is counted where it ends. A round trip that only started a COPY (CopyInResponse) has not ended
            # anything, the CopyDone/CopyFail arm counts it; so every counting site is reached only where in_copy_mode() was false after the round trip
            hsw5 = switches(h)
            _T5, F5, _ = call_bool_edges(h, "pgcat::server::Server::in_copy_mode", switches_cache=hsw5)
            n5 = 0
            for c in h.calls("pgcat::client::Client::send_and_receive_loop"):
                if c.block not in inner_blocks or c.target is None:
                    continue
                for nm, blocks in (("client", ct), ("server", st)):
                    n5 += 1
                    reach5 = set(h.reach([c.target], avoid_blocks=[inner], avoid_edges=set(F5)))
                    early = [b_ for b_ in blocks if b_ in reach5]
                    r5.check(bool(F5) and not early, "counted-when-ended:%s#%d" % (nm, n5), "after send_and_receive_loop a %s transaction is counted only where in_copy_mode() is false" % nm,
                             "after a round trip that only started a COPY FROM STDIN (CopyInResponse, not in a transaction block) a %s transaction is counted, and the CopyDone arm counts it again when the COPY ends: "
                             "one autocommit COPY shows as two transactions in SHOW STATS" % nm, c.where())
    sr = ctx.body("pgcat::client::Client::send_and_receive_loop::{closure#0}", r5)
    if sr:
        oks = [blk for blk, i, st in sr.assigns() if st["lhs"]["l"] == 0 and st["rv"]["k"] == "agg" and st["rv"].get("variant") == "Ok"]
        for nm, pat in (("client", CS + "query"), ("server", SS + "query")):
            qs = [c.block for c in sr.calls(pat)]
            r5.check(bool(qs) and sr.uncrossed_path([0], oks, blocks=qs) is None and all(b_ not in loop_blocks(sr) for b_ in qs), "query-counted:" + nm, "send_and_receive_loop counts exactly one %s query per request" % nm, "send_and_receive_loop does not count one %s query per request (missing, or inside the receive loop)" % nm)


def loop_blocks(body):
    out = set()
    for hd in loop_headers(body):
        bl = natural_loop(body, hd)
        # await poll loops contain a yield; the receive loop contains calls to receive_server_message
        if any(body.blocks[b]["term"]["k"] == "call" and "receive_server_message" in (body.blocks[b]["term"]["fn"].get("def") or "") for b in bl):
            out |= bl
    return out

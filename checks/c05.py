"""C05 — writes and transactions go to the primary; explicit role choices are honoured."""
from mirlib import *

INFER = "pgcat::query_router::QueryRouter::infer"
ISMUT = "pgcat::query_router::QueryRouter::is_mutation_query"
TEC = "pgcat::query_router::QueryRouter::try_execute_command"
H = "pgcat::client::Client::handle::{closure#0}"
GET = "pgcat::pool::ConnectionPool::get"
GETC = GET + "::{closure#0}"
ROLE_OPT_EQ = "<pgcat::config::Role as core::cmp::PartialEq<core::option::Option<pgcat::config::Role>>>::eq"
VISIT = "re:sqlparser::ast::visitor::Visit>::visit$"


def role_value(body, op):
    """classify the Option<Role> value of an operand: set of 'Some(Primary)' / 'Some(Replica)' / 'None' / 'field:<x>' / '?'"""
    vals = set()
    for o in origins(body, op):
        if o.kind == "agg" and "option::Option" in str(o.what) and not o.proj:
            rv = o.extra
            if rv["variant"] == "None":
                vals.add("None")
            else:
                inner = set()
                for oo in origins(body, rv["ops"][0]):
                    if oo.kind == "agg" and str(oo.what).endswith("config::Role") and not oo.proj:
                        inner.add(oo.extra["variant"])
                    elif oo.kind in ("agg",):
                        continue
                    elif oo.kind in ("place", "param", "call", "unknown"):
                        inner.add("?" + str(oo.what))
                for i in inner or {"?"}:
                    vals.add("Some(%s)" % i)
        elif o.kind == "place" and o.proj and o.proj[-1].startswith("."):
            vals.add("field:" + o.proj[-1][1:])
        elif o.kind == "call":
            vals.add("call:" + o.call.name.split("::")[-1])
    return vals


def is_some_primary(b, op, depth=0):
    """does this operand hold Some(Role::Primary) / Role::Primary built from aggregates?"""
    if op is None or depth > 3:
        return False
    for o in origins(b, op):
        if o.kind == "agg":
            if str(o.extra.get("variant")) == "Primary":
                return True
            if any(is_some_primary(b, x, depth + 1) for x in o.extra.get("ops", [])):
                return True
    return False


def run(ctx):
    F = ctx.facts
    ctx.explanation = ("dominance of every non-primary role assignment by the Statement::Query arm, field/variant coverage of the read-write classifier, "
                       "write-seen flag discipline, provenance of the role/shard arguments of the checkout, role filter shape and the SET SERVER ROLE table, over the type-checked MIR")
    ctx.assumptions = ["sqlparser's AST and its derive(Visit) traversal mean what PostgreSQL means (trusted library)", "the db-activity timers are not modelled",
                       "statements the parser rejects are outside the property"]
    inf = ctx.body(INFER)
    r1 = ctx.rule("C05-R1", "in QueryRouter::infer every assignment of a non-primary value to active_role is dominated by the Statement::Query arm (all other statement kinds go to the primary)", floor=1)
    r3 = ctx.rule("C05-R3", "once a write / lock is seen in a message the role stays primary: non-primary assignments are guarded by the write-seen flag and every write detection sets it", floor=2)
    if inf is None:
        r1.missing("body " + INFER)
        return
    sws = switches(inf)
    stmt_sw = None
    for sw in sws:
        d = sw.discr()
        if d and d[0].endswith("sqlparser::ast::Statement") and "Query" in d[2]:
            stmt_sw = (sw, d)
    if not stmt_sw:
        r1.missing("switch on Statement discriminant with a Query arm in infer")
        return
    sw, d = stmt_sw
    query_target = d[2]["Query"]
    catch_all = d[3]
    nonprimary = []
    primary_assigns = []
    for blk, i, st in inf.assigns():
        fs = proj_fields(st["lhs"])
        if fs and fs[-1] == "active_role":
            vals = role_value(inf, st["rv"]["op"]) if st["rv"]["k"] == "use" else {"?"}
            if vals == {"Some(Primary)"}:
                primary_assigns.append((blk, st))
            else:
                nonprimary.append((blk, st, vals))
    ctx.evaluations += inf.nblocks
    if not nonprimary:
        r1.missing("non-primary assignment to active_role in infer (read/write splitting gone?)")
    for blk, st, vals in nonprimary:
        r1.check(inf.dominates(query_target, blk), "nonprimary-assign:%s" % "|".join(sorted(vals)),
                 "active_role = %s only inside the Statement::Query arm" % sorted(vals),
                 "active_role = %s is assigned outside the Statement::Query arm: statements other than plain queries can be routed to a replica" % sorted(vals), st["span"])
    # arms with explicit targets other than Query must assign primary on all paths to the loop header
    heads = loop_headers(inf)
    r1.check(len(heads) == 1, "loop", "one statement loop in infer", "expected one loop in infer, found %d" % len(heads))
    head = heads[0] if heads else None
    if head is not None:
        pblocks = [b for b, _ in primary_assigns]
        for vname, tgt in list(d[2].items()) + [("<all other statements>", catch_all)]:
            if vname == "Query":
                continue
            rets = [bb for bb, blk_ in enumerate(inf.blocks) if blk_["term"]["k"] == "return"]
            wit = inf.uncrossed_path([tgt], [head] + rets, blocks=pblocks)
            r1.check(wit is None, "arm:%s" % vname, "statement arm %s always assigns Some(Primary)" % vname,
                     "statement arm %s can leave the iteration without routing to the primary" % vname, "", wit and inf.describe_path(wit))

    # ---------------- R2 classifier coverage
    r2 = ctx.rule("C05-R2", "the read/write classifier of the Query arm looks everywhere a write or lock can hide: Query.locks, Select.into, SetExpr::{Insert,Update} bodies, and nested queries / CTEs / set operations (own recursion or sqlparser's Visit traversal)", floor=5)
    # flags: bool user variables whose only definitions are constants
    defs = inf.defs()
    flags = []
    for l, names in inf.varnames.items():
        if inf.locals[l]["ty"] != "bool":
            continue
        dl = defs.get(l, [])
        if dl and all(d_[0] == "assign" and d_[3]["rv"]["k"] == "use" and const_int(d_[3]["rv"]["op"]) in (0, 1) for d_ in dl):
            flags.append(l)

    def flag_false_edges(l):
        fe = set()
        for sw2 in sws:
            if not sw2.is_bool():
                continue
            vis = set()
            os_ = origins(inf, sw2.op, visited=vis)
            if l in vis and all(o.kind == "const" for o in os_):
                te, fe_ = sw2.bool_edges()
                neg = any(o.neg for o in os_)
                fe.add(te if neg else fe_)
        return fe

    def sets_true(l):
        return [d_[1] for d_ in defs[l] if const_int(d_[3]["rv"]["op"]) == 1]

    # G: flags whose ==false edge guards every non-primary assignment; W: those that the write arm sets
    G = [l for l in flags if flag_false_edges(l) and nonprimary and all(inf.uncrossed_path([query_target], [blk], edges=flag_false_edges(l)) is None for blk, _, _ in nonprimary)]
    W = [l for l in G if any(inf.dominates(catch_all, sb) for sb in sets_true(l))]
    wset = [sb for l in W for sb in sets_true(l)]
    gset = [sb for l in G for sb in sets_true(l)]
    # classifier roots: pgcat callees in the Query arm whose positive verdict sets a write flag before the next statement
    roots = []
    if head is not None and W:
        for c in inf.calls():
            if not (c.name.startswith("pgcat::") and inf.dominates(query_target, c.block) and inf.locals[c.dest["l"]]["ty"] == "bool"):
                continue
            Tc_, _, _ = call_bool_edges(inf, c.name, switches_cache=sws)
            if Tc_ and inf.uncrossed_path([d_ for _, d_ in Tc_], [head], blocks=wset) is None and c.name not in roots:
                roots.append(c.name)
    if not roots and F.body(ISMUT):
        roots.append(ISMUT)
    cls_fns = set()
    for r in roots:
        cls_fns |= {n for n in F.reachable_fns([r]) if n in F.bodies}
    # visitors passed to Visit::visit from the classifier
    visit_calls = []
    for n in list(cls_fns):
        for c in F.body(n).calls(VISIT):
            visit_calls.append(c)
            for t in c.targs:
                for im in F.impls:
                    if im["trait"] == "sqlparser::ast::visitor::Visitor" and im["self"] in t or (im["trait"] == "sqlparser::ast::visitor::Visitor" and t.endswith(im["self"])):
                        for bn, bb in F.bodies.items():
                            if bn.startswith("<%s as sqlparser::ast::visitor::Visitor>::" % im["self"]):
                                cls_fns.add(bn)
                                cls_fns |= {m for m in F.reachable_fns([bn]) if m in F.bodies}
    fr = set()
    variants = set()
    self_rec = False
    for n in sorted(cls_fns) + [INFER]:
        b = F.body(n)
        if n != INFER:
            fr |= fields_read(b)
            for sw2 in switches(b):
                dd = sw2.discr()
                if dd and dd[0].endswith("query::SetExpr"):
                    variants |= {v for v, t in dd[2].items() if t != dd[3]}
            if any(c.name in cls_fns for c in b.calls()):
                self_rec = True
        else:
            # only the part of infer inside the Query arm
            for bb, p, how in all_places(b):
                if how != "write" and b.dominates(query_target, bb):
                    fr |= set(proj_fields(p))
    generic = bool(visit_calls)
    # with a generic traversal, the per-query predicate (the Visitor impl and what it calls) must itself look at locks / into / Insert / Update
    vis_fns = {n for n in cls_fns if n.startswith("<") and "sqlparser::ast::visitor::Visitor>::" in n}
    vis_closure = set()
    for n in vis_fns:
        vis_closure |= {m for m in F.reachable_fns([n]) if m in F.bodies}
    if generic:
        vfr = set()
        vvariants = set()
        for n in vis_closure:
            vb = F.body(n)
            vfr |= fields_read(vb)
            for sw2 in switches(vb):
                dd = sw2.discr()
                if dd and dd[0].endswith("query::SetExpr"):
                    vvariants |= {v for v, t in dd[2].items() if t != dd[3]}
        nested_fr, nested_variants = vfr, vvariants
    else:
        nested_fr, nested_variants = fr, variants
    r2.note("classifier functions: %s; generic Visit traversal: %s; fields read: %s; SetExpr arms: %s" % (sorted(x.split("::")[-1] for x in cls_fns), generic, sorted(fr & {"locks", "into", "with", "body", "cte_tables", "left", "right"}), sorted(variants)))
    r2.check(bool(cls_fns), "classifier", "classifier functions found: %s" % sorted(x.split("::")[-1] for x in cls_fns), "no read/write classifier reachable from the Query arm of infer")
    r2.check("locks" in fr and "locks" in nested_fr, "field:Query.locks", "row-lock clauses (FOR UPDATE/SHARE) are inspected", "Query.locks is never read: SELECT ... FOR UPDATE is classified as a plain read")
    r2.check("into" in nested_fr, "field:Select.into", "SELECT INTO is inspected", "Select.into is never read: `SELECT ... INTO newtable` (creates a table) is classified as a plain read and routed to a replica")
    r2.check({"Insert", "Update"} <= nested_variants, "variants:SetExpr::Insert/Update", "data-modifying query bodies (SetExpr::Insert/Update) are recognised", "SetExpr::Insert/Update bodies are not recognised (%s)" % sorted(variants))
    r2.check(generic or ("with" in fr and "cte_tables" in fr and self_rec), "nested:with",
             "CTEs are covered (%s)" % ("sqlparser Visit traversal" if generic else "reads Query.with and recurses"),
             "Query.with is never inspected: `WITH t AS (INSERT/UPDATE ... RETURNING *) SELECT ...` is classified as a plain read and routed to a replica")
    r2.check(generic or (self_rec and "locks" in {f for n in cls_fns for f in fields_read(F.body(n))}), "nested:locks",
             "locks of nested queries are covered", "Query.locks is read only at the top level: `(SELECT ... FOR UPDATE)` / locking subqueries are routed to a replica")
    r2.check(generic or "SetOperation" in variants or ("left" in fr and "right" in fr), "nested:set-operation",
             "set operations (UNION/INTERSECT/EXCEPT) are traversed", "SetExpr::SetOperation operands are not traversed: a locking / INTO select inside a UNION is classified as a plain read")

    # ---------------- R3 write-seen flag
    for blk, st, vals in nonprimary:
        r3.check(bool(W), "guard-of:%s" % "|".join(sorted(vals)), "guarded by write-seen flag(s) %s == false" % [inf.local_name(l) for l in W],
                 "the non-primary assignment is not guarded by a write-seen flag that the write arm sets: a read after a write in one message can move the whole message to a replica", st["span"])
    T, lockT = set(), set()
    if W and head is not None:
        wit = inf.uncrossed_path([catch_all], [head], blocks=wset)
        r3.check(wit is None, "write-arm-sets-flag", "the write arm sets %s on every path" % [inf.local_name(l) for l in W], "the write arm can finish an iteration without setting the write-seen flag", "", wit and inf.describe_path(wit))
        # every Some(Primary) decision inside the Query arm is sticky for the rest of the message
        k = 0
        for pb, st in primary_assigns:
            if not inf.dominates(query_target, pb):
                continue
            k += 1
            wit = inf.uncrossed_path([pb], [head], blocks=[x for x in gset if x != pb]) if pb not in gset else None
            r3.check(wit is None, "primary-in-query-arm-is-sticky#%d" % k, "a primary decision in the Query arm sets a sticky flag before the next statement",
                     "a statement classified as a write or locking read does not set a write-seen flag: in `SELECT .. FOR UPDATE; SELECT ..` the second statement re-routes the whole message to a replica",
                     st["span"], wit and inf.describe_path(wit))
        # ... and so is the one of every other arm: a statement kind with an arm of its own (BEGIN) either ends the look at the message or sets a flag that
        # guards the non-primary assignments - otherwise the Query arm of a later statement of the same message (`BEGIN; SELECT ..`) overwrites it and the
        # transaction is opened on a replica (round 10)
        for vname, tgt in d[2].items():
            if vname == "Query" or tgt == catch_all:
                continue
            wit = inf.uncrossed_path([tgt], [head], blocks=gset)
            r3.check(wit is None, "arm-is-sticky:%s" % vname, "the %s arm ends the statement loop or sets a sticky flag before the next statement" % vname,
                     "after the %s arm has routed the message to the primary the loop can go on to the next statement with no write-seen flag set: in `BEGIN; SELECT ..` the SELECT's Query arm re-routes the "
                     "message, the transaction is opened on a replica and, in transaction mode, every later statement of it runs there" % vname, "", wit and inf.describe_path(wit))
        T, _, _ = call_bool_edges(inf, *roots, switches_cache=sws) if roots else (set(), set(), [])
        for sw2, o, te, fe in bool_value_edges(inf, lambda o: o.kind == "call" and o.call.name.endswith("::is_empty") and "locks" in {f for a in o.call.args for oo in origins(inf, a) for f in [p[1:] for p in oo.proj if p.startswith(".")]}, sws):
            lockT.add(fe if not o.neg else te)  # locks NOT empty
    guard_flag = bool(W)
    # no error exit inside the Query arm before the role decision (an early `?` keeps the previous transaction's role)
    if guard_flag and head is not None:
        verdict_blocks = {e[0] for e in (T | lockT)}
        for c in inf.calls("re:FromResidual<.*>>::from_residual$"):
            if not inf.dominates(query_target, c.block):
                continue
            wit = inf.uncrossed_path([query_target], [c.block], blocks=verdict_blocks)
            r3.check(wit is None, "no-early-exit-before-verdict", "error exits of the Query arm lie after the role decision",
                     "the Query arm can return an error (`?` at %s) before the role is decided: the previous transaction's role is reused for this statement" % c.span, c.where(), wit and inf.describe_path(wit))

    # an error exit in the middle of the message leaves the statements behind it unclassified: allowed only where the role is primary for good (D48)
    if guard_flag and head is not None:
        L_ = natural_loop(inf, head)
        k = 0
        for c in inf.calls("re:FromResidual<.*>>::from_residual$"):
            # the `?` is an exit of the loop body: dominated by the header, the header is not reached again from it
            if not inf.dominates(head, c.block) or head in inf.reach([c.block]):
                continue
            k += 1
            wit = inf.uncrossed_path([head], [c.block], blocks=wset)
            r3.check(wit is None, "error-exit-only-after-a-write#%d" % k, "the `?` at %s leaves the statement loop only after the write-seen flag was set (the role stays primary)" % c.span,
                     "infer() can leave the statement loop with an error (`?` at %s) while only reads have been seen: the statements behind it are never looked at - in `SELECT .. WHERE id = 1; SELECT .. WHERE id = 2; INSERT ..` "
                     "(two shards, automatic sharding key) the INSERT is not classified and the whole message goes to a replica" % c.span, c.where(), wit and inf.describe_path(wit))

    # ---------------- R4 the pool is asked for what the router decided
    # a QueryRouter method all of whose paths pass a call of infer() is as good as infer() (wrapper rule)
    infer_like = [INFER]
    for n_, b_ in F.bodies.items():
        if n_.startswith("pgcat::query_router::QueryRouter::") and n_ != INFER and "::{" not in n_:
            ic = [c.block for c in b_.calls(INFER)]
            rets_ = [bb for bb, blk in enumerate(b_.blocks) if blk["term"]["k"] == "return"]
            if ic and b_.uncrossed_path([0], rets_, blocks=ic) is None:
                infer_like.append(n_)
    r4 = ctx.rule("C05-R4", "Client::handle passes QueryRouter::shard()/role() of the router that ran infer to ConnectionPool::get, and infer runs on every parsed initial Q/P message", floor=3)
    h = ctx.body(H, r4)
    if h:
        hsw = switches(h)
        gets = h.calls(GET)
        if not gets:
            r4.missing("call ConnectionPool::get in handle")
        for g in gets:
            so = {o.call.name for o in origins(h, g.args[1]) if o.kind == "call"}
            ro = {o.call.name for o in origins(h, g.args[2]) if o.kind == "call"}
            r4.check(so == {"pgcat::query_router::QueryRouter::shard"}, "get.shard", "shard argument is QueryRouter::shard()", "shard argument of get derives from %s" % sorted(so), g.where())
            r4.check(ro == {"pgcat::query_router::QueryRouter::role"}, "get.role", "role argument is QueryRouter::role()", "role argument of get derives from %s" % sorted(ro), g.where())
            # same router local as infer
            def recv_roots(call):
                vis = set()
                origins(h, call.args[0], visited=vis)
                return {l for l in vis if h.varnames.get(l)}
            inf_calls = h.calls(*infer_like)
            shard_calls = [o.call for o in origins(h, g.args[1]) if o.kind == "call"] + [o.call for o in origins(h, g.args[2]) if o.kind == "call"]
            roots_ = set.intersection(*[recv_roots(c) for c in inf_calls + shard_calls]) if inf_calls and shard_calls else set()
            r4.check(bool(roots_), "same-router", "infer and shard()/role() act on the same QueryRouter local (%s)" % sorted(h.local_name(l) for l in roots_), "infer and the checkout arguments use different routers")
        claim = h.calls("pgcat::server::Server::claim")
        if gets and claim:
            outer_parse = [c for c in h.calls("pgcat::query_router::QueryRouter::parse") if not h.dominates(claim[0].block, c.block)]
            r4.check(len(outer_parse) >= 2, "outer-parse-sites", "%d parse sites before checkout (Q and P arms)" % len(outer_parse), "expected parse sites for the Q and P arms before checkout, found %d" % len(outer_parse))
            inf_blocks = [c.block for c in h.calls(*infer_like)]
            deny, _, _ = discr_edges(h, r"plugins::PluginOutput", "Deny", switches_cache=hsw)
            icpt, _, _ = discr_edges(h, r"plugins::PluginOutput", "Intercept", switches_cache=hsw)
            hh = [x for x in loop_headers(h) if h.dominates(x, gets[0].block)]
            for pc in outer_parse:
                okE, _, _ = discr_edges(h, r"core::result::Result<alloc::vec::Vec<sqlparser::ast::Statement>", "Ok", origin_pred=lambda o: o.kind == "call" and o.call.block == pc.block, switches_cache=hsw)
                if not okE:
                    r4.fail("parse-ok-arm", "cannot resolve the Ok arm of parse", pc.where())
                    continue
                # ... unless the client switched routing inference off (SET SERVER ROLE TO 'primary'|'replica'|'any'): the role then stays what it set
                _, qpe_false, _ = call_bool_edges(h, "pgcat::query_router::QueryRouter::query_parser_enabled", switches_cache=hsw)
                wit = h.uncrossed_path([d_ for _, d_ in okE], [gets[0].block] + hh, edges=deny | icpt | qpe_false, blocks=inf_blocks)
                r4.check(wit is None, "infer-after-parse#%d" % outer_parse.index(pc), "a successfully parsed initial message always reaches infer before checkout / next message",
                         "a parsed initial message can reach the checkout without infer (role of the previous transaction is reused)", pc.where(), wit and h.describe_path(wit))


    # `an explicit SET SERVER ROLE wins`: the command switches the session's parser off (query_parser_enabled() == false) and that switch is what
    # keeps infer from overwriting the role the client asked for - every routing inference of the idle loop is reached only over the true
    # edge of query_parser_enabled() (statement_parsing_enabled() is also true when only the plugins want the AST)
    if h and gets and claim:
        qpe_true, _, _ = call_bool_edges(h, "pgcat::query_router::QueryRouter::query_parser_enabled", switches_cache=hsw)
        pre_inf = [c for c in h.calls(*infer_like) if not h.dominates(claim[0].block, c.block)]
        rd_t = [c.target for c in h.calls("pgcat::messages::read_message") if not h.dominates(claim[0].block, c.block) and c.target is not None]
        r4.check(len(pre_inf) >= 3, "inference-sites", "%d routing inferences before the checkout (Q, P and B arms)" % len(pre_inf), "expected the routing inferences of the Q, P and B arms before the checkout, found %d" % len(pre_inf))
        for c in pre_inf:
            wit = h.uncrossed_path(rd_t, [c.block], edges=qpe_true)
            r4.check(bool(qpe_true) and wit is None, "explicit-role-kept@%s#%d" % (c.name.split("::")[-1], pre_inf.index(c)), "%s runs only where query_parser_enabled() answered true (a session that set its role explicitly is not re-inferred)" % c.name.split("::")[-1],
                     "%s can run although the session switched the parser off with SET SERVER ROLE (e.g. when only the plugins ask for the AST): the role the client set explicitly is overwritten by the inferred one, "
                     "and stays overwritten" % c.name.split("::")[-1], c.where(), wit and h.describe_path(wit))

    # between the routing decision (infer / SET SERVER ROLE, both taken when the message is read) and the checkout, nothing writes the role
    if h:
        role_writers = set()
        for n_, b_ in F.bodies.items():
            if n_.startswith("pgcat::query_router::QueryRouter::") and "::{" not in n_ and any(proj_fields(st["lhs"])[-1:] == ["active_role"] for blk, i, st in b_.assigns()):
                role_writers.add(n_)
        # transitive: methods that call a writer
        changed = True
        while changed:
            changed = False
            for n_, b_ in F.bodies.items():
                if n_.startswith("pgcat::query_router::QueryRouter::") and "::{" not in n_ and n_ not in role_writers and b_.calls(*sorted(role_writers)):
                    role_writers.add(n_)
                    changed = True
        gets_ = h.calls(GET)
        gp_ = h.calls("pgcat::client::Client::get_pool")
        if gets_ and gp_:
            # the region between the per-transaction pool refresh and the checkout
            rm__ = [c.block for c in h.calls("pgcat::messages::read_message")]
            fwd_ = set()
            # the refresh right before the checkout: the last get_pool that dominates it (since D61 the pool is also re-resolved when the message
            # is read, before the routing decision - that one is not the region's start)
            dom_ = [g_ for g_ in gp_ if h.dominates(g_.block, gets_[0].block) and g_.target is not None]
            last_ = [g_ for g_ in dom_ if not any(o_ is not g_ and h.dominates(g_.block, o_.block) for o_ in dom_)]
            for g_ in last_:
                fwd_ |= set(h.reach([g_.target], avoid_blocks=rm__ + [gets_[0].block]))
            bwd_ = set(h.backreach([gets_[0].block], avoid_blocks=rm__))
            between = [c for c in h.calls(*sorted(role_writers)) if c.block in fwd_ and c.block in bwd_]
            # ... and from the routing decision itself: what follows an inference (or the command handler) on the way to the checkout, within the same
            # message, writes the role no more - whatever the inference returned (its Err reports a shard problem, the role it set for a write stands)
            claim__ = h.calls("pgcat::server::Server::claim")
            decided = [c for c in h.calls(*infer_like) + h.calls("pgcat::client::Client::handle_custom_protocol") if c.target is not None and not (claim__ and h.dominates(claim__[0].block, c.block))]
            fwd2_ = set(h.reach([c.target for c in decided], avoid_blocks=rm__ + [gets_[0].block])) if decided else set()
            infer_blocks_ = {c.block for c in h.calls(*infer_like)}
            between += [c for c in h.calls(*sorted(role_writers)) if c.block in fwd2_ and c.block in bwd_ and c.block not in infer_blocks_ and c not in between]
            r4.check(not between, "role-stable-until-checkout", "no QueryRouter method that writes the role is called between the pool refresh and the checkout (writers: %s)" % sorted(x.split("::")[-1] for x in role_writers),
                     "%s is called after the routing decision and right before ConnectionPool::get: the role inferred for this message (or set with SET SERVER ROLE) is overwritten - a write goes to a replica when the pool's default role says so"
                     % sorted({c.name.split("::")[-1] for c in between}), between[0].where() if between else "")

    # ---------------- R7 (D22) one batch, one server: a write anywhere in the pipelined batch decides
    r7 = ctx.rule("C05-R7", "the role of an extended-protocol batch (checked out when its Sync arrives) is not decided by its last Parse alone: the routine that infers the role for a Parse buffered before the checkout "
                  "keeps a primary decision of an earlier Parse of the same batch", floor=3)
    if h:
        rm_ = [c.block for c in h.calls("pgcat::messages::read_message")]
        heads_ = [hd for hd in loop_headers(h) if any(b_ in natural_loop(h, hd) for b_ in rm_)]
        claim_ = h.calls("pgcat::server::Server::claim")
        bp = [c for c in h.calls("pgcat::client::Client::buffer_parse") if claim_ and not h.dominates(claim_[0].block, c.block)]
        pre = [c for c in h.calls(*infer_like) if bp and claim_ and not h.dominates(claim_[0].block, c.block) and any(bpc.block in h.reach([c.block], avoid_blocks=heads_) for bpc in bp)]
        if not bp or not pre:
            r7.missing("infer for a Parse that is buffered before the checkout (idle loop of Client::handle)")
        else:
            for c in pre:
                if c.name == INFER:
                    r7.check(False, "batch-sticky:" + c.name.split("::")[-1], "", "the idle loop infers the role anew at every buffered Parse and the last one wins: `Parse(INSERT ..) Bind Execute Parse(SELECT 1) Bind Execute Sync` "
                             "runs - INSERT included - on a replica", c.where())
                    continue
                wb = F.body(c.name)
                ic = wb.calls(INFER)
                # a primary decision read before infer() ...
                pre_reads = [bb for bb, blk in enumerate(wb.blocks) for st in blk["stmts"] if st["k"] == "assign" and st["rv"]["k"] == "discr" and "active_role" in proj_fields(st["rv"]["pl"]) and all(k.block in wb.reach([bb]) and bb != k.block and (k.target is None or bb not in wb.reach([k.target])) for k in ic)]
                # ... re-established after it
                post = [blk for blk, i, st in wb.assigns() if proj_fields(st["lhs"])[-1:] == ["active_role"] and any(blk in wb.reach([k.target]) for k in ic if k.target is not None)
                        and is_some_primary(wb, st["rv"].get("op") or (st["rv"].get("ops") or [None])[0])]
                guards = set()
                for blk in post:
                    for sb, t in wb.control_deps(blk, depth=3):
                        guards |= set(cond_locals(wb, sb))
                flag_from_read = False
                for l in guards:
                    for d_ in [blk2 for blk2, i2, st2 in wb.assigns() if st2["lhs"]["l"] == l and not st2["lhs"]["p"]]:
                        if any(wb.dominates(r_, d_) for r_ in pre_reads):
                            flag_from_read = True
                r7.check(bool(pre_reads) and bool(post) and flag_from_read, "batch-sticky:" + c.name.split("::")[-1],
                         "%s reads the role before infer() and re-establishes Some(Primary) after it when it was primary" % c.name.split("::")[-1],
                         "%s does not keep an earlier primary decision across infer(): the last Parse of a batch decides where all of it runs" % c.name.split("::")[-1], c.where())
                # the caller says whether an earlier Parse of this batch exists, from the buffered batch
                argf = set()
                for a in c.args[1:]:
                    for o in origins(h, a, taint=True):
                        if o.kind in ("place", "param"):
                            argf.update(p_[1:] for p_ in o.proj if p_.startswith(".") and not p_[1:].isdigit())
                        if o.kind == "agg" and o.extra.get("agg") == "closure":
                            argf.add("closure")
                r7.check("extended_protocol_data_buffer" in argf, "batch-known-from-buffer", "the caller derives `an earlier Parse is buffered` from extended_protocol_data_buffer", "the batch-stickiness flag is not derived from the buffered batch (%s)" % sorted(argf), c.where())
            r7.check(len(bp) >= 1, "buffered-parse-site", "%d site(s) buffer a Parse before the checkout" % len(bp), "no buffered Parse before the checkout")
    # ---------------- R8 (D47) a batch that only executes a statement prepared earlier is routed for that statement
    r8 = ctx.rule("C05-R8", "`the decision is recomputed for each new transaction`: a batch made of Bind / Execute / Sync for a named statement prepared earlier contains no Parse, so the idle loop has to infer the role "
                  "from the stored statement when it buffers the Bind - otherwise the batch runs wherever the previous transaction's statement was routed (a prepared INSERT after a SELECT: on a replica)", floor=2)
    if h:
        rm8 = [c.block for c in h.calls("pgcat::messages::read_message")]
        heads8 = [hd for hd in loop_headers(h) if any(b_ in natural_loop(h, hd) for b_ in rm8)]
        claim8 = h.calls("pgcat::server::Server::claim")
        bb8_ = [c for c in h.calls("pgcat::client::Client::buffer_bind") if claim8 and not h.dominates(claim8[0].block, c.block)]
        if not bb8_:
            r8.missing("buffer_bind before the checkout (idle loop of Client::handle)")
        else:
            pre8 = [c for c in h.calls(*infer_like) if not h.dominates(claim8[0].block, c.block) and any(b_.block in h.reach([c.block], avoid_blocks=heads8) for b_ in bb8_)]
            r8.check(bool(pre8), "bind-of-prepared-statement=>role-inferred", "the idle loop infers the role (%s) before it buffers a Bind" % sorted({c.name.split("::")[-1] for c in pre8}),
                     "the idle loop buffers a Bind without inferring anything: `Bind w / Execute / Sync` for a statement prepared earlier is checked out with the role the last inferred statement left behind - "
                     "with the statement cache on, a prepared INSERT executed after a SELECT is prepared and run on a replica", bb8_[0].where())
            for c in pre8:
                # what is inferred is a statement text pgcat keeps for the name (not the Bind message, which has no SQL in it)
                srcs = set()
                for o in origins(h, c.args[1], taint=True):
                    if o.kind == "call":
                        srcs.add(o.call.name)
                r8.check("pgcat::query_router::QueryRouter::parse" in srcs and any(n_.startswith("pgcat::client::Client::") for n_ in srcs), "inferred-from-the-stored-statement",
                         "the inferred AST is parsed from what Client keeps for the bound name (%s)" % sorted(n_.split("::")[-1] for n_ in srcs if n_.startswith("pgcat::client::Client::")),
                         "the AST inferred at Bind time does not come from the statement stored for the bound name (%s)" % sorted(srcs), c.where())
                # the look-up of the stored statement gives up only for reasons that mean `there is nothing to infer from`: caching off, a name pgcat does not
                # know, a statement parsed in this very batch (looked at already). Any other refusal leaves a prepared statement un-inferred (round 6:
                # the unnamed statement, parsed in one batch and bound in a later one)
                for hn in sorted(n_ for n_ in srcs if n_.startswith("pgcat::client::Client::")):
                    hb = F.body(hn)
                    if hb is None or "Option<" not in hb.locals[0]["ty"]:
                        continue
                    nones = [blk for blk, i, st in hb.assigns() if st["lhs"]["l"] == 0 and not st["lhs"]["p"] and st["rv"]["k"] == "agg" and st["rv"].get("variant") == "None"]
                    nones += [k.block for k in hb.calls("re:FromResidual<.*>>::from_residual$") if k.dest["l"] == 0]
                    odd = []
                    for nb in nones:
                        for sb, t in hb.direct_control_deps(nb):
                            os_ = origins(hb, hb.blocks[sb]["term"]["op"], taint=True)
                            calls_ = {strip_generics(o.call.name) for o in os_ if o.kind == "call"}
                            flds_ = {p_[1:] for o in os_ if o.kind in ("place", "param") for p_ in o.proj if p_.startswith(".") and not p_[1:].isdigit()}
                            ok_src = ("prepared_statements_enabled" in flds_ and not calls_) or any(re.search(r"HashMap::get$|Iterator::any$|Bind::get_name$|Try>::branch$", n2) for n2 in calls_) and not any(re.search(r"is_empty$|PartialEq.*::eq$|::len$|starts_with$", n2) for n2 in calls_)
                            if not ok_src:
                                odd.append("%s (%s)" % (hb.blocks[sb]["term"].get("span", "bb%d" % sb), sorted(x.split("::")[-1] for x in calls_) or sorted(flds_)))
                    r8.check(not odd, "stored-statement-lookup-refuses-only-unknown-names:" + hn.split("::")[-1], "%s answers None only when caching is off, the name is unknown, or the statement was parsed in this batch" % hn.split("::")[-1],
                             "%s gives up for another reason (%s): a statement that was prepared in an earlier batch - e.g. the unnamed one - is bound without being inferred and runs where the previous statement went" % (hn.split("::")[-1], "; ".join(odd[:3])))
                if c.name != INFER:
                    argf = set()
                    for a in c.args[2:]:
                        for o in origins(h, a, taint=True):
                            if o.kind in ("place", "param"):
                                argf.update(p_[1:] for p_ in o.proj if p_.startswith(".") and not p_[1:].isdigit())
                            if o.kind == "agg" and o.extra.get("agg") == "closure":
                                argf.add("closure")
                    r8.check("extended_protocol_data_buffer" in argf or "closure" in argf, "bind-batch-known-from-buffer", "`an earlier statement of this batch exists` is derived from the buffered batch", "the batch-stickiness flag at Bind time is not derived from the buffered batch (%s)" % sorted(argf), c.where())
    # both arms that infer for a batch ask the same question about the batch: since a Bind of a prepared statement is inferred too (D47), `an earlier statement
    # of this batch was inferred` means an earlier Parse *or* Bind - a predicate that looks for Parse only lets `Bind w(rite); Execute; Parse r(ead) ..` move to a replica
    if h:
        claim9 = h.calls("pgcat::server::Server::claim")
        kinds = {}
        for c in h.calls(*infer_like):
            if c.name == INFER or not claim9 or h.dominates(claim9[0].block, c.block) or len(c.args) < 3:
                continue
            for o in origins(h, c.args[2], taint=True):
                if o.kind == "agg" and o.extra.get("agg") == "closure":
                    cb = F.body(strip_generics(o.extra["def"]))
                    if cb is None:
                        continue
                    acc = set()
                    for sw in switches(cb):
                        d_ = sw.discr()
                        if d_ and d_[0].endswith("messages::ExtendedProtocolData"):
                            for v_, t_ in d_[2].items():
                                if t_ == d_[3]:
                                    continue
                                reach_ = cb.reach([t_])
                                if any(st["lhs"]["l"] == 0 and st["rv"]["k"] == "use" and const_int(st["rv"]["op"]) == 1 for b_ in reach_ for st in cb.blocks[b_]["stmts"] if st["k"] == "assign") and \
                                   not any(st["lhs"]["l"] == 0 and st["rv"]["k"] == "use" and const_int(st["rv"]["op"]) == 0 for b_ in reach_ for st in cb.blocks[b_]["stmts"] if st["k"] == "assign"):
                                    acc.add(v_)
                    kinds[c.where()] = acc
        if kinds:
            want = set().union(*kinds.values())
            for k9, (w_, acc) in enumerate(sorted(kinds.items(), key=lambda kv: int(re.search(r"bb(\d+)", kv[0]).group(1)) if re.search(r"bb(\d+)", kv[0]) else 0), 1):
                r8.check(acc == want and {"Parse"} <= acc, "batch-predicates-agree#%d" % k9, "the batch-stickiness predicate counts %s" % sorted(acc),
                         "the batch-stickiness predicates of the idle loop disagree (%s here, %s elsewhere): an inferred statement kind that one arm ignores can be overruled by a later statement of the same batch" % (sorted(acc), sorted(want)), w_)
    # ---------------- R5 role filter
    r5 = ctx.rule("C05-R5", "ConnectionPool::get only considers servers whose role matches the requested role (None = any); the candidate list is afterwards only shuffled, narrowed, sorted or popped", floor=3)
    g = ctx.body(GETC, r5)
    if g:
        filt = g.calls("core::iter::traits::iterator::Iterator::filter")
        okf = False
        for fc in filt:
            for o in origins(g, fc.args[1]):
                if o.kind == "agg" and o.extra.get("agg") == "closure":
                    cb = F.body(strip_generics(o.extra["def"]))
                    if cb and cb.calls(ROLE_OPT_EQ):
                        ec = cb.calls(ROLE_OPT_EQ)[0]
                        a0 = {tuple(p for p in oo.proj if p.startswith(".")) for oo in origins(cb, ec.args[0]) if oo.kind in ("place", "param")}
                        okf = any(t and t[-1] == ".role" for t in a0)
                        # second operand: the captured `role` parameter of get
                        up = [oo for oo in origins(cb, ec.args[1]) if oo.kind in ("place", "param") and oo.what == 1]
                        okf = okf and bool(up)
                        # the closure's value is exactly that comparison (no `|| other` disjunct)
                        d0 = cb.defs().get(0, [])
                        okf = okf and len(d0) == 1 and d0[0][0] == "call" and d0[0][2].block == ec.block
        r5.check(okf, "filter:role", "candidates = addresses.filter(address.role == requested role)", "the candidate list is no longer filtered by `address.role == role` (a server of the wrong role can be substituted)")
        eqb = ctx.body(ROLE_OPT_EQ, r5)
        if eqb:
            sw_ = [s_ for s_ in switches(eqb) if s_.discr()]
            shape = False
            if sw_:
                dd = sw_[0].discr()
                none_t, some_t = dd[2].get("None"), dd[2].get("Some")
                if none_t is not None and some_t is not None:
                    none_reach = eqb.reach([none_t])
                    none_true = any(st["k"] == "assign" and st["lhs"]["l"] == 0 and const_int(st["rv"].get("op")) == 1 for b_ in none_reach for st in eqb.blocks[b_]["stmts"])
                    none_false = any(st["k"] == "assign" and st["lhs"]["l"] == 0 and const_int(st["rv"].get("op")) == 0 for b_ in none_reach for st in eqb.blocks[b_]["stmts"])
                    some_reach = eqb.reach([some_t])
                    some_eq = [c for c in eqb.calls("<pgcat::config::Role as core::cmp::PartialEq>::eq") if c.block in some_reach and c.dest["l"] == 0]
                    some_const = any(st["k"] == "assign" and st["lhs"]["l"] == 0 and const_int(st["rv"].get("op")) is not None for b_ in some_reach - none_reach for st in eqb.blocks[b_]["stmts"])
                    shape = none_true and not none_false and bool(some_eq) and not some_const
            r5.check(shape, "role-eq-shape", "Role == Option<Role>: None => true, Some(r) => derived Role == Role", "`impl PartialEq<Option<Role>> for Role` no longer has the shape None=>true / Some(r)=>self==r")
        # mutators of candidates
        cand = g.locals_named("candidates")
        if not cand:
            r5.missing("local `candidates` in ConnectionPool::get")
        else:
            cl = cand[0]
            allowed = ("re:shuffle$", "re:^alloc::vec::Vec::(retain|pop|is_empty|len)$", "re:slice::<impl \\[T\\]>::sort_by$", "re:DerefMut>::deref_mut$", "re:Deref>::deref$")
            bad = []
            for c in g.calls():
                for a in c.args:
                    vis = set()
                    origins(g, a, visited=vis)
                    if cl in vis and not c.is_(*allowed):
                        # calls that only read through & are fine; flag &mut receivers
                        mut = any(o.kind == "place" for o in [])
                        if any(st_["rv"].get("mut") for l_ in vis for d_ in g.defs().get(l_, []) if d_[0] == "assign" for st_ in [d_[3]] if st_["rv"]["k"] == "ref" and st_["rv"]["pl"]["l"] == cl):
                            bad.append(c)
            pushes = [c for c in bad if re.search(r"push|insert|extend|append", c.name)]
            r5.check(not pushes, "candidates-mutators", "candidates is never extended after the role filter", "candidates is extended after the role filter by %s" % [c.name for c in pushes], pushes[0].where() if pushes else "")
            # writes of a fresh collection into candidates after the filter
            cdefs = g.defs().get(cl, [])
            r5.check(len(cdefs) == 1, "candidates-single-def", "candidates is assigned once (the filtered collection)", "candidates is re-assigned (%d definitions)" % len(cdefs))

    # ---------------- R6 SET SERVER ROLE table
    r6 = ctx.rule("C05-R6", "SET SERVER ROLE literal -> (active_role, query_parser_enabled) table", floor=5)
    tec = ctx.body(TEC, r6)
    if tec:
        tsw = switches(tec)
        ref = {"primary": ({"Some(Primary)"}, 0), "replica": ({"Some(Replica)"}, 0), "any": ({"None"}, 0), "auto": ({"None"}, 1), "default": (None, None)}
        eqs = tec.calls("re:^core::str::traits::<impl core::cmp::PartialEq for str>::eq$")
        found = {}
        # only the comparisons inside the SetServerRole arm of `match command` (other SET commands have keywords of their own, e.g. `default`)
        armE, _, _ = discr_edges(tec, r"pgcat::query_router::Command", "SetServerRole", switches_cache=tsw)
        arm_blocks = set()
        for _, d_ in armE:
            arm_blocks |= {b_ for b_ in tec.reach([d_]) if tec.dominates(d_, b_)}
        if not arm_blocks:
            r6.missing("SetServerRole arm of `match command` in try_execute_command")
        for c in eqs:
            if c.block not in arm_blocks:
                continue
            lits = arg_strs(tec, c) & set(ref)
            if len(lits) != 1:
                continue
            lit = list(lits)[0]
            es = [(te, fe) for sw2, o, te, fe in bool_value_edges(tec, lambda o: o.kind == "call" and o.call.block == c.block, tsw)]
            if not es:
                continue
            found[lit] = (c, es[0][0])
        for lit in ref:
            if lit not in found:
                r6.fail("literal:" + lit, "SET SERVER ROLE no longer recognises '%s'" % lit)
        if ctx.tier == "thorough" or True:
            for lit, (c, te) in found.items():
                region = {b_ for b_ in tec.reach([te[1]]) if tec.dominates(te[1], b_)}
                roles = set()
                qpe = set()
                for blk, i, st in tec.assigns():
                    if blk not in region:
                        continue
                    fs = proj_fields(st["lhs"])
                    rv = st["rv"]
                    if fs and fs[-1] == "query_parser_enabled" and rv["k"] in ("use", "agg"):
                        if rv["k"] == "agg":
                            qpe.add("None" if rv["variant"] == "None" else "Some(%s)" % const_int(rv["ops"][0]))
                        else:
                            for o in origins(tec, rv["op"]):
                                if o.kind == "agg":
                                    qpe.add("None" if o.extra["variant"] == "None" else "Some(%s)" % const_int(o.extra["ops"][0]))
                    if rv["k"] == "agg" and rv.get("agg") == "adt" and "option::Option" in rv["adt"] and "config::Role" in rv.get("tyargs", ""):
                        if rv["variant"] == "None":
                            roles.add("None")
                        else:
                            inner = {oo.extra["variant"] for oo in origins(tec, rv["ops"][0]) if oo.kind == "agg" and str(oo.what).endswith("config::Role")}
                            roles |= {"Some(%s)" % x for x in inner} or {"Some(?)"}
                    if fs and fs[-1] == "active_role" and rv["k"] == "use":
                        for oo in origins(tec, rv["op"]):
                            if oo.kind == "place" and oo.proj and oo.proj[-1].startswith(".") and oo.what == 1:
                                roles.add("field:" + oo.proj[-1][1:])
                exp_roles, exp_q = ref[lit]
                if lit == "default":
                    ok = "field:default_role" in roles and qpe == {"None"}
                    r6.check(ok, "row:default", "default -> (pool default_role, parser override cleared)", "SET SERVER ROLE TO 'default' maps to roles=%s parser=%s" % (sorted(roles), sorted(qpe)), c.where())
                else:
                    ok = exp_roles <= roles and not (roles - exp_roles - {"field:active_role"}) and qpe == {"Some(%d)" % exp_q}
                    r6.check(ok, "row:" + lit, "%s -> (%s, query_parser_enabled=Some(%s))" % (lit, sorted(exp_roles), bool(exp_q)),
                             "SET SERVER ROLE TO '%s' maps to roles=%s parser=%s (expected %s, Some(%d))" % (lit, sorted(roles), sorted(qpe), sorted(exp_roles), exp_q), c.where())

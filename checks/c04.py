"""C04 — server connections are bounded by pool_size, never leaked; waiters are served.
bb8 enforces the bound and the queue (library, not decided); decided is that pgcat configures and uses
bb8 so that the bound can hold and no guard leaks."""
from mirlib import *
from common import cancelled_io_findings, completed_request_release_findings

H = "pgcat::client::Client::handle::{closure#0}"
FROM_CONFIG = "pgcat::pool::ConnectionPool::from_config::{closure#0}"
MIRROR_POOL = "pgcat::mirrors::MirroredClient::create_pool::{closure#0}"
GET = "pgcat::pool::ConnectionPool::get"


def fields_of(body, op, taint=False):
    return {p[1:] for o in origins(body, op, taint=taint) if o.kind in ("place", "param") for p in o.proj if p.startswith(".") and not p[1:].isdigit()}


def run(ctx):
    F = ctx.facts
    ctx.explanation = ("provenance of the arguments of every bb8 builder call that creates a server pool, escape/type facts about PooledConnection guards, "
                       "the guard being dropped on every path back to the idle loop, and the checkout-failure arm keeping the client usable")
    ctx.assumptions = ["bb8 0.8.6 never creates more than max_size connections per Pool, queues waiters fairly and honours connection_timeout (library, trusted)",
                       "rustc's drop elaboration drops a local guard on every exit including unwinding (given that it is neither moved out nor forgotten, which R2 checks)"]
    # ---------------- R1
    r1 = ctx.rule("C04-R1", "every bb8 pool of server connections is built with max_size = the user's pool_size (mirrors: 1) and a connect timeout from the configuration; one pool per (shard, server)", floor=5)
    builds = list(F.all_calls("re:^bb8::api::Builder::(build|build_unchecked)$"))
    sites = sorted({c.body.name for c in builds})
    r1.check(set(sites) == {FROM_CONFIG, MIRROR_POOL}, "build-sites", "bb8 pools are built in from_config and MirroredClient::create_pool only", "bb8 build sites: %s" % sites)
    fc = ctx.body(FROM_CONFIG, r1)
    if fc:
        ms = fc.calls("re:^bb8::api::Builder::max_size$")
        if not ms:
            r1.missing("Builder::max_size in from_config")
        else:
            fl = fields_of(fc, ms[0].args[1])
            os_ = origins(fc, ms[0].args[1])
            arith = [o for o in os_ if o.kind in ("bin", "un") or (o.kind == "call" and not re.search(r"Iterator>::next$|::get_config$|::values$|::iter$|into_iter$", o.call.name))]
            r1.check(fl & {"pool_size"} and not arith and not any(o.kind == "const" for o in os_), "max_size=pool_size", "max_size receives user.pool_size unchanged", "max_size receives %s %s (not the plain user.pool_size): more server connections than configured can be opened" % (sorted(fl), [str(o.what) for o in arith][:3]), ms[0].where())
            # every build in from_config uses a builder that passed max_size
            for c in [c for c in builds if c.body is fc]:
                thr = []
                origins(fc, c.args[0], through=thr)
                srcs = {o.call.name.split("::")[-1] for o in origins(fc, c.args[0], taint=True) if o.kind == "call"}
                r1.check("max_size" in srcs and "connection_timeout" in srcs, "builder-chain:%s" % c.name.split("::")[-1], "%s() is called on a builder configured with max_size and connection_timeout" % c.name.split("::")[-1], "a pool is built from a builder without max_size/connection_timeout (bb8 defaults would apply)", c.where())
        ct = fc.calls("re:^bb8::api::Builder::connection_timeout$")
        r1.check(bool(ct) and "connect_timeout" in fields_of(fc, ct[0].args[1], taint=True), "connect-timeout", "connection_timeout derives from connect_timeout (user, pool or general)", "connection_timeout does not derive from the configured connect_timeout")
        # one pool pushed per server iteration: the push of the built pool is in the servers loop, once
        pushes = [c for c in fc.calls("re:^alloc::vec::Vec::push$") if any(o.kind == "call" and re.search(r"Builder::(build|build_unchecked)$", o.call.name) for o in origins(fc, c.args[1], taint=True))]
        r1.check(len(pushes) == 1, "one-pool-per-server", "exactly one push of a built pool per server iteration", "%d pushes of built pools" % len(pushes))
    # ... and a pool that a reload keeps is one that was built with this pool_size: the identity compared covers the users of the section (round 11; the
    # struct-level clauses - Hash for User feeds every field - are C14-R3's, shared)
    from common import kept_pool_identity_findings, definition_identity_findings
    kp = kept_pool_identity_findings(F)
    if kp is None:
        r1.missing("the comparison of config_hash with the new identity in from_config")
    for key, ok, okmsg, failmsg, where in kp or []:
        r1.check(ok, key, okmsg, failmsg, where)
    for key_, ok_, okm_, fm_ in definition_identity_findings(F):
        if key_ in ("Hash:User", "Hash:Pool", "hash_value:as-is"):
            r1.check(ok_, "kept-pool-identity:" + key_, okm_, fm_ + " - a reload that changes pool_size only would keep the bb8 pool with the old max_size")
    mp = ctx.body(MIRROR_POOL, r1)
    if mp:
        ms = mp.calls("re:^bb8::api::Builder::max_size$")
        r1.check(bool(ms) and const_int(ms[0].args[1]) is not None, "mirror:max_size-const", "mirror pools have a constant max_size (%s)" % (ms and const_int(ms[0].args[1])), "mirror pool max_size is not a constant")
    # connections that bypass max_size
    byp = sorted({c.where() for c in F.all_calls("re:^bb8::api::Pool::(dedicated_connection|add|get_owned)$")})
    r1.check(not byp, "no-unbounded-connections", "no bb8 dedicated_connection()/add()/get_owned(): every pooled server connection is created by bb8 under max_size", "server connections are created outside bb8's max_size accounting: %s" % byp[:2])
    direct = sorted({c.body.name for c in F.all_calls("re:ManageConnection>::connect$", "pgcat::server::Server::startup")} - {"<pgcat::pool::ServerPool as bb8::api::ManageConnection>::connect::{closure#0}", "pgcat::server::Server::exec_simple_query::{closure#0}"})
    r1.check(not direct, "connect-only-via-bb8", "Server::startup is called only by ServerPool::connect (bb8) and the out-of-band auth query", "server connections are opened directly in %s" % direct)
    # ---------------- R2 guards do not escape
    r2 = ctx.rule("C04-R2", "a checked-out connection (PooledConnection) lives only in locals of the checkout path: no struct field, static, spawned task or forget can hold it", floor=4)
    bad = []
    for n_, a in F.adts.items():
        if a.get("local"):
            for v in a["variants"]:
                for f in v["fields"]:
                    if "PooledConnection" in f["ty"]:
                        bad.append("%s.%s" % (n_, f["name"]))
    r2.check(not bad, "no-field", "no struct/enum field has a type containing PooledConnection", "guards can be stored in %s" % bad)
    r2.check(not [n for n, s_ in F.statics.items() if "PooledConnection" in s_["ty"]], "no-static", "no static holds a guard", "a static holds a guard")
    holders = sorted({n for n, b in F.bodies.items() if any("bb8::api::PooledConnection" in d["ty"] for d in b.locals)})
    exp = {"pgcat::pool::ConnectionPool::get::{closure#0}", H, "pgcat::pool::ConnectionPool::validate::{closure#0}::{closure#0}", "pgcat::mirrors::MirroredClient::start::{closure#0}"}
    # helper closures of tokio::select! inside the mirror task see the guard by reference
    extra = [n for n in holders if n not in exp and not any(n.startswith(e + "::") or e.startswith(n + "::") for e in exp)]
    r2.check(not extra, "guard-holders", "guards appear only in ConnectionPool::get, Client::handle, validate and the mirror task", "guards also appear in %s" % extra)
    leaks = [c.where() for c in F.all_calls("re:^core::mem::forget$", "re:ManuallyDrop.*::new$", "re:^alloc::boxed::Box.*::leak$", "re:^alloc::sync::Arc::new$", "re:^alloc::rc::Rc::new$") if any("PooledConnection" in t for t in c.targs)]
    r2.check(not leaks, "no-forget-or-share", "no forget/ManuallyDrop/leak/Arc of a guard", "guard leaked or shared at %s" % leaks)
    sp = [c.where() for c in F.all_calls("re:^tokio::task::spawn::spawn$", "re:^tokio::runtime::.*spawn") if any("PooledConnection" in t for t in c.targs)]
    r2.check(not sp, "no-spawn-capture", "no spawned task captures a guard obtained elsewhere", "a spawned task captures a guard: %s" % sp)
    # ---------------- R3 no guard across the idle wait
    r3 = ctx.rule("C04-R3", "in Client::handle the guard is dropped on every path from the checkout back to the idle loop (it is never held while waiting for the client's next transaction)", floor=2)
    r4 = ctx.rule("C04-R4", "a failed checkout keeps the client: the error is reported and the idle loop continues, until the configured checkout_failure_limit", floor=2)
    h = ctx.body(H, r3)
    if h:
        hsw = switches(h)
        gets = h.calls(GET)
        rm = [c.block for c in h.calls("pgcat::messages::read_message")]
        heads = [hd for hd in loop_headers(h) if any(b_ in natural_loop(h, hd) for b_ in rm)]
        guard = h.locals_named("reference")
        if not gets or not heads or not guard:
            r3.missing("get / idle loop / guard local in handle")
        else:
            outer = min(heads)
            gdef = [d_[1] for d_ in h.defs().get(guard[0], [])]
            drops = [b for b, blk in enumerate(h.blocks) if blk["term"]["k"] == "drop" and blk["term"]["pl"]["l"] == guard[0] and not blk["term"]["pl"]["p"] and not blk["cleanup"]]
            wit = h.uncrossed_path(gdef, [outer], blocks=drops)
            r3.check(bool(drops) and wit is None, "drop-before-idle", "every path from the checkout to the next idle wait drops the guard (%d drop sites)" % len(drops), "the guard can be held across the idle wait: the server stays checked out while the client is between transactions", "", wit and h.describe_path(wit))
            # ... and the way back to the idle wait is taken as soon as a request is complete outside a transaction, also when pgcat answered it itself (D83)
            crr = completed_request_release_findings(F)
            if crr is None:
                r3.missing("transaction loop / message-code switch in handle")
            for key, ok, good, bad in crr or []:
                r3.check(ok, key, good, bad)
            # the guard is declared inside the loop: its definition is inside the idle loop body
            r3.check(all(b_ in natural_loop(h, outer) for b_ in gdef), "guard-scoped-to-iteration", "the guard is defined inside the idle-loop iteration", "the guard is defined outside the idle loop")
            # it is not moved anywhere else
            moved = []
            for b, p, how in all_places(h):
                pass
            mv = [(blk, st) for blk, i, st in h.assigns() if st["rv"]["k"] == "use" and st["rv"]["op"].get("c") == "move" and op_place(st["rv"]["op"])["l"] == guard[0] and not op_place(st["rv"]["op"])["p"]]
            cmv = [c for c in h.calls() if any(a.get("c") == "move" and op_place(a) and op_place(a)["l"] == guard[0] and not op_place(a)["p"] for a in c.args)]
            r3.check(not mv and not cmv, "guard-not-moved", "the guard is never moved out of its local", "the guard is moved (%s)" % [c.name for c in cmv])
            # ---------------- R4
            errE, okE, _ = discr_edges(h, r"core::result::Result<\(bb8::api::PooledConnection", "Err", origin_pred=lambda o: o.kind == "call" and o.call.name == GET, switches_cache=hsw)
            if not errE:
                r4.missing("Err arm of ConnectionPool::get in handle")
            else:
                reach = h.reach([d for _, d in errE])
                r4.check(outer in reach, "failure=>continue", "from the checkout-failure arm the idle loop is reachable (the client stays connected)", "a failed checkout always ends the client session")
                er = [c.block for c in h.calls("pgcat::messages::error_response") if c.block in reach]
                wit = h.uncrossed_path([d for _, d in errE], [outer], blocks=er)
                r4.check(bool(er) and wit is None, "failure=>error-reply", "the client is told about the failed checkout before the loop continues", "a failed checkout is not reported to the client")
                # returns from the failure arm: only through a failed client write (`?`) or the failure limit
                rets = [blk for blk, i, st in h.assigns() if st["lhs"]["l"] == 0 and not st["lhs"]["p"] and st["rv"]["k"] == "agg" and blk in h.reach([d for _, d in errE], avoid_blocks=[outer])]
                limE = set()
                for sw in hsw:
                    if not sw.is_bool():
                        continue
                    for o in sw.origins():
                        if o.kind == "bin" and o.what in ("Ge", "Gt", "Le", "Lt"):
                            fl = fields_of(h, o.extra["a"], taint=True) | fields_of(h, o.extra["b"], taint=True)
                            if "checkout_failure_limit" in fl:
                                te, fe = sw.bool_edges()
                                limE.add(te)
                                limE.add(fe)
                ok = all(h.uncrossed_path([d for _, d in errE], [blk], edges=limE, blocks=[outer]) is None for blk in rets)
                # a Sync whose checkout failed was answered with an error: the batch it closed is discarded on every way back to the idle loop,
                # whatever checkout_failure_limit says - a batch left behind is sent together with the next one
                notS = set()
                for sw in hsw:
                    if sw.is_bool():
                        for o in sw.origins():
                            if o.kind == "bin" and o.what in ("Eq", "Ne") and 83 in (const_int(o.extra["a"]), const_int(o.extra["b"])):
                                te, fe = sw.bool_edges()
                                if o.neg:
                                    te, fe = fe, te
                                notS.add(fe if o.what == "Eq" else te)
                rbs = [c.block for c in h.calls("pgcat::client::Client::reset_buffered_state")]
                witS = h.uncrossed_path([d for _, d in errE], [outer], blocks=rbs, edges=notS)
                r4.check(bool(rbs) and bool(notS) and witS is None, "failed-sync=>batch-discarded", "after a failed checkout for a Sync the buffered batch is discarded before the loop continues",
                         "a Sync whose checkout failed can go back to the idle loop with its batch still buffered (the discard depends on checkout_failure_limit): the refused Parse/Bind/Execute are sent with the client's next batch - "
                         "doubled replies, a statement the client was told had failed runs later, a refused BEGIN leaves an idle client pinning a pool slot", "", witS and h.describe_path(witS))
                r4.check(ok, "failure-return-only-at-limit", "explicit returns in the failure arm depend on checkout_failure_limit", "the failure arm returns without consulting checkout_failure_limit")

    # ---------------- R5 nothing keeps the guard past the end of the transaction
    r5 = ctx.rule("C04-R5", "the state that delays the release of the pooled connection cannot stick: Server.in_copy_mode, which the release test of Client::handle reads, is cleared on every way through the "
                  "CommandComplete and ErrorResponse arms of Server::recv and set only by the CopyIn/CopyOut/CopyBoth responses", floor=4)
    from common import copy_mode_findings
    for key, ok, where, wit in copy_mode_findings(F):
        if ok is None:
            r5.missing(key)
        else:
            r5.check(ok, key, "copy mode: %s" % key, {
                "copy-ends": "a COPY that ends this way leaves in_copy_mode set: the release test `transaction_mode && !server.in_copy_mode()` stays false after ReadyForQuery, the idle client keeps the pooled connection and waiters starve",
                "copy-starts": "in_copy_mode is set outside the CopyInResponse/CopyOutResponse/CopyBothResponse arms",
                "copy-flag-writers": "in_copy_mode is written outside Server::recv: " + where}.get(key.split(":")[0], key), where, wit)
    if h:
        hsw = switches(h)
        Tc, Fc, _ = call_bool_edges(h, "pgcat::server::Server::in_copy_mode", switches_cache=hsw)
        r5.check(bool(Fc), "release-reads-copy-mode", "the release test in Client::handle reads Server::in_copy_mode()", "Client::handle no longer reads in_copy_mode() (rule needs re-anchoring)")

    # ---------------- R6 the checkout path cannot lock itself up (round 6)
    r6 = ctx.rule("C04-R6", "clients beyond capacity wait and are served: no pgcat function takes a lock of a shared structure (ban list, pool tables, cancel map, statistics) again while it still holds a named guard of the same lock "
                  "- parking_lot locks are not re-entrant, `read()` followed by `write()` blocks the thread for ever and the queued writer blocks every later checkout", floor=1)
    from common import reentrant_lock_findings
    found, nguards = reentrant_lock_findings(F)
    for fn, fld, w1, w2, kinds in found:
        r6.fail("reentrant-lock:%s@%s" % (fld, fn.replace("::{closure#0}", "").split("::")[-1]), "%s takes `%s.%s()` while its guard from `%s.%s()` is still alive: the thread waits for itself (in try_unban: once every replica of a shard is banned - "
                "which plain saturation produces - the next checkout hangs, and with it everybody who touches the ban list)" % (fn.split("::")[-1], fld, kinds[1], fld, kinds[0]), w2)
    r6.check(True, "guards-scanned", "%d named lock guards scanned, %d re-acquisitions under a live guard" % (nguards, len(found)), "")

    # ---------------- R7 a connect attempt cannot keep its slot for ever (D56)
    r7 = ctx.rule("C04-R7", "`after any history the full pool_size capacity is available again`: bb8 counts a connect attempt against max_size until the attempt ends, and bounds only the *wait* of the caller - "
                  "so the attempt itself (ServerPool::connect: TCP connect, startup packet, authentication, up to ReadyForQuery) runs under a timeout taken from the configuration", floor=1)
    cb7 = ctx.body("<pgcat::pool::ServerPool as bb8::api::ManageConnection>::connect::{closure#0}", r7)
    if cb7:
        st7 = cb7.calls("pgcat::server::Server::startup")
        to7 = cb7.calls("re:^tokio::time::timeout::timeout$")
        def future_of(t, call):
            """the future handed to timeout t is the future `call` returned, possibly inside wrappers that are futures themselves (catch_unwind, AssertUnwindSafe,
            into_future, combinators) - not something computed from its awaited result"""
            work, n_ = [t.args[1]], 0
            while work and n_ < 40:
                n_ += 1
                for o in origins(cb7, work.pop()):
                    if o.kind == "call":
                        if o.call.block == call.block:
                            return True
                        if re.search(r"catch_unwind$|into_future$|Pin<.*>::new(_unchecked)?$|Box<.*>::pin$|FutureExt::\w+$|TryFutureExt::\w+$", o.call.name):
                            work.extend(o.call.args)
                    elif o.kind == "agg":
                        work.extend(o.extra.get("ops", []))
            return False
        if not st7:
            r7.missing("Server::startup in ServerPool::connect")
        else:
            wrapped = [t for t in to7 if future_of(t, st7[0])]
            dur_f = set()
            for t in wrapped:
                for o in origins(cb7, t.args[0], taint=True):
                    if o.kind in ("place", "param"):
                        dur_f |= {p_[1:] for p_ in o.proj if p_.startswith(".") and not p_[1:].isdigit()}
            r7.check(bool(wrapped) and "connect_timeout" in dur_f, "startup-under-connect-timeout", "Server::startup is the future given to timeout(connect_timeout)",
                     "Server::startup has no deadline: a server that accepts the TCP connection and then says nothing keeps the attempt - and its slot of the pool - for ever; "
                     "with pool_size = 1 every later checkout times out, also after the server has recovered", st7[0].where())

    # ... the whole attempt: everything connect() awaits that talks to the server - the startup, the prewarmer's queries - is the future of a timeout (D86: the
    # prewarm queries ran with no deadline; a server that completed the startup and then said nothing kept the slot for ever)
    if cb7:
        io_roots = ("pgcat::server::Server::recv::{closure#0}", "pgcat::server::Server::send::{closure#0}", "pgcat::server::Server::startup::{closure#0}")
        to7b = cb7.calls("re:^tokio::time::timeout::timeout$")
        talks = []
        for c in cb7.calls():
            if not c.name.startswith("pgcat::") or c.name.endswith("}"):
                continue
            if not any(r_ in F.reachable_fns([c.name, c.name + "::{closure#0}"]) for r_ in io_roots):
                continue
            talks.append(c)
        for c in talks:
            under = any(future_of(t, c) for t in to7b if len(t.args) > 1)
            r7.check(under, "attempt-io-under-a-timeout:" + c.name.split("::")[-1] + "@" + c.name.split("::")[-2], "%s(..) in connect() is the future given to a timeout" % c.name.split("::")[-1],
                     "connect() awaits %s with no deadline: a server that stops answering there keeps the attempt - and the slot of the pool bb8 counts for it - for as long as it likes; with pool_size = 1 "
                     "no later checkout is served, also after the server has recovered" % c.name.replace("pgcat::", ""), c.where())
        r7.check(len(talks) >= 2, "attempt-io-sites", "%d calls of connect() talk to the server (%s)" % (len(talks), ", ".join(c.name.split("::")[-1] for c in talks)), "expected the startup and the prewarmer among connect()'s server I/O, found %s" % [c.name for c in talks])
    # ... and comes back whatever the server sends: bb8 runs connect() in a task of its own and counts the attempt until the call *returns*. Server::startup parses
    # the server's bytes with unwraps, slices and unchecked reads; a panic there would unwind through connect() and bb8 would never get the attempt back - one slot of
    # pool_size gone for good per such reply. The startup future is awaited under catch_unwind, a panic ends the attempt like any other failure (D78)
    if cb7:
        st8 = cb7.calls("pgcat::server::Server::startup")
        cu8 = [c for c in cb7.calls("re:(^|::)catch_unwind$") if any(o.kind == "call" and o.call.name == "pgcat::server::Server::startup" for o in origins(cb7, c.args[0], taint=True))]
        to8 = [t for t in cb7.calls("re:^tokio::time::timeout::timeout$") if len(t.args) > 1 and any(o.kind == "call" and o.call.block in {c.block for c in cu8} for o in origins(cb7, t.args[1], taint=True))]
        reraise = [c.where() for n_, b_ in F.bodies.items() if n_.startswith("<pgcat::pool::ServerPool as bb8::api::ManageConnection>::connect") for c in b_.calls("re:panic::resume_unwind$|panicking::panic(_fmt|_any|_display)?$|rust_panic")]
        r7.check(not reraise, "caught-panic-not-raised-again", "nothing in connect() raises a caught panic again", "connect() re-raises the panic it caught (%s): the attempt is lost to bb8 as before" % reraise[:1])
        r7.check(bool(st8) and bool(cu8) and bool(to8), "startup-cannot-unwind-through-connect", "Server::startup is awaited under catch_unwind (and that under the connect timeout)",
                 "Server::startup is awaited in ServerPool::connect without catch_unwind: a reply that makes the startup parser panic (a ParameterStatus without its terminating NUL is enough: read_string().unwrap()) unwinds through "
                 "connect(), bb8 never gets the attempt back and the slot is lost - with pool_size = 2, two such replies and every client is refused although the server has long been healthy again", st8[0].where() if st8 else "")

    # ---------------- R8 a connection that stopped answering does not keep its slot
    r8 = ctx.rule("C04-R8", "`after any history the full capacity is available again`: a pooled connection that did not answer within its deadline (health check at checkout, a client's statement) is marked bad on the "
                  "elapsed arm, so bb8's has_broken() evicts it and its slot is free for a new connection - a silent connection that went back to the idle queue would be handed out again and again", floor=2)
    for fn, ok, where, wit in cancelled_io_findings(F, scope=lambda n_: n_.startswith("pgcat::pool::") or n_.startswith("pgcat::client::")):
        short = fn.replace("pgcat::", "").replace("::{closure#0}", "").split("::")[-1]
        r8.check(ok, "silent=>evicted:" + short, "%s: the elapsed arm of the timeout over server I/O always marks the connection bad" % short,
                 "%s: a connection whose server did not answer in time is not marked bad: has_broken() is false, it returns to the idle queue with its slot, the next checkout gets it without a check "
                 "(the check itself refreshed last_activity) and that client's statement waits for ever" % short, where, wit)

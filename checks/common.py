"""Rule fragments shared by several properties."""
from mirlib import *

FROM_CONFIG = "pgcat::pool::ConnectionPool::from_config::{closure#0}"
MARK_BAD = "pgcat::server::Server::mark_bad"


def is_bad_write(st):
    fs = proj_fields(st["lhs"])
    return bool(fs) and fs[-1] == "bad" and st["rv"]["k"] == "use" and const_int(st["rv"]["op"]) == 1


def positions_follow_numeric_shard_ids(F):
    """from_config sorts the collection of shard keys by their parsed number before the loop that fills the
    positional vectors (databases / addresses / banlist): position k holds shard id k"""
    fc = F.body(FROM_CONFIG)
    if fc is None:
        return False
    sorts = fc.calls("re:slice::<impl \\[T\\]>::(sort_by_key|sort_unstable_by_key|sort_by_cached_key)$")
    it_calls = [c for c in fc.calls("re:IntoIterator>::into_iter$") if any("alloc::string::String" in t and "Vec" in t for t in c.targs)]
    for sc in sorts:
        v1 = set()
        origins(fc, sc.args[0], visited=v1)
        key_ok = False
        for o in origins(fc, sc.args[1]):
            if o.kind == "agg" and o.extra.get("agg") == "closure":
                kb = F.body(strip_generics(o.extra["def"]))
                if kb and any(c.name.endswith("str>::parse") and any(re.fullmatch(r"(i|u)(8|16|32|64|128|size)", t) for t in c.targs) for c in kb.calls()):
                    key_ok = True
        for ic in it_calls:
            v2 = set()
            origins(fc, ic.args[0], visited=v2)
            shared = {l for l in v1 & v2 if fc.varnames.get(l)}
            if key_ok and shared and fc.dominates(sc.block, ic.block):
                return True
    return False


def cancelled_io_findings(F, scope=None):
    """for every tokio timeout wrapped around a future that holds &mut Server (Server::send/recv/query), in any body:
    the elapsed arm must reach mark_bad / bad=true before the connection is used again (next Server::* call) or the
    function returns. Returns list of (fn, ok, where, witness)"""
    out = []
    for fn, b in sorted(F.bodies.items()):
        if "::test::" in fn or (scope and not scope(fn)):
            continue
        tcs = b.calls("re:^tokio::time::timeout::timeout$")
        if not tcs:
            continue
        sws = None
        for tc in tcs:
            fut_calls = [o.call.name for o in origins(b, tc.args[1]) if o.kind == "call"]
            if not any(re.match(r"^pgcat::server::Server::(send|recv|query|sync_parameters|checkin_cleanup)$", n) for n in fut_calls):
                continue
            sws = sws or switches(b)
            el, _, _ = discr_edges(b, r"core::result::Result<.*Elapsed>", "Err", origin_pred=lambda o: o.kind == "call" and o.call.block == tc.block, switches_cache=sws)
            if not el:
                out.append((fn, False, tc.where(), None))
                continue
            rets = [bb for bb, blk in enumerate(b.blocks) if blk["term"]["k"] == "return"]
            nxt = [c.block for c in b.calls("re:^pgcat::server::Server::(send|recv|query|sync_parameters|checkin_cleanup)$")]
            marks = [c.block for c in b.calls(MARK_BAD)] + [blk for blk, i, st in b.assigns() if is_bad_write(st)]
            wit = b.uncrossed_path([d for _, d in el], rets + nxt, blocks=marks)
            out.append((fn, wit is None, tc.where(), wit and b.describe_path(wit)))
    return out


def fallible(F, name, _seen=()):
    """can this local function return Err? False only when every Err-producing point lies behind an infeasible edge
    (the Err arm of a Result<_, Infallible>) or behind `?` on callees that are themselves not fallible"""
    b = F.body(name + "::{closure#0}")
    if b is None or b.kind != "coroutine":
        b = F.body(name)  # `{closure#0}` of a plain fn is just its first closure, not an async body
    if b is None or name in _seen:
        return True
    dead_edges = set()
    for sw in switches(b):
        d = sw.discr()
        if d and re.search(r"core::result::Result<.*, core::convert::Infallible>$", d[0]) and "Err" in d[2]:
            dead_edges.add((sw.block, d[2]["Err"]))
    live = b.reach([0], avoid_edges=dead_edges)
    for c in b.calls("re:FromResidual<.*>>::from_residual$"):
        if c.block not in live:
            continue
        src = [o.call.name for o in origins(b, c.args[0]) if o.kind == "call"]
        if all(n.startswith("pgcat::") and not fallible(F, n, _seen + (name,)) for n in src) and src:
            continue
        return True
    for blk, i, st in b.assigns():
        rv = st["rv"]
        if blk in live and rv["k"] == "agg" and rv.get("variant") == "Err" and "result::Result" in rv.get("adt", ""):
            return True
    return False


def copy_mode_findings(F):
    """Server.in_copy_mode is what keeps a connection with its client after ReadyForQuery (C01-R2) and what delays the release of the
    pooled connection (C04): a COPY ends with CommandComplete or ErrorResponse, so every way through those two arms of Server::recv
    leaves the flag false (assigns false, or took the `already false` edge of a test of it, or leaves with an error).
    Yields (key, ok, where, witness)."""
    rv = F.body("pgcat::server::Server::recv::{closure#0}")
    if rv is None:
        yield ("recv", None, "", None)
        return
    sws = switches(rv)
    code_sw = [sw for sw in sws if sw.ty in ("char", "u8", "u32") and any(v == 90 for v, _ in sw.targets) and any(v == 69 for v, _ in sw.targets) and any(v == 67 for v, _ in sw.targets)]
    if not code_sw:
        yield ("code-switch", None, "", None)
        return
    arms = {v: t for v, t in code_sw[0].targets}
    clears = [blk for blk, i, st in rv.assigns() if proj_fields(st["lhs"])[-1:] == ["in_copy_mode"] and st["rv"]["k"] == "use" and const_int(st["rv"].get("op")) == 0]
    sets = [blk for blk, i, st in rv.assigns() if proj_fields(st["lhs"])[-1:] == ["in_copy_mode"] and st["rv"]["k"] == "use" and const_int(st["rv"].get("op")) == 1]
    _, falseE = field_bool_edges(rv, "in_copy_mode", sws)
    errs = [c.block for c in rv.calls("re:FromResidual<.*>::from_residual$")]
    succ = rv.succ("n")
    for code, nm in ((69, "ErrorResponse"), (67, "CommandComplete")):
        if code not in arms:
            yield ("arm:" + nm, None, "", None)
            continue
        region = {b for b in range(rv.nblocks) if rv.dominates(arms[code], b)}
        exits = sorted({v for u in region for v in succ[u] if v not in region})
        w = rv.uncrossed_path([arms[code]], exits, blocks=clears + errs, edges=set(falseE))
        yield ("copy-ends:" + nm, w is None, "pgcat::server::Server::recv ('%s' arm, bb%d)" % (chr(code), arms[code]), w and rv.describe_path(w))
    # who starts it
    starters = sorted({chr(v) for v, t in arms.items() if any(rv.dominates(t, b) for b in sets)})
    yield ("copy-starts:" + "".join(starters), set(starters) <= {"G", "H", "W"} and bool(starters), "", None)
    others = sorted(n_ for n_, b_ in F.bodies.items() if not n_.startswith("bin:") and n_ != rv.name and not n_.endswith("Server::startup::{closure#0}")
                    and any(proj_fields(st["lhs"])[-1:] == ["in_copy_mode"] for blk, i, st in b_.assigns()))
    yield ("copy-flag-writers", not others, ",".join(others), None)

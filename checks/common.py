"""Rule fragments shared by several properties."""
from mirlib import *

FROM_CONFIG = "pgcat::pool::ConnectionPool::from_config::{closure#0}"
MARK_BAD = "pgcat::server::Server::mark_bad"


def is_bad_write(st):
    fs = proj_fields(st["lhs"])
    return bool(fs) and fs[-1] == "bad" and st["rv"]["k"] == "use" and const_int(st["rv"]["op"]) == 1


def positions_follow_numeric_shard_ids(F):
    """from_config sorts the collection of shard keys by their parsed number before the loop that fills the
    positional vectors (databases / addresses / banlist): position k holds shard id k"""
    fc = F.body(FROM_CONFIG)
    if fc is None:
        return False
    sorts = fc.calls("re:slice::<impl \\[T\\]>::(sort_by_key|sort_unstable_by_key|sort_by_cached_key)$")
    it_calls = [c for c in fc.calls("re:IntoIterator>::into_iter$") if any("alloc::string::String" in t and "Vec" in t for t in c.targs)]
    for sc in sorts:
        v1 = set()
        origins(fc, sc.args[0], visited=v1)
        key_ok = False
        for o in origins(fc, sc.args[1]):
            if o.kind == "agg" and o.extra.get("agg") == "closure":
                kb = F.body(strip_generics(o.extra["def"]))
                if kb and any(c.name.endswith("str>::parse") and any(re.fullmatch(r"(i|u)(8|16|32|64|128|size)", t) for t in c.targs) for c in kb.calls()):
                    key_ok = True
        for ic in it_calls:
            v2 = set()
            origins(fc, ic.args[0], visited=v2)
            shared = {l for l in v1 & v2 if fc.varnames.get(l)}
            if key_ok and shared and fc.dominates(sc.block, ic.block):
                return True
    return False


def cancelled_io_findings(F, scope=None):
    """for every tokio timeout wrapped around a future that holds &mut Server (Server::send/recv/query), in any body:
    the elapsed arm must reach mark_bad / bad=true before the connection is used again (next Server::* call) or the
    function returns. Returns list of (fn, ok, where, witness)"""
    out = []
    for fn, b in sorted(F.bodies.items()):
        if "::test::" in fn or (scope and not scope(fn)):
            continue
        tcs = b.calls("re:^tokio::time::timeout::timeout$")
        if not tcs:
            continue
        sws = None
        for tc in tcs:
            fut_calls = [o.call.name for o in origins(b, tc.args[1]) if o.kind == "call"]
            if not any(re.match(r"^pgcat::server::Server::(send|recv|query|sync_parameters|checkin_cleanup)$", n) for n in fut_calls):
                continue
            sws = sws or switches(b)
            el, _, _ = discr_edges(b, r"core::result::Result<.*Elapsed>", "Err", origin_pred=lambda o: o.kind == "call" and o.call.block == tc.block, switches_cache=sws)
            if not el:
                out.append((fn, False, tc.where(), None))
                continue
            rets = [bb for bb, blk in enumerate(b.blocks) if blk["term"]["k"] == "return"]
            nxt = [c.block for c in b.calls("re:^pgcat::server::Server::(send|recv|query|sync_parameters|checkin_cleanup)$")]
            marks = [c.block for c in b.calls(MARK_BAD)] + [blk for blk, i, st in b.assigns() if is_bad_write(st)]
            wit = b.uncrossed_path([d for _, d in el], rets + nxt, blocks=marks)
            out.append((fn, wit is None, tc.where(), wit and b.describe_path(wit)))
    return out


def fallible(F, name, _seen=()):
    """can this local function return Err? False only when every Err-producing point lies behind an infeasible edge
    (the Err arm of a Result<_, Infallible>) or behind `?` on callees that are themselves not fallible"""
    b = F.body(name + "::{closure#0}")
    if b is None or b.kind != "coroutine":
        b = F.body(name)  # `{closure#0}` of a plain fn is just its first closure, not an async body
    if b is None or name in _seen:
        return True
    dead_edges = set()
    for sw in switches(b):
        d = sw.discr()
        if d and re.search(r"core::result::Result<.*, core::convert::Infallible>$", d[0]) and "Err" in d[2]:
            dead_edges.add((sw.block, d[2]["Err"]))
    live = b.reach([0], avoid_edges=dead_edges)
    for c in b.calls("re:FromResidual<.*>>::from_residual$"):
        if c.block not in live:
            continue
        src = [o.call.name for o in origins(b, c.args[0]) if o.kind == "call"]
        if all(n.startswith("pgcat::") and not fallible(F, n, _seen + (name,)) for n in src) and src:
            continue
        return True
    for blk, i, st in b.assigns():
        rv = st["rv"]
        if blk in live and rv["k"] == "agg" and rv.get("variant") == "Err" and "result::Result" in rv.get("adt", ""):
            return True
    return False


def copy_mode_findings(F):
    """Server.in_copy_mode is what keeps a connection with its client after ReadyForQuery (C01-R2) and what delays the release of the
    pooled connection (C04): a COPY ends with CommandComplete or ErrorResponse, so every way through those two arms of Server::recv
    leaves the flag false (assigns false, or took the `already false` edge of a test of it, or leaves with an error).
    Yields (key, ok, where, witness)."""
    rv = F.body("pgcat::server::Server::recv::{closure#0}")
    if rv is None:
        yield ("recv", None, "", None)
        return
    sws = switches(rv)
    code_sw = [sw for sw in sws if sw.ty in ("char", "u8", "u32") and any(v == 90 for v, _ in sw.targets) and any(v == 69 for v, _ in sw.targets) and any(v == 67 for v, _ in sw.targets)]
    if not code_sw:
        yield ("code-switch", None, "", None)
        return
    arms = {v: t for v, t in code_sw[0].targets}
    clears = [blk for blk, i, st in rv.assigns() if proj_fields(st["lhs"])[-1:] == ["in_copy_mode"] and st["rv"]["k"] == "use" and const_int(st["rv"].get("op")) == 0]
    sets = [blk for blk, i, st in rv.assigns() if proj_fields(st["lhs"])[-1:] == ["in_copy_mode"] and st["rv"]["k"] == "use" and const_int(st["rv"].get("op")) == 1]
    _, falseE = field_bool_edges(rv, "in_copy_mode", sws)
    errs = [c.block for c in rv.calls("re:FromResidual<.*>::from_residual$")]
    succ = rv.succ("n")
    for code, nm in ((69, "ErrorResponse"), (67, "CommandComplete")):
        if code not in arms:
            yield ("arm:" + nm, None, "", None)
            continue
        region = {b for b in range(rv.nblocks) if rv.dominates(arms[code], b)}
        exits = sorted({v for u in region for v in succ[u] if v not in region})
        w = rv.uncrossed_path([arms[code]], exits, blocks=clears + errs, edges=set(falseE))
        yield ("copy-ends:" + nm, w is None, "pgcat::server::Server::recv ('%s' arm, bb%d)" % (chr(code), arms[code]), w and rv.describe_path(w))
    # who starts it
    starters = sorted({chr(v) for v, t in arms.items() if any(rv.dominates(t, b) for b in sets)})
    yield ("copy-starts:" + "".join(starters), set(starters) <= {"G", "H", "W"} and bool(starters), "", None)
    others = sorted(n_ for n_, b_ in F.bodies.items() if not n_.startswith("bin:") and n_ != rv.name and not n_.endswith("Server::startup::{closure#0}")
                    and any(proj_fields(st["lhs"])[-1:] == ["in_copy_mode"] for blk, i, st in b_.assigns()))
    yield ("copy-flag-writers", not others, ",".join(others), None)


def rollback_findings(F):
    """checkin_cleanup: on the in_transaction()==true edge every way to an Ok return (and to the clearing of the release gate) crosses the
    success edge of a Server::query whose text carries ROLLBACK/ABORT, or marks the connection bad. Yields (key, ok, where, witness)."""
    cc = F.body("pgcat::server::Server::checkin_cleanup::{closure#0}")
    if cc is None:
        yield ("checkin_cleanup", None, "", None)
        return
    csw = switches(cc)
    T, Fa, _ = call_bool_edges(cc, "pgcat::server::Server::in_transaction", switches_cache=csw)
    fT, fF = field_bool_edges(cc, "in_transaction", csw)
    T = set(T) | set(fT)
    if not T:
        yield ("in_transaction-test", None, "", None)
        return
    rb = []
    for c in cc.calls("pgcat::server::Server::query"):
        texts = set(arg_strs(cc, c))
        for o in origins(cc, c.args[1], taint=True):
            if o.kind == "call":
                texts |= set(arg_strs(cc, o.call))
            if o.kind == "const" and isinstance(o.what, str):
                texts.add(o.what)
        if any(re.search(r"\b(ROLLBACK|ABORT)\b", x.upper()) for x in texts):
            rb.append(c)
    okE = set()
    for c in rb:
        cont, _, _ = discr_edges(cc, r"ControlFlow<", "Continue", origin_pred=lambda o, c=c: o.kind == "call" and o.call.block == c.block, switches_cache=csw)
        okE |= set(cont)
        sE, _, _ = discr_edges(cc, r"core::result::Result<", "Ok", origin_pred=lambda o, c=c: o.kind == "call" and o.call.block == c.block, switches_cache=csw)
        okE |= set(sE)
    marks = [c.block for c in cc.calls(MARK_BAD)] + [blk for blk, i, st in cc.assigns() if is_bad_write(st)]
    oks = [blk for blk, i, st in cc.assigns() if st["lhs"]["l"] == 0 and not st["lhs"]["p"] and st["rv"]["k"] == "agg" and st["rv"].get("variant") == "Ok"]
    # a second test of the same flag before anything was sent cannot disagree with the first one
    io_blocks = [c.block for c in cc.calls("pgcat::server::Server::query", "pgcat::server::Server::send", "pgcat::server::Server::recv")]
    pure = set(cc.reach([d for _, d in T], avoid_blocks=io_blocks))
    _t2, f2_ = call_bool_edges(cc, "pgcat::server::Server::in_transaction", switches_cache=csw)[:2]
    infeasible = {e for e in (set(f2_) | set(fF)) if e[0] in pure}
    w = cc.uncrossed_path([d for _, d in T], oks, edges=set(okE) | infeasible, blocks=marks) if okE else [0]
    yield ("open-transaction=>ROLLBACK", bool(rb) and w is None, rb[0].where() if rb else "pgcat::server::Server::checkin_cleanup", w and cc.describe_path(w))
    # ... and believed only if the server then says the transaction is over: Server::query returns Ok whatever the server answered
    # (an ErrorResponse is not an Err), and a connection in copy-in mode consumes the ROLLBACK message as a protocol violation
    if rb and okE:
        after = set(cc.reach([d for _, d in okE]))
        F2 = set()
        for sw2, o, te, fe in bool_value_edges(cc, lambda o: o.kind == "call" and o.call.name == "pgcat::server::Server::in_transaction" and o.call.block in after, csw):
            F2.add(fe)
        fT2, fF2 = field_bool_edges(cc, "in_transaction", csw)
        F2 |= {e for e in fF2 if e[0] in after}
        w2 = cc.uncrossed_path([d for _, d in okE], oks, edges=F2, blocks=marks)
        yield ("ROLLBACK-verified", w2 is None, rb[0].where(), w2 and cc.describe_path(w2))


def set_shard_refusal_findings(F):
    """SET SHARD naming a shard that is not configured: refused with an error, acknowledged only in range, and the shard the session had before
    the command is restored (read before try_execute_command ran). Yields (key, ok, okmsg, failmsg)."""
    HCP = "pgcat::client::Client::handle_custom_protocol::{closure#0}"
    QR = "pgcat::query_router::QueryRouter::"
    hc = F.body(HCP)
    if hc is None:
        yield ("handle_custom_protocol", None, "", "")
        return
    hsw = switches(hc)
    cmpE = []
    for sw in hsw:
        if not sw.is_bool():
            continue
        for o in sw.origins():
            if o.kind == "bin" and o.what in ("Ge", "Lt", "Gt", "Le"):
                a_c = {oo.call.name for oo in origins(hc, o.extra["a"], taint=True) if oo.kind == "call"}
                b_c = {oo.call.name for oo in origins(hc, o.extra["b"], taint=True) if oo.kind == "call"}
                if "pgcat::pool::ConnectionPool::shards" in a_c | b_c and QR + "shard" in a_c | b_c:
                    te, fe = sw.bool_edges()
                    if o.neg:
                        te, fe = fe, te
                    # normalise to "out of range" edge
                    shard_left = QR + "shard" in a_c
                    oor = te if ((o.what == "Ge" and shard_left) or (o.what == "Le" and not shard_left)) else (fe if ((o.what == "Lt" and shard_left) or (o.what == "Gt" and not shard_left)) else None)
                    cmpE.append((o.what, shard_left, oor, fe if oor == te else te))
    if not cmpE or cmpE[0][2] is None:
        yield ("range-check", False, "", "handle_custom_protocol does not compare the selected shard with pool.shards() using >= (found %s): shard == shards would be accepted" % [(w, l) for w, l, _, _ in cmpE])
    else:
        what, left, oor, inr = cmpE[0]
        reach_bad = hc.reach([oor[1]])
        reach_ok = hc.reach([inr[1]])
        ss = [c for c in hc.calls(QR + "set_shard") if c.block in reach_bad and hc.dominates(oor[1], c.block)]
        er = [c for c in hc.calls("pgcat::messages::error_response") if c.block in reach_bad and hc.dominates(oor[1], c.block)]
        okc = [c for c in hc.calls("pgcat::messages::custom_protocol_response_ok") if hc.dominates(inr[1], c.block)]
        yield ("refused", bool(ss) and bool(er), "an out-of-range shard restores the previous shard and sends an error", "out-of-range SET SHARD is not refused (set_shard=%d error=%d)" % (len(ss), len(er)))
        yield ("ok-only-in-range", bool(okc) and not [c for c in hc.calls("pgcat::messages::custom_protocol_response_ok") if hc.dominates(oor[1], c.block)], "SET SHARD is acknowledged only in range", "SET SHARD is acknowledged although out of range")
        if ss:
            # the restored value was read before try_execute_command ran
            tcall = hc.calls(QR + "try_execute_command")
            src = [o.call for o in origins(hc, ss[0].args[1], taint=True) if o.kind == "call" and o.call.name == QR + "shard"]
            yield ("restore-previous", bool(tcall) and bool(src) and all(hc.dominates(s_.block, tcall[0].block) and s_.block != tcall[0].block for s_ in src),
                   "the restored value is QueryRouter::shard() read before the command was executed",
                   "a refused SET SHARD does not put back the shard the session had before the command (it clears it or keeps the refused one): SHOW SHARD and the routing of later queries no longer follow the last accepted SET")

"""Rule fragments shared by several properties."""
from mirlib import *

FROM_CONFIG = "pgcat::pool::ConnectionPool::from_config::{closure#0}"
MARK_BAD = "pgcat::server::Server::mark_bad"


def is_bad_write(st):
    fs = proj_fields(st["lhs"])
    return bool(fs) and fs[-1] == "bad" and st["rv"]["k"] == "use" and const_int(st["rv"]["op"]) == 1


def positions_follow_numeric_shard_ids(F):
    """from_config sorts the collection of shard keys by their parsed number before the loop that fills the
    positional vectors (databases / addresses / banlist): position k holds shard id k"""
    fc = F.body(FROM_CONFIG)
    if fc is None:
        return False
    sorts = fc.calls("re:slice::<impl \\[T\\]>::(sort_by_key|sort_unstable_by_key|sort_by_cached_key)$")
    it_calls = [c for c in fc.calls("re:IntoIterator>::into_iter$") if any("alloc::string::String" in t and "Vec" in t for t in c.targs)]
    for sc in sorts:
        v1 = set()
        origins(fc, sc.args[0], visited=v1)
        key_ok = False
        for o in origins(fc, sc.args[1]):
            if o.kind == "agg" and o.extra.get("agg") == "closure":
                kb = F.body(strip_generics(o.extra["def"]))
                if kb and any(c.name.endswith("str>::parse") and any(re.fullmatch(r"(i|u)(8|16|32|64|128|size)", t) for t in c.targs) for c in kb.calls()):
                    key_ok = True
        for ic in it_calls:
            v2 = set()
            origins(fc, ic.args[0], visited=v2)
            shared = {l for l in v1 & v2 if fc.varnames.get(l)}
            if key_ok and shared and fc.dominates(sc.block, ic.block):
                return True
    return False


def cancelled_io_findings(F, scope=None):
    """for every tokio timeout wrapped around a future that holds &mut Server (Server::send/recv/query), in any body:
    the elapsed arm must reach mark_bad / bad=true before the connection is used again (next Server::* call) or the
    function returns. Returns list of (fn, ok, where, witness)"""
    out = []
    for fn, b in sorted(F.bodies.items()):
        if "::test::" in fn or (scope and not scope(fn)):
            continue
        tcs = b.calls("re:^tokio::time::timeout::timeout$")
        if not tcs:
            continue
        sws = None
        for tc in tcs:
            fut_calls = [o.call.name for o in origins(b, tc.args[1]) if o.kind == "call"]
            if not any(re.match(r"^pgcat::server::Server::(send|recv|query|sync_parameters|checkin_cleanup)$", n) for n in fut_calls):
                continue
            sws = sws or switches(b)
            el, _, _ = discr_edges(b, r"core::result::Result<.*Elapsed>", "Err", origin_pred=lambda o: o.kind == "call" and o.call.block == tc.block, switches_cache=sws)
            if not el:
                out.append((fn, False, tc.where(), None))
                continue
            rets = [bb for bb, blk in enumerate(b.blocks) if blk["term"]["k"] == "return"]
            nxt = [c.block for c in b.calls("re:^pgcat::server::Server::(send|recv|query|sync_parameters|checkin_cleanup)$")]
            marks = [c.block for c in b.calls(MARK_BAD)] + [blk for blk, i, st in b.assigns() if is_bad_write(st)]
            wit = b.uncrossed_path([d for _, d in el], rets + nxt, blocks=marks)
            out.append((fn, wit is None, tc.where(), wit and b.describe_path(wit)))
    return out


def fallible(F, name, _seen=()):
    """can this local function return Err? False only when every Err-producing point lies behind an infeasible edge
    (the Err arm of a Result<_, Infallible>) or behind `?` on callees that are themselves not fallible"""
    b = F.body(name + "::{closure#0}")
    if b is None or b.kind != "coroutine":
        b = F.body(name)  # `{closure#0}` of a plain fn is just its first closure, not an async body
    if b is None or name in _seen:
        return True
    dead_edges = set()
    for sw in switches(b):
        d = sw.discr()
        if d and re.search(r"core::result::Result<.*, core::convert::Infallible>$", d[0]) and "Err" in d[2]:
            dead_edges.add((sw.block, d[2]["Err"]))
    live = b.reach([0], avoid_edges=dead_edges)
    for c in b.calls("re:FromResidual<.*>>::from_residual$"):
        if c.block not in live:
            continue
        src = [o.call.name for o in origins(b, c.args[0]) if o.kind == "call"]
        if all(n.startswith("pgcat::") and not fallible(F, n, _seen + (name,)) for n in src) and src:
            continue
        return True
    for blk, i, st in b.assigns():
        rv = st["rv"]
        if blk in live and rv["k"] == "agg" and rv.get("variant") == "Err" and "result::Result" in rv.get("adt", ""):
            return True
    return False


def copy_mode_findings(F):
    """Server.in_copy_mode is what keeps a connection with its client after ReadyForQuery (C01-R2) and what delays the release of the
    pooled connection (C04): a COPY ends with CommandComplete or ErrorResponse, so every way through those two arms of Server::recv
    leaves the flag false (assigns false, or took the `already false` edge of a test of it, or leaves with an error).
    Yields (key, ok, where, witness)."""
    rv = F.body("pgcat::server::Server::recv::{closure#0}")
    if rv is None:
        yield ("recv", None, "", None)
        return
    sws = switches(rv)
    code_sw = [sw for sw in sws if sw.ty in ("char", "u8", "u32") and any(v == 90 for v, _ in sw.targets) and any(v == 69 for v, _ in sw.targets) and any(v == 67 for v, _ in sw.targets)]
    if not code_sw:
        yield ("code-switch", None, "", None)
        return
    arms = {v: t for v, t in code_sw[0].targets}
    clears = [blk for blk, i, st in rv.assigns() if proj_fields(st["lhs"])[-1:] == ["in_copy_mode"] and st["rv"]["k"] == "use" and const_int(st["rv"].get("op")) == 0]
    sets = [blk for blk, i, st in rv.assigns() if proj_fields(st["lhs"])[-1:] == ["in_copy_mode"] and st["rv"]["k"] == "use" and const_int(st["rv"].get("op")) == 1]
    _, falseE = field_bool_edges(rv, "in_copy_mode", sws)
    errs = [c.block for c in rv.calls("re:FromResidual<.*>::from_residual$")]
    succ = rv.succ("n")
    for code, nm in ((69, "ErrorResponse"), (67, "CommandComplete")):
        if code not in arms:
            yield ("arm:" + nm, None, "", None)
            continue
        region = {b for b in range(rv.nblocks) if rv.dominates(arms[code], b)}
        exits = sorted({v for u in region for v in succ[u] if v not in region})
        w = rv.uncrossed_path([arms[code]], exits, blocks=clears + errs, edges=set(falseE))
        yield ("copy-ends:" + nm, w is None, "pgcat::server::Server::recv ('%s' arm, bb%d)" % (chr(code), arms[code]), w and rv.describe_path(w))
    # who starts it
    starters = sorted({chr(v) for v, t in arms.items() if any(rv.dominates(t, b) for b in sets)})
    yield ("copy-starts:" + "".join(starters), set(starters) <= {"G", "H", "W"} and bool(starters), "", None)
    others = sorted(n_ for n_, b_ in F.bodies.items() if not n_.startswith("bin:") and n_ != rv.name and not n_.endswith("Server::startup::{closure#0}")
                    and any(proj_fields(st["lhs"])[-1:] == ["in_copy_mode"] for blk, i, st in b_.assigns()))
    yield ("copy-flag-writers", not others, ",".join(others), None)


def rollback_findings(F):
    """checkin_cleanup: on the in_transaction()==true edge every way to an Ok return (and to the clearing of the release gate) crosses the
    success edge of a Server::query whose text carries ROLLBACK/ABORT, or marks the connection bad. Yields (key, ok, where, witness)."""
    cc = F.body("pgcat::server::Server::checkin_cleanup::{closure#0}")
    if cc is None:
        yield ("checkin_cleanup", None, "", None)
        return
    csw = switches(cc)
    T, Fa, _ = call_bool_edges(cc, "pgcat::server::Server::in_transaction", switches_cache=csw)
    fT, fF = field_bool_edges(cc, "in_transaction", csw)
    T = set(T) | set(fT)
    if not T:
        yield ("in_transaction-test", None, "", None)
        return
    rb = []
    for c in cc.calls("pgcat::server::Server::query"):
        texts = set(arg_strs(cc, c))
        for o in origins(cc, c.args[1], taint=True):
            if o.kind == "call":
                texts |= set(arg_strs(cc, o.call))
            if o.kind == "const" and isinstance(o.what, str):
                texts.add(o.what)
        if any(re.search(r"\b(ROLLBACK|ABORT)\b", x.upper()) for x in texts):
            rb.append(c)
    okE = set()
    for c in rb:
        cont, _, _ = discr_edges(cc, r"ControlFlow<", "Continue", origin_pred=lambda o, c=c: o.kind == "call" and o.call.block == c.block, switches_cache=csw)
        okE |= set(cont)
        sE, _, _ = discr_edges(cc, r"core::result::Result<", "Ok", origin_pred=lambda o, c=c: o.kind == "call" and o.call.block == c.block, switches_cache=csw)
        okE |= set(sE)
    marks = [c.block for c in cc.calls(MARK_BAD)] + [blk for blk, i, st in cc.assigns() if is_bad_write(st)]
    oks = [blk for blk, i, st in cc.assigns() if st["lhs"]["l"] == 0 and not st["lhs"]["p"] and st["rv"]["k"] == "agg" and st["rv"].get("variant") == "Ok"]
    # a second test of the same flag before anything was sent cannot disagree with the first one
    io_blocks = [c.block for c in cc.calls("pgcat::server::Server::query", "pgcat::server::Server::send", "pgcat::server::Server::recv")]
    pure = set(cc.reach([d for _, d in T], avoid_blocks=io_blocks))
    _t2, f2_ = call_bool_edges(cc, "pgcat::server::Server::in_transaction", switches_cache=csw)[:2]
    infeasible = {e for e in (set(f2_) | set(fF)) if e[0] in pure}
    w = cc.uncrossed_path([d for _, d in T], oks, edges=set(okE) | infeasible, blocks=marks) if okE else [0]
    yield ("open-transaction=>ROLLBACK", bool(rb) and w is None, rb[0].where() if rb else "pgcat::server::Server::checkin_cleanup", w and cc.describe_path(w))
    # ... and believed only if the server then says the transaction is over: Server::query returns Ok whatever the server answered
    # (an ErrorResponse is not an Err), and a connection in copy-in mode consumes the ROLLBACK message as a protocol violation
    if rb and okE:
        after = set(cc.reach([d for _, d in okE]))
        F2 = set()
        for sw2, o, te, fe in bool_value_edges(cc, lambda o: o.kind == "call" and o.call.name == "pgcat::server::Server::in_transaction" and o.call.block in after, csw):
            F2.add(fe)
        fT2, fF2 = field_bool_edges(cc, "in_transaction", csw)
        F2 |= {e for e in fF2 if e[0] in after}
        w2 = cc.uncrossed_path([d for _, d in okE], oks, edges=F2, blocks=marks)
        yield ("ROLLBACK-verified", w2 is None, rb[0].where(), w2 and cc.describe_path(w2))


def set_shard_refusal_findings(F):
    """SET SHARD naming a shard that is not configured: refused with an error, acknowledged only in range, and the shard the session had before
    the command is restored (read before try_execute_command ran). Yields (key, ok, okmsg, failmsg)."""
    HCP = "pgcat::client::Client::handle_custom_protocol::{closure#0}"
    QR = "pgcat::query_router::QueryRouter::"
    hc = F.body(HCP)
    if hc is None:
        yield ("handle_custom_protocol", None, "", "")
        return
    hsw = switches(hc)
    cmpE = []
    for sw in hsw:
        if not sw.is_bool():
            continue
        for o in sw.origins():
            if o.kind == "bin" and o.what in ("Ge", "Lt", "Gt", "Le"):
                a_c = {oo.call.name for oo in origins(hc, o.extra["a"], taint=True) if oo.kind == "call"}
                b_c = {oo.call.name for oo in origins(hc, o.extra["b"], taint=True) if oo.kind == "call"}
                if "pgcat::pool::ConnectionPool::shards" in a_c | b_c and QR + "shard" in a_c | b_c:
                    te, fe = sw.bool_edges()
                    if o.neg:
                        te, fe = fe, te
                    # normalise to "out of range" edge
                    shard_left = QR + "shard" in a_c
                    oor = te if ((o.what == "Ge" and shard_left) or (o.what == "Le" and not shard_left)) else (fe if ((o.what == "Lt" and shard_left) or (o.what == "Gt" and not shard_left)) else None)
                    cmpE.append((o.what, shard_left, oor, fe if oor == te else te))
    if not cmpE or cmpE[0][2] is None:
        yield ("range-check", False, "", "handle_custom_protocol does not compare the selected shard with pool.shards() using >= (found %s): shard == shards would be accepted" % [(w, l) for w, l, _, _ in cmpE])
    else:
        what, left, oor, inr = cmpE[0]
        reach_bad = hc.reach([oor[1]])
        reach_ok = hc.reach([inr[1]])
        ss = [c for c in hc.calls(QR + "set_shard") if c.block in reach_bad and hc.dominates(oor[1], c.block)]
        er = [c for c in hc.calls("pgcat::messages::error_response") if c.block in reach_bad and hc.dominates(oor[1], c.block)]
        okc = [c for c in hc.calls("pgcat::messages::custom_protocol_response_ok") if hc.dominates(inr[1], c.block)]
        yield ("refused", bool(ss) and bool(er), "an out-of-range shard restores the previous shard and sends an error", "out-of-range SET SHARD is not refused (set_shard=%d error=%d)" % (len(ss), len(er)))
        yield ("ok-only-in-range", bool(okc) and not [c for c in hc.calls("pgcat::messages::custom_protocol_response_ok") if hc.dominates(oor[1], c.block)], "SET SHARD is acknowledged only in range", "SET SHARD is acknowledged although out of range")
        if ss:
            # the restored value was read before try_execute_command ran
            tcall = hc.calls(QR + "try_execute_command")
            src = [o.call for o in origins(hc, ss[0].args[1], taint=True) if o.kind == "call" and o.call.name == QR + "shard"]
            yield ("restore-previous", bool(tcall) and bool(src) and all(hc.dominates(s_.block, tcall[0].block) and s_.block != tcall[0].block for s_ in src),
                   "the restored value is QueryRouter::shard() read before the command was executed",
                   "a refused SET SHARD does not put back the shard the session had before the command (it clears it or keeps the refused one): SHOW SHARD and the routing of later queries no longer follow the last accepted SET")

    # ... and putting it back works for every previous value, `none selected` included: set_shard stores what it is given on every way through
    sb_ = F.body(QR + "set_shard")
    if sb_ is None:
        yield ("set_shard", None, "", "")
    else:
        stores = [blk for blk, i, st in sb_.assigns() if proj_fields(st["lhs"])[-1:] == ["active_shard"]
                  and any(o.kind == "param" and o.what == 2 and not o.proj for o in origins(sb_, st["rv"].get("op")) if st["rv"]["k"] == "use")]
        rets = [bb for bb, blk_ in enumerate(sb_.blocks) if blk_["term"]["k"] == "return"]
        wit = sb_.uncrossed_path([0], rets, blocks=stores)
        yield ("restore-stores-whatever-it-is-given", bool(stores) and wit is None, "QueryRouter::set_shard assigns its argument to the selection on every path",
               "QueryRouter::set_shard does not store its argument on every path (a None is ignored?): the restore after a refused SET SHARD on a session that had no shard selected leaves the refused number selected - "
               "SHOW SHARD reports it and every later statement fails with InvalidShardId")


def release_gate(F):
    """the field of Server that Server::claim sets and that makes Server::is_bad (hence ServerPool::has_broken) answer
    true on *every* path: returns (field or None, reason). A connection that a client claimed and left without a
    completed checkin_cleanup (a `?` exit, a panic, a dropped future) is then discarded by bb8 instead of being
    handed to the next client with the previous client's transaction still open."""
    isbad = F.body("pgcat::server::Server::is_bad")
    claim = F.body("pgcat::server::Server::claim")
    hb = F.body("<pgcat::pool::ServerPool as bb8::api::ManageConnection>::has_broken")
    if not (isbad and claim and hb):
        return None, "Server::is_bad / Server::claim / ServerPool::has_broken not found"
    if not hb.calls("pgcat::server::Server::is_bad"):
        return None, "has_broken no longer consults Server::is_bad"
    setf = {proj_fields(st["lhs"])[-1] for blk, i, st in claim.assigns() if proj_fields(st["lhs"]) and st["rv"]["k"] == "use" and const_int(st["rv"]["op"]) == 1}
    sws = switches(isbad)
    why = "is_bad tests none of the fields Server::claim sets (%s)" % sorted(setf)
    for f in sorted(setf):
        T, Fe = field_bool_edges(isbad, f, sws)
        # assignments to the return place: `true` is fine, the field itself is fine (true when set), anything else may be false
        maybe_false = []
        returns_field = False
        for b, i, st in isbad.assigns():
            if st["lhs"]["l"] != 0 or st["lhs"]["p"]:
                continue
            rv = st["rv"]
            if rv["k"] == "use" and const_int(rv["op"]) == 1:
                continue
            if rv["k"] == "use" and const_int(rv["op"]) is None and all(o.kind in ("place", "param") and o.proj and o.proj[-1] == "." + f for o in origins(isbad, rv["op"])):
                returns_field = True
                continue
            # `return self.g` reached only where self.g was just tested true
            if rv["k"] == "use" and const_int(rv["op"]) is None:
                gs = {o.proj[-1][1:] for o in origins(isbad, rv["op"]) if o.kind in ("place", "param") and o.proj}
                if len(gs) == 1:
                    Tg, _ = field_bool_edges(isbad, next(iter(gs)), sws)
                    if Tg and isbad.uncrossed_path([0], [b], edges=Tg) is None:
                        continue
            maybe_false.append(b)
        if not T and not returns_field:
            continue
        if T and any(b in isbad.reach([d for _, d in T]) for b in maybe_false):
            why = "is_bad can answer false although Server.%s is set" % f
            continue
        w = isbad.uncrossed_path([0], maybe_false, edges=Fe)
        if w is not None:
            why = "is_bad answers false on a path that never looks at Server.%s (%s)" % (f, isbad.describe_path(w))
            continue
        return f, ""
    return None, why


def parse_cache_key_gap(F):
    """fields of messages::Parse that the encoder writes into the message sent to a server but that the pool-wide cache key
    (Parse::get_hash) does not cover. `name` is rewritten per cache entry and `code`/`len` are fixed by the message kind.
    Returns (missing fields or None when an anchor is absent, encoded fields, hashed fields)"""
    enc = F.body("pgcat::messages::<impl core::convert::TryFrom<pgcat::messages::Parse> for bytes::bytes_mut::BytesMut>::try_from")
    gh = F.body("pgcat::messages::Parse::get_hash")
    adt = F.adts.get("pgcat::messages::Parse")
    if not (enc and gh and adt):
        return None, set(), set()
    names = {f["name"] for f in adt["variants"][0]["fields"]}
    encoded = (fields_read(enc) & names) - {"name", "code", "len"}
    hashed = set()
    for c in gh.calls("re:core::hash::Hash>::hash$|impl core::hash::Hash for .*>::hash$|^core::hash::Hash::hash$"):
        hashed |= {p[1:] for o in origins(gh, c.args[0], taint=True) if o.kind in ("place", "param") for p in o.proj if p.startswith(".")} & names
    return sorted(encoded - hashed), encoded, hashed


def cleanup_mark_findings(F):
    """the marks a client's SET / PREPARE leave on a server connection (CleanupState) are cleared only by CleanupState::reset(),
    and reset() runs only after the clean-up query of checkin_cleanup (and after pgcat's own SETs in sync_parameters, right after the
    checkout). Returns [(key, ok, good, bad)]"""
    H = "pgcat::client::Client::handle::{closure#0}"
    SERVER_IO = ("pgcat::server::Server::send", "pgcat::server::Server::recv", "pgcat::server::Server::query",
                 "pgcat::server::Server::sync_parameters", "pgcat::server::Server::register_prepared_statement",
                 "pgcat::client::Client::send_and_receive_loop", "pgcat::client::Client::send_server_message",
                 "pgcat::client::Client::receive_server_message", "pgcat::client::Client::register_parse_to_server_cache",
                 "pgcat::client::Client::ensure_prepared_statement_is_on_server")
    h = F.body(H)
    cc = F.body("pgcat::server::Server::checkin_cleanup::{closure#0}")
    out = []
    clearers = {}
    for n_, b_ in F.bodies.items():
        if n_.startswith("bin:"):
            continue
        for blk, i, st in b_.assigns():
            pf = proj_fields(st["lhs"])
            if pf[-1:] and pf[-1] in ("needs_cleanup_set", "needs_cleanup_prepare") and not (st["rv"]["k"] == "use" and const_int(st["rv"].get("op")) == 1):
                clearers.setdefault(n_, set()).add(pf[-1])
            if pf[-1:] == ["cleanup_state"]:
                clearers.setdefault(n_, set()).add("cleanup_state")
    extra = sorted(n_ for n_ in clearers if n_ not in ("pgcat::server::CleanupState::reset", "pgcat::server::CleanupState::new"))
    out.append(("dirty-marks-monotone", "pgcat::server::CleanupState::reset" in clearers and not extra, "the dirty marks are cleared only by CleanupState::reset()",
             "a dirty mark is cleared outside CleanupState::reset(): %s - what a CommandComplete tag says is not proof that the session is clean (RESET x / RESET ROLE / a RESET inside a rolled-back transaction all answer `RESET`), "
             "the next client inherits the settings" % extra))
    rc_ = sorted({c.body.name for c in F.all_calls("pgcat::server::CleanupState::reset")})
    CC_, SP_ = "pgcat::server::Server::checkin_cleanup::{closure#0}", "pgcat::server::Server::sync_parameters::{closure#0}"
    ok_reset = CC_ in rc_ and set(rc_) <= {CC_, SP_}
    why_sp = ""
    if ok_reset and cc:
        q = [c for c in cc.calls("pgcat::server::Server::query") if not any(x.upper().startswith(("ROLLBACK", "ABORT")) for x in arg_strs(cc, c))]
        rs = cc.calls("pgcat::server::CleanupState::reset")
        # the reset follows the clean-up query (`?` leaves on Err)
        ok_reset = bool(q) and bool(rs) and all(cc.dominates(q[0].block, r_.block) for r_ in rs)
    if ok_reset and SP_ in rc_:
        # sync_parameters issues pgcat's own SETs right after the checkout (before any client statement: C12-R1) and drops the mark those SETs caused;
        # accepted only in that shape: the reset follows its own query, and handle calls sync_parameters before the transaction loop
        sp = F.body(SP_)
        q = sp.calls("pgcat::server::Server::query") if sp else []
        rs = sp.calls("pgcat::server::CleanupState::reset") if sp else []
        in_h = h.calls("pgcat::server::Server::sync_parameters") if h else []
        claim_ = h.calls("pgcat::server::Server::claim") if h else []
        callers = sorted({c.body.name for c in F.all_calls("pgcat::server::Server::sync_parameters")})
        # (not: dominated by the query - one query per parameter in a loop is the same thing; at that point, right after the checkout, the only marks are pgcat's own)
        ok_reset = bool(q) and bool(rs) and callers == [H] and len(in_h) == 1 and bool(claim_) and not [c for c in h.calls(*[x for x in SERVER_IO if not x.endswith("sync_parameters")]) if h.dominates(c.block, in_h[0].block)]
        why_sp = " and by sync_parameters for the SETs pgcat itself issues right after the checkout, before any client statement"
    # the SET tag marks the connection whatever Server.in_transaction says at that moment (D42): the flag follows ReadyForQuery, i.e. it is stale
    # within a multi-statement reply (`COMMIT; SET x`), and a SET inside a transaction that commits stays in force as well
    rv = F.body("pgcat::server::Server::recv::{closure#0}")
    if rv is not None:
        rsw = switches(rv)
        marks = [blk for blk, i, st in rv.assigns() if proj_fields(st["lhs"])[-1:] == ["needs_cleanup_set"] and st["rv"]["k"] == "use" and const_int(st["rv"].get("op")) == 1]
        eqs = [k for k in rv.calls("re:PartialEq.*::eq$") if "SET" in arg_strs(rv, k)]
        skipped = None
        for k in eqs:
            for sw_, o_, te, fe in bool_value_edges(rv, lambda o, k=k: o.kind == "call" and o.call.block == k.block, rsw):
                R = rv.reach([te[1]], avoid_blocks=marks, want_parents=True)
                joins = [b for b in R if b != sw_.block and rv.postdominates(b, sw_.block)]
                if joins:
                    skipped = rv.describe_path(rv.path(R, min(joins))) or "the in_transaction test in front of the mark"
        out.append(("set-tag=>marked", bool(eqs) and bool(marks) and skipped is None, "every CommandComplete `SET` marks the connection for RESET ALL",
                    "a CommandComplete `SET` marks the connection for RESET ALL only under a condition (%s): `COMMIT; SET x` sent as one query (the SET runs outside the transaction, its tag arrives before the ReadyForQuery that "
                    "updates in_transaction) and a SET inside a transaction that commits both stay in force for the next client" % (skipped or "no mark / no SET tag compare found")))
    # what the server answered to the clean-up statement decides: query() returns Ok for an ErrorResponse too (it only sets Server.query_failed).
    # The statements run as one implicit transaction; a statement_timeout the leaving client set, or a CancelRequest that arrives late, cancels
    # them like any query and takes the RESET ALL back - marks and release gate may be cleared only where the flag was found false (D64)
    if cc:
        sw_cc = switches(cc)
        q_cc = [c for c in cc.calls("pgcat::server::Server::query") if not any(x.upper().startswith(("ROLLBACK", "ABORT")) for x in arg_strs(cc, c))]
        _t, qf_false = field_bool_edges(cc, "query_failed", sw_cc)
        clears = [c.block for c in cc.calls("pgcat::server::CleanupState::reset")] + [blk for blk, i, st in cc.assigns() if proj_fields(st["lhs"])[-1:] == ["needs_checkin_cleanup"] and st["rv"]["k"] == "use" and const_int(st["rv"].get("op")) == 0]
        marks_cc = [c.block for c in cc.calls("pgcat::server::Server::mark_bad")]
        w_cc = cc.uncrossed_path([c.target for c in q_cc if c.target is not None], clears, edges=set(qf_false), blocks=marks_cc) if q_cc and clears else [0]
        out.append(("cleanup-answer-verified", bool(q_cc) and bool(clears) and w_cc is None, "after its clean-up query checkin_cleanup clears the marks and the release gate only where Server.query_failed was found false (or the connection was given up)",
                    "checkin_cleanup clears the marks and opens the release gate whatever the server answered to `RESET ROLE;RESET ALL;..`: when the statement is cancelled (the statement_timeout the leaving client set, a late CancelRequest) "
                    "the RESET is rolled back, the answer is an ErrorResponse nobody looks at, and the next client runs under the previous client's settings" + (" [%s]" % cc.describe_path(w_cc) if w_cc and w_cc != [0] else "")))
    out.append(("reset-after-cleanup-query", ok_reset, "CleanupState::reset() is called only by checkin_cleanup after the clean-up query" + why_sp,
             "CleanupState::reset() is called from %s / not after the clean-up query: marks are dropped without cleaning the session" % rc_))
    return out


def admin_only_gate(F):
    """in Client::startup: every path from entry to the AuthenticationOk write crosses `admin == true` or `admin_only == false`
    (admin = the value stored into Client.admin; admin_only = startup's last parameter). Returns (ok or None if an anchor is missing, text)"""
    S = "pgcat::client::Client::startup::{closure#0}"
    s = F.body(S)
    sp = F.body("pgcat::client::Client::startup")
    if not (s and sp):
        return None, "Client::startup not found"
    auth_blocks = [c.block for c in s.calls("pgcat::messages::auth_ok")]
    admin_ops = [st["rv"]["ops"][st["rv"]["fields"].index("admin")] for b_, blk, st in F.aggregates("pgcat::client::Client") if b_ is s]
    if not auth_blocks or not admin_ops:
        return None, "auth_ok call / Client aggregate in startup not found"
    sws = switches(s)
    admin_orig = {o.key()[:3] for o in origins(s, admin_ops[0]) if o.kind in ("bin", "call")}
    adm = bool_value_edges(s, lambda o: o.key()[:3] in admin_orig, sws)
    admin_true = {te for _, _, te, _ in adm}
    idx = None
    for b, i, st in sp.assigns():
        rv = st["rv"]
        if rv["k"] == "agg" and rv.get("agg") in ("coroutine", "closure") and strip_generics(rv["def"]) == S:
            for k, op in enumerate(rv["ops"]):
                if op_local(op) == sp.argc:
                    idx = k
    if idx is None or not adm:
        return None, "admin_only upvar / branch on the admin value not found in startup"
    ao = bool_value_edges(s, lambda o: o.kind in ("place", "param") and o.proj == (".%d" % idx,) and o.what == 1, sws)
    ao_false = {fe for _, _, _, fe in ao}
    wit = s.uncrossed_path([0], auth_blocks, edges=admin_true | ao_false)
    if ao and wit is None:
        return True, ""
    return False, (s.describe_path(wit) if wit else "admin_only is never tested")


def reentrant_lock_findings(F, scope=lambda n: n.startswith("pgcat::")):
    """a lock of a shared structure is taken again while a guard of the same lock is alive in the same function: parking_lot locks are
    not re-entrant, `read()` then `write()` on one thread blocks for ever (and the queued writer blocks every later reader).
    Guard liveness: from the lock call that produces a guard local to the drop / StorageDead / move of that local.
    Returns [(fn, field, first_where, second_where)]"""
    GUARD = re.compile(r"lock_api::(mutex::MutexGuard|rwlock::RwLock(Read|Write|UpgradableRead)Guard)|std::sync::(poison::)?(mutex::MutexGuard|rwlock::RwLock(Read|Write)Guard)")
    LOCK = "re:^lock_api::(mutex::Mutex|rwlock::RwLock)<.*>::(lock|read|write|upgradable_read)$|^lock_api::(mutex::Mutex|rwlock::RwLock)::(lock|read|write|upgradable_read)$|^std::sync::(poison::)?(mutex::Mutex|rwlock::RwLock)::.*(lock|read|write)$"
    out = []
    n_guards = 0
    for n, b in sorted(F.bodies.items()):
        if not scope(n):
            continue
        locks = b.calls(LOCK)
        if len(locks) < 2:
            continue

        def lock_field(c):
            fl = [p_[1:] for o in origins(b, c.args[0], taint=True) if o.kind in ("place", "param") for p_ in o.proj if p_.startswith(".") and not p_[1:].isdigit()]
            return fl[-1] if fl else None
        for c in locks:
            l = c.dest["l"]
            if c.dest["p"] or not GUARD.search(b.locals[l]["ty"]) or not b.varnames.get(l):
                continue   # temporaries are dropped at the end of their statement
            n_guards += 1
            ends = {bb for bb, blk in enumerate(b.blocks) if blk["term"]["k"] == "drop" and blk["term"]["pl"]["l"] == l and not blk["term"]["pl"]["p"]}
            ends |= {bb for bb, blk in enumerate(b.blocks) for st in blk["stmts"] if st["k"] == "dead" and st["l"] == l}
            ends |= {k.block for k in b.calls() if any(a.get("c") == "move" and op_place(a) and op_place(a)["l"] == l and not op_place(a)["p"] for a in k.args)}
            # moved away (`drop(guard)` goes through a temporary)
            ends |= {bb for bb, i, st in b.assigns() if st["rv"]["k"] == "use" and st["rv"]["op"].get("c") == "move" and op_place(st["rv"]["op"]) and op_place(st["rv"]["op"])["l"] == l and not op_place(st["rv"]["op"])["p"]}
            if c.target is None:
                continue
            region = b.reach([c.target], avoid_blocks=sorted(ends))
            f1 = lock_field(c)
            for c2 in locks:
                if c2.block != c.block and c2.block in region and lock_field(c2) == f1 and f1 is not None:
                    kinds = (c.name.split("::")[-1], c2.name.split("::")[-1])
                    if kinds == ("read", "read"):
                        continue
                    out.append((n, f1, c.where(), c2.where(), kinds))
    return out, n_guards


def whole_reply_findings(F):
    """Server::recv hands a reply out in pieces (it returns early once its buffer reaches 8196 bytes); the connection is in step with its
    server - and Server.in_transaction is the status of the LAST request - only if every reader takes all pieces: every function of the crate
    that calls Server::recv (found, not listed) does so in a loop that is left successfully only when is_data_available() is false.
    Exceptions by name: the wrapper Client::receive_server_message (its callers send_and_receive_loop / handle are checked instead), the mirror
    task (it discards what the mirror answers; nothing of it reaches a client or a connection of the main pool) and, by shape, a function
    that reads from a connection it opened itself and drops (exec_simple_query: one row of the auth query, the connection never enters a pool).
    Returns [(key, ok, okmsg, failmsg)]"""
    RSM = "pgcat::client::Client::receive_server_message"
    SARL = "pgcat::client::Client::send_and_receive_loop::{closure#0}"
    EXEMPT = {RSM + "::{closure#0}", "pgcat::mirrors::MirroredClient::start::{closure#0}"}

    def throwaway(n):
        b_ = F.body(n)
        return all({o.call.name for o in origins(b_, c.args[0]) if o.kind == "call"} == {"pgcat::server::Server::startup"} and
                   not [o for o in origins(b_, c.args[0]) if o.kind == "param"] for c in b_.calls("pgcat::server::Server::recv"))
    out = []
    recv_callers = [n for n in F.callers_of("pgcat::server::Server::recv") if n not in EXEMPT and not throwaway(n)]
    out.append(("recv-callers", len(recv_callers) >= 3, "%d functions call Server::recv directly (%s); each must take whole replies" % (len(recv_callers), ", ".join(n.split("::")[-2] for n in recv_callers)), "callers of Server::recv not found"))
    # a `rest reader`: a reader whose loop tests the flag first (`while is_data_available() { recv }`) - entered right after a send it reads nothing, the flag being
    # what the previous reply left (false). It completes a reply only behind a recv of its own caller.
    def normal_returns(b_):
        okb_ = [blk for blk, i, st in b_.assigns() if st["lhs"]["l"] == 0 and st["rv"]["k"] == "agg" and st["rv"].get("variant") == "Ok"]
        rets_ = [bb for bb, blk_ in enumerate(b_.blocks) if blk_["term"]["k"] == "return"]
        return okb_ or rets_

    def err_blocks(b_):
        return {c.block for c in b_.calls("re:FromResidual<.*>>::from_residual$")} | {blk for blk, i, st in b_.assigns() if st["rv"]["k"] == "agg" and st["rv"].get("variant") == "Err" and "result::Result" in st["rv"].get("adt", "")}
    rest_readers = {}
    for fn in recv_callers:
        b_ = F.body(fn)
        if b_ is None:
            continue
        rc_ = b_.calls(RSM, "pgcat::server::Server::recv")
        if not b_.calls("pgcat::server::Server::send") and b_.uncrossed_path([0], normal_returns(b_), blocks=[c.block for c in rc_] + list(err_blocks(b_))) is not None:
            rest_readers[fn] = strip_generics(fn).replace("::{closure#0}", "")
    rr_names = set(rest_readers.values())
    # ... so every call of a rest reader comes after a recv that follows the last send (in the caller)
    for fn_, b_ in sorted(F.bodies.items()):
        if fn_.startswith("bin:") or not rr_names:
            continue
        hc = [c for c in b_.calls() if strip_generics(c.name) in rr_names]
        if not hc:
            continue
        sends = b_.calls("pgcat::server::Server::send")
        rc_ = [c.block for c in b_.calls(RSM, "pgcat::server::Server::recv")]
        short_ = fn_.split("::")[-2] if fn_.endswith("}") else fn_.split("::")[-1]
        for c in hc:
            starts = [s_.target for s_ in sends if s_.target is not None] or [0]
            wit = b_.uncrossed_path(starts, [c.block], blocks=rc_)
            out.append(("rest-reader-behind-a-recv:%s@%s" % (c.name.split("::")[-1], short_), wit is None,
                        "%s calls %s only after a recv that follows its send" % (short_, c.name.split("::")[-1]),
                        "%s calls %s right after a send, with no recv in between: the helper reads `while is_data_available()`, and that flag is what the previous reply left - false: the reply to what "
                        "was just sent is not read at all and answers the next request on this connection" % (short_, c.name.split("::")[-1])))
    for fn in [SARL] + recv_callers:
        b = F.body(fn)
        short = fn.split("::")[-2]
        if not b:
            out.append(("loop:" + short, False, "", "%s not found" % fn))
            continue
        sws = switches(b)
        rcv = b.calls(RSM, "pgcat::server::Server::recv")
        lh = [hd for hd in loop_headers(b) if any(c.block in natural_loop(b, hd) for c in rcv)]
        if not lh and rr_names:
            # no loop of its own: every recv is followed, on every way to a normal return, by a rest reader
            hcb = [c.block for c in b.calls() if strip_generics(c.name) in rr_names]
            wit = b.uncrossed_path([c.target for c in rcv if c.target is not None], normal_returns(b), blocks=hcb + list(err_blocks(b)))
            out.append(("loop:" + short, bool(hcb) and wit is None, "%s reads the first piece and hands the rest to %s on every way out" % (short, sorted(x.split("::")[-1] for x in rr_names)),
                        "%s does not loop over the pieces of a reply and does not hand the rest to a reader that does: only the first piece (8 KiB) of a large reply is read, the rest stays on the connection and answers the next request" % short))
            continue
        if not lh:
            out.append(("loop:" + short, False, "", "%s does not loop over the pieces of a reply: only the first piece (8 KiB) of a large reply is read, the rest stays on the connection and answers the next request" % short))
            continue
        hd = max(lh, key=lambda x: len(natural_loop(b, x)))
        loop = natural_loop(b, hd)
        T, Fa, _ = call_bool_edges(b, "pgcat::server::Server::is_data_available", switches_cache=sws)
        fT, fF = field_bool_edges(b, "data_available", sws)
        Fa = Fa | fF
        exits = {(u, v) for u in loop for v in b.succ("n")[u] if v not in loop and b.blocks[v]["term"]["k"] != "unreachable" and not b.blocks[v]["cleanup"]}
        # exits that are error returns (`?`) are fine: the transaction fails; consider exits that lead to a normal Ok continuation
        okb = [blk for blk, i, st in b.assigns() if st["lhs"]["l"] == 0 and st["rv"]["k"] == "agg" and st["rv"].get("variant") == "Ok"]
        errs = {c.block for c in b.calls("re:FromResidual<.*>>::from_residual$")} | {blk for blk, i, st in b.assigns() if st["rv"]["k"] == "agg" and st["rv"].get("variant") == "Err" and "result::Result" in st["rv"].get("adt", "")}
        norm = {(u, v) for (u, v) in exits if b.reach([v], avoid_blocks=errs) & set(okb)}
        bad = [e for e in norm if e not in Fa]
        # each normal exit must be a data_available==false edge (or be dominated by one inside this iteration)
        bad2 = [(u, v) for (u, v) in bad if b.uncrossed_path([c.target for c in rcv if c.block in loop and c.target is not None], [u], edges=Fa, blocks=[hd]) is not None]
        out.append(("exit:" + short, bool(Fa) and bool(norm) and not bad2, "the receive loop of %s is left (successfully) only when is_data_available() is false" % short,
                    "the receive loop of %s can stop while the server still has data for this request" % short))
    return out


def own_request_findings(F):
    """pgcat's own requests on a server connection (clean-up, parameter sync, health check, prewarm, Parse of a cached statement, Close of
    evicted ones) are followed by ONE receive loop, which ends at the first ReadyForQuery. So what is sent before that loop must make the
    server send exactly one ReadyForQuery: exactly one `simple_query(..)` ('Q') or `sync()` ('S') message goes into the buffer that is
    sent - no way leads from one such message being put into the buffer to another one (or, round a loop, to itself) without the buffer
    being sent in between. A buffer received as a parameter is followed to the callers (two levels).
    Returns ([(key, ok, okmsg, failmsg)], n_sites)"""
    ENDERS = ("pgcat::messages::simple_query", "pgcat::messages::sync")
    out = []
    sites = 0

    def analyse(b, sendcall, argi, depth, label):
        nonlocal sites
        vis = set()
        os_ = origins(b, sendcall.args[argi], visited=vis)
        prm = sorted({o.what for o in os_ if o.kind == "param" and isinstance(o.what, int)})
        bufs = set(vis)
        ev = []
        for e in b.calls(*ENDERS):
            if e.dest["l"] in bufs:
                ev.append(e)
                continue
            for m in b.calls():
                if m.block == e.block or len(m.args) < 2 or m.name.startswith("pgcat::"):
                    continue
                v0 = set()
                origins(b, m.args[0], visited=v0)
                if not (v0 & bufs):
                    continue
                v1 = set()
                origins(b, m.args[1], visited=v1, taint=True)
                if e.dest["l"] in v1:
                    ev.append(e)
                    break
        if ev:
            sites += 1
            starts = [e.target for e in ev if e.target is not None]
            wit = b.uncrossed_path(starts, [e.block for e in ev], blocks=[sendcall.block])
            out.append(("one-ender:" + label, wit is None, "%s: exactly one Query / Sync message goes into what is sent before the reply is awaited (%d site(s))" % (label, len(ev)),
                        "%s: more than one Query / Sync message can go into one send (%s): the server answers each with its own ReadyForQuery, the receive loop stops at the first and the "
                        "remaining replies answer the next requests on this connection - the client's among them" % (label, wit and b.describe_path(wit))))
        elif prm and depth < 2:
            # the buffer is the caller's
            fn = b.name[:-len("::{closure#0}")] if b.name.endswith("::{closure#0}") else b.name
            callers = list(F.all_calls(fn))
            if not callers:
                out.append(("one-ender:" + label, False, "", "%s sends a buffer it was given, and no caller was found" % label))
            for k in callers:
                # argument index in the caller: the coroutine's parameters are the fn's in order; _1 is the coroutine itself
                pb = F.body(fn) if fn != b.name else None
                idx = None
                if pb is not None:
                    # parameter p of the closure body corresponds to upvar/arg: find which fn argument it captures
                    for o in os_:
                        if o.kind == "param" and o.proj and o.proj[0].startswith("."):
                            idx = int(o.proj[0][1:]) if o.proj[0][1:].isdigit() else None
                else:
                    idx = prm[0] - 1
                if idx is None or idx >= len(k.args):
                    out.append(("one-ender:" + label, False, "", "%s: cannot follow the sent buffer to caller %s" % (label, k.body.name)))
                    continue
                analyse(k.body, k, idx, depth + 1, "%s<-%s" % (label, k.body.name.split("::")[-2]))
        else:
            out.append(("one-ender:" + label, False, "", "%s: no Query / Sync message found in what is sent before the reply loop" % label))
    EXEMPT = {"pgcat::client::Client::receive_server_message::{closure#0}", "pgcat::mirrors::MirroredClient::start::{closure#0}"}
    for n in F.callers_of("pgcat::server::Server::recv"):
        if n in EXEMPT:
            continue
        b = F.body(n)
        for s_ in b.calls("pgcat::server::Server::send"):
            analyse(b, s_, 1, 0, n.split("::")[-2])
    return out, sites


def pool_cell_findings(F, fields):
    """from_config builds one ConnectionPool per (pool section, user) inside nested loops. A shared cell (Arc<..>) of that object is the pool's own
    only if it is allocated inside every loop that contains the construction of the object: hoisted out of the user loop, all users of a pool
    section share it. Returns [(field, ok, allocation names)] for the given fields"""
    out = []
    for b, blk, st in F.aggregates("pgcat::pool::ConnectionPool"):
        if "from_config" not in b.name:
            continue
        rv = st["rv"]
        heads = loop_headers(b)
        inl = {hd for hd in heads if blk in natural_loop(b, hd)}
        for f, op in zip(rv["fields"], rv["ops"]):
            if f not in fields:
                continue
            allocs = [o.call for o in origins(b, op, taint=True) if o.kind == "call" and re.search(r"::(new|default|with_capacity)$", o.call.name)]
            ok = bool(inl) and bool(allocs) and all(inl <= {hd for hd in heads if a.block in natural_loop(b, hd)} for a in allocs)
            out.append((f, ok, sorted(a.name.split("::")[-2] + "::" + a.name.split("::")[-1] for a in allocs)))
    return out
def definition_identity_findings(F):
    """whether a reload changes anything is decided by comparing definitions (Pool::hash_value against ConnectionPool.config_hash; Config != Config):
    every field of every struct that is part of a definition must take part, as it is. Returns [(key, ok, okmsg, failmsg)]"""
    out = []
    _fail = lambda key, msg: out.append((key, False, "", msg))
    _ok = lambda key, msg: out.append((key, True, msg, ""))
    _check = lambda ok, key, okmsg, failmsg: out.append((key, bool(ok), okmsg, failmsg))
    # the "unchanged" test must see every part of the definition: for config::Pool and every pgcat struct
    # reachable through its field types, Hash::hash feeds each field, untransformed, to the hasher
    todo = ["pgcat::config::Pool"]
    done = set()
    while todo:
        an = todo.pop()
        if an in done:
            continue
        done.add(an)
        adt = F.adts.get(an)
        if adt is None or not adt.get("local"):
            continue
        for v in adt["variants"]:
            for f in v["fields"]:
                for m_ in re.findall(r"pgcat::[A-Za-z0-9_:]+", f["ty"]):
                    todo.append(m_)
        hb = F.body("<%s as core::hash::Hash>::hash" % an)
        if hb is None:
            _fail("Hash:%s" % an.split("::")[-1], "%s (part of a pool definition) has no Hash impl in the crate" % an)
            continue
        if adt["kind"] != "struct":
            _ok("Hash:%s" % an.split("::")[-1], "enum %s implements Hash" % an)
            continue
        want = [f["name"] for f in adt["variants"][0]["fields"]]
        got = []
        transformed = []
        for c in hb.calls("re:Hash>::hash$|impl core::hash::Hash for .*>::hash$|^core::hash::Hash::hash$"):
            os_ = origins(hb, c.args[0])
            fl = [[p_[1:] for p_ in o.proj if p_.startswith(".")] for o in os_ if o.kind in ("place", "param") and o.what == 1]
            fl = [x[0] for x in fl if x]
            if any(o.kind == "call" for o in os_):
                transformed.append(fl[0] if fl else "?")
            got.extend(fl[:1])
        missing = [f for f in want if f not in got]
        _check(not missing and not transformed, "Hash:%s" % an.split("::")[-1], "%s::hash feeds every field (%d) to the hasher as is" % (an.split("::")[-1], len(want)),
                 "the definition hash of %s %s: two pool definitions that differ there compare as unchanged and the old pool is kept after a reload" % (an, ("skips field(s) %s" % missing) if missing else ("hashes a transformed value of %s (e.g. sorted/normalised)" % transformed)))
    # ... of the section as it is: Pool::hash_value feeds `self` to the hasher, not a copy with parts blanked out
    hvb = F.body("pgcat::config::Pool::hash_value")
    if hvb is None:
        _fail("hash_value:as-is", "config::Pool::hash_value not found")
    else:
        hcalls = hvb.calls("re:Hash(<.*>)?>::hash$|^core::hash::Hash::hash$|impl core::hash::Hash for .*>::hash$")
        pure = bool(hcalls) and all({(o.kind, o.what) for o in origins(hvb, c.args[0]) if o.kind in ("param", "call", "agg")} == {("param", 1)} for c in hcalls)
        others = sorted({c.name.split("::")[-1] for c in hvb.calls("re:Clone>::clone$|::clone$|mem::(take|replace)$")})
        _check(pure and not others, "hash_value:as-is", "Pool::hash_value hashes the pool section itself",
               "Pool::hash_value hashes something else than the section as it is (%s): what the copy leaves out - a shard's mirrors, say - can change in the file without the pool being rebuilt, and the running pool "
               "keeps the old value for good" % (others or "not `self`"))
    # Config inequality (reload_config's `old_config != new_config`) must look at every field too
    for an in ("pgcat::config::Config", "pgcat::config::General"):
        eb = F.body("<%s as core::cmp::PartialEq>::eq" % an)
        adt = F.adts.get(an)
        if eb is None or adt is None:
            _fail("Eq:%s" % an.split("::")[-1], "%s has no PartialEq impl in the crate" % an)
            continue
        want = {f["name"] for f in adt["variants"][0]["fields"]}
        rd = fields_read(eb)
        _check(want <= rd, "Eq:%s" % an.split("::")[-1], "%s == compares all %d fields" % (an.split("::")[-1], len(want)), "%s == ignores field(s) %s: a reload that changes only those is treated as `no change`" % (an, sorted(want - rd)))
    return out


def refused_batch_forget_finding(F, c, HM):
    """`c` is a HashMap remove / retain on Client.prepared_statements inside forget_buffered_prepared_statements.
    A refused batch forgets the names *it* registered. The key must be the very value buffer_parse used as the key of its insert: the name in the
    client's incoming Parse. It cannot be recovered from the buffered message (`data`) or the cached Parse (`metadata`) - both carry the rewritten
    PGCAT_n name, which every statement with the same text shares (D52) and which is never a key of this map (D63: nothing was forgotten).
    Returns (ok, okmsg, failmsg)"""
    m = c.name.split("::")[-1]
    fb_ = c.body
    via = set()
    if m == "remove" and len(c.args) > 1:
        for o in origins(fb_, c.args[1], taint=True):
            pr = list(o.proj)
            for k_, p_ in enumerate(pr):
                if p_ == "@Parse" and k_ + 1 < len(pr) and pr[k_ + 1].startswith("."):
                    via.add(pr[k_ + 1][1:])
    key_calls = {o.call.name for o in origins(fb_, c.args[1], taint=True) if o.kind == "call" and o.call.name.startswith("pgcat::")} if m == "remove" and len(c.args) > 1 else set()
    carried = sorted(via - {"data", "metadata"})
    ok_key = m == "remove" and bool(carried) and not (via & {"data", "metadata"}) and not key_calls
    # ... and the field it is carried in is filled, where the Parse is buffered, with the insert key
    ok_fill = False
    bp_ = F.body("pgcat::client::Client::buffer_parse")
    cn_ = F.body("pgcat::messages::ExtendedProtocolData::create_new_parse")
    if ok_key and bp_ is not None and cn_ is not None:
        fld_param = {}
        for blk_, i_, st_ in cn_.assigns():
            if st_["rv"]["k"] == "agg" and st_["rv"].get("variant") == "Parse":
                for f_, op_ in zip(st_["rv"]["fields"], st_["rv"]["ops"]):
                    prm_ = [o.what for o in origins(cn_, op_) if o.kind == "param"]
                    if prm_:
                        fld_param[f_] = prm_[0] - 1
        ins_keys = set()
        for k_ in bp_.calls(HM):
            if k_.name.split("::")[-1] == "insert" and len(k_.args) > 1:
                ins_keys |= {o.call.block for o in origins(bp_, k_.args[1]) if o.kind == "call" and o.call.name == "pgcat::messages::Parse::get_name"}
        for f_ in carried:
            if f_ not in fld_param:
                continue
            for k_ in bp_.calls("pgcat::messages::ExtendedProtocolData::create_new_parse"):
                if fld_param[f_] < len(k_.args):
                    src_ = {o.call.block for o in origins(bp_, k_.args[fld_param[f_]]) if o.kind == "call" and o.call.name == "pgcat::messages::Parse::get_name"}
                    if src_ and src_ <= ins_keys:
                        ok_fill = True
    return (ok_key and ok_fill,
            "the refused batch's names are removed by the name the client gave them: carried in ExtendedProtocolData::Parse.%s, which buffer_parse fills with the key of its insert" % "/".join(carried),
            "forget_buffered_prepared_statements does not remove the keys buffer_parse inserted (key taken from %s): the buffered message and the cached Parse carry the rewritten PGCAT_n name - matching on it forgets an earlier, "
            "acknowledged statement with the same text (its next Bind is answered with `does not exist`), looking it up as a key forgets nothing: a statement the plugins refused stays bound to its name and a later "
            "Bind / Execute / Sync runs it on the server" % (sorted(via) or sorted(x.split("::")[-1] for x in key_calls) or m))


def pool_identity_gap(F):
    """from_config keeps a live pool when its identity (ConnectionPool.config_hash) is unchanged. The identity has to cover everything the pool is built
    from: its own section (Pool::hash_value, C14-R3 Hash:*) and every value of the rest of the configuration that from_config reads while building -
    [general] fields and the global [plugins] section. Returns (used, hashed, exempt) as sets of names ("general.ban_time", "plugins"), or None when
    the anchors are missing. `validate_config` only decides whether from_config connects while it builds."""
    b = F.body("pgcat::pool::ConnectionPool::from_config::{closure#0}")
    if b is None:
        return None
    exempt = {"general.validate_config"}

    def cfg_names(local, proj):
        names = set()
        ty = b.locals[local]["ty"] if isinstance(local, int) and local < len(b.locals) else ""
        fs = [p_[1:] for p_ in proj if isinstance(p_, str) and p_.startswith(".") and not p_[1:].isdigit()]
        for k_, f_ in enumerate(fs):
            if f_ == "general" and k_ + 1 < len(fs):
                names.add("general." + fs[k_ + 1])
        if "config::Config" in ty and fs[:1] == ["plugins"]:
            names.add("plugins")
        return names
    used = set()
    for blk, pl, how in all_places(b):
        if how == "write":
            continue
        used |= cfg_names(pl["l"], ["." + f for f in proj_fields(pl)])
    hashed = set()
    found = False
    for bb, blk, st in F.aggregates("pgcat::pool::ConnectionPool"):
        if bb is not b or "config_hash" not in st["rv"]["fields"]:
            continue
        found = True
        op = st["rv"]["ops"][st["rv"]["fields"].index("config_hash")]
        os_ = origins(b, op, taint=True)
        for o in os_:
            if o.kind in ("place", "param") and isinstance(o.what, int):
                hashed |= cfg_names(o.what, list(o.proj))
        # a hasher is fed through `x.hash(&mut hasher)`: what went into the hasher whose finish() is the identity
        for fin in [o.call for o in os_ if o.kind == "call" and re.search(r"Hasher(<.*>)?::finish$|::finish$", o.call.name)]:
            hl = set()
            origins(b, fin.args[0], visited=hl)
            for hc in b.calls("re:Hash(<.*>)?>::hash$|^core::hash::Hash::hash$|impl core::hash::Hash for .*>::hash$"):
                if len(hc.args) < 2:
                    continue
                sl = set()
                origins(b, hc.args[1], visited=sl)
                if not (sl & hl):
                    continue
                for o in origins(b, hc.args[0], taint=True):
                    if o.kind in ("place", "param") and isinstance(o.what, int):
                        hashed |= cfg_names(o.what, list(o.proj))
    if not found:
        return None
    return used, hashed, exempt


def user_override_findings(F):
    """config::User repeats some settings of config::Pool as Option<..> (pool_mode, connect_timeout, idle_timeout, server_lifetime): the user's value
    wins, the pool's is the fallback. from_config is where that precedence is applied. For every such pair of namesakes: wherever the pool-level
    field flows into what a pool is built with (PoolSettings / ConnectionPool, ServerPool::new, the bb8 builder), the user's field flows in as well.
    Returns [(field, ok, sinks)]"""
    fc = F.body("pgcat::pool::ConnectionPool::from_config::{closure#0}")
    ua = F.adts.get("pgcat::config::User")
    pa = F.adts.get("pgcat::config::Pool")
    if fc is None or ua is None or pa is None:
        return None
    uf = {f["name"]: f["ty"] for f in ua["variants"][0]["fields"]}
    pf = {f["name"] for f in pa["variants"][0]["fields"]}
    shared = sorted(n for n, ty in uf.items() if n in pf and "Option<" in ty)
    sinks = []
    for bb, blk, st in list(F.aggregates("pgcat::pool::PoolSettings")) + list(F.aggregates("pgcat::pool::ConnectionPool")):
        if bb is fc:
            for f, op in zip(st["rv"]["fields"], st["rv"]["ops"]):
                sinks.append(("%s.%s" % (st["rv"]["adt"].split("::")[-1], f), op))
    for c in fc.calls("pgcat::pool::ServerPool::new", "re:^bb8::api::Builder"):
        for k, a in enumerate(c.args):
            sinks.append(("%s#%d" % (c.name.split("::")[-1], k), a))

    def flows(op):
        """names of (struct, field) config fields the operand derives from: ('User', x) / ('Pool', x)"""
        out = set()
        for o in origins(fc, op, taint=True):
            if o.kind in ("place", "param") and isinstance(o.what, int):
                ty = fc.locals[o.what]["ty"] if o.what < len(fc.locals) else ""
                fs = [p_[1:] for p_ in o.proj if isinstance(p_, str) and p_.startswith(".") and not p_[1:].isdigit()]
                if fs and "config::User" in ty:
                    out.add(("User", fs[0]))
                if fs and "config::Pool" in ty:
                    out.add(("Pool", fs[0]))
        return out
    res = []
    for n in shared:
        hit = [(nm, flows(op)) for nm, op in sinks]
        pool_sinks = [nm for nm, fl in hit if ("Pool", n) in fl]
        bad = [nm for nm, fl in hit if ("Pool", n) in fl and ("User", n) not in fl]
        res.append((n, bool(pool_sinks) and not bad, pool_sinks, bad))
    return res


def user_override_precedence_findings(F):
    """... and the precedence itself: where both namesakes take part in one decision, the user's value is looked at first. Evidence of `a before b`:
    `a.or(b)` / `a.or_else(..b..)` / `a.unwrap_or(b)` / `a.unwrap_or_else(..b..)` (receiver first), or a test of a's discriminant that dominates the test of b's.
    A pgcat helper that receives both is followed: the evidence is read on its parameters. Returns [(field, ok|None, detail)]"""
    fc = F.body("pgcat::pool::ConnectionPool::from_config::{closure#0}")
    ua = F.adts.get("pgcat::config::User")
    pa = F.adts.get("pgcat::config::Pool")
    if fc is None or ua is None or pa is None:
        return None
    uf = {f["name"]: f["ty"] for f in ua["variants"][0]["fields"]}
    pf = {f["name"] for f in pa["variants"][0]["fields"]}
    shared = sorted(n for n, ty in uf.items() if n in pf and "Option<" in ty)
    ORS = "re:^core::option::Option::(or|or_else|unwrap_or|unwrap_or_else|xor|map_or|map_or_else)$"

    def owner_of(b, op, field):
        """which of ('User', 'Pool') the operand derives from through `field` (in from_config)"""
        out = set()
        for o in origins(b, op, taint=True):
            if o.kind in ("place", "param") and isinstance(o.what, int) and o.what < len(b.locals):
                ty = b.locals[o.what]["ty"]
                fs = [p_[1:] for p_ in o.proj if isinstance(p_, str) and p_.startswith(".") and not p_[1:].isdigit()]
                if fs and fs[0] == field:
                    if "config::User" in ty:
                        out.add("User")
                    if "config::Pool" in ty:
                        out.add("Pool")
        return out

    def param_of(b, op):
        return {o.what for o in origins(b, op, taint=True) if o.kind == "param" and isinstance(o.what, int) and 1 <= o.what <= b.argc}

    def pairs(b, classify):
        """[(class of the first, class of the second)] over the evidence found in body b; classify(op) -> set of classes"""
        out = []
        for c in b.calls(ORS):
            if len(c.args) >= 2:
                for x in classify(c.args[0]):
                    for y in classify(c.args[1]):
                        if x != y:
                            out.append((x, y))
        dsw = []
        for sw in switches(b):
            d = sw.discr()
            if d and "option::Option" in d[0]:
                cls = classify({"c": "copy", "pl": d[1]}) if isinstance(d[1], dict) else set()
                if cls:
                    dsw.append((sw, cls))
        for s1, c1 in dsw:
            for s2, c2 in dsw:
                if s1.block != s2.block and b.dominates(s1.block, s2.block):
                    for x in c1:
                        for y in c2:
                            if x != y:
                                out.append((x, y))
            # the other value need not be an Option: it is read in an arm of the test of the first
            for blk, i, st in b.assigns():
                if blk != s1.block and b.dominates(s1.block, blk) and st["rv"]["k"] in ("use", "ref", "cast"):
                    op_ = st["rv"].get("op") or ({"c": "copy", "pl": st["rv"]["pl"]} if st["rv"].get("pl") else None)
                    if op_ is None:
                        continue
                    direct = set()
                    pl_ = op_place(op_)
                    if pl_ is not None:
                        direct = classify({"c": "copy", "pl": pl_}) if not any(isinstance(p_, str) and p_.startswith("@") for p_ in pl_["p"]) else set()
                    for y in direct:
                        for x in c1:
                            if x != y:
                                out.append((x, y))
        return out
    res = []
    for n in shared:
        ev = pairs(fc, lambda op, n=n: owner_of(fc, op, n))
        for c in fc.calls():
            if not c.name.startswith("pgcat::") or len(c.args) < 2:
                continue
            who = [owner_of(fc, a, n) for a in c.args]
            iu = [k for k, w in enumerate(who) if w == {"User"}]
            ip = [k for k, w in enumerate(who) if w == {"Pool"}]
            hb = F.body(strip_generics(c.name)) if (iu and ip) else None
            if hb is None:
                continue
            pm = {iu[0] + 1: "User", ip[0] + 1: "Pool"}
            ev += pairs(hb, lambda op, hb=hb, pm=pm: {pm[k] for k in param_of(hb, op) if k in pm})
        rel = [e for e in ev if set(e) == {"User", "Pool"}]
        if not rel:
            res.append((n, None, "no decision between User.%s and Pool.%s found in from_config" % (n, n)))
        else:
            bad = [e for e in rel if e[0] == "Pool"]
            res.append((n, not bad, "%d decision(s), the user's value first" % len(rel) if not bad else "the pool's value is looked at before the user's"))
    return res


def recv_handout_findings(F):
    """Server::recv hands a reply out in pieces; `data_available` tells the caller whether more of this reply is to come. recv leaves its read loop
    before ReadyForQuery only in the arms of messages after which more data is flagged (DataRow, CopyOutResponse, CopyData of a flagged COPY OUT) or
    the server waits for the client (CopyInResponse); only 'Z' / 'G' clear the flag; only recv writes it. An early hand-out anywhere else (a
    NoticeResponse arm that `breaks` at 8 KiB, say) returns a piece with the flag false: the caller takes it for the whole reply, the clean-up finds
    nothing to do and the connection goes back to the pool with the rest unread. Returns [(key, ok|None, okmsg, failmsg)]"""
    RECV = "pgcat::server::Server::recv::{closure#0}"
    rc = F.body(RECV)
    out = []
    _chk = lambda ok, key, okmsg, failmsg, *a: out.append((key, bool(ok), okmsg, failmsg + ((" [" + str(a[1]) + "]") if len(a) > 1 and a[1] else "")))
    if rc is None:
        return [("recv-arms", None, "", "Server::recv")]
    code_sw = [sw for sw in switches(rc) if sw.ty in ("char", "u8", "u32") and any(v == 90 for v, _ in sw.targets) and any(v == 68 for v, _ in sw.targets)]
    if not code_sw:
        out.append(("recv-arms", None, "", "message-code switch in recv"))
        return out
    else:
        arms = {v: t for v, t in code_sw[0].targets}
        clr = [(blk, st) for blk, i, st in rc.assigns() if proj_fields(st["lhs"])[-1:] == ["data_available"] and st["rv"]["k"] == "use" and const_int(st["rv"]["op"]) == 0]
        sets = [(blk, st) for blk, i, st in rc.assigns() if proj_fields(st["lhs"])[-1:] == ["data_available"] and st["rv"]["k"] == "use" and const_int(st["rv"]["op"]) == 1]
        # ReadyForQuery ends a reply; CopyInResponse ('G') also ends what the server has to say for now - it waits for the client
        enders = [arms[c_] for c_ in (90, 71) if c_ in arms]
        _chk(bool(clr) and all(any(rc.dominates(a_, blk) for a_ in enders) for blk, st in clr), "only-Z-clears", "data_available is cleared only in the ReadyForQuery ('Z') and CopyInResponse ('G') arms", "data_available is cleared outside the 'Z' / 'G' arms: the reply would be cut at that message")
        if 71 in arms:
            garm = {b_ for b_ in range(rc.nblocks) if rc.dominates(arms[71], b_)}
            succ_g = rc.succ("n")
            exits_g = sorted({v for u in garm for v in succ_g[u] if v not in garm})
            wg = rc.uncrossed_path([arms[71]], exits_g, blocks=[blk for blk, st in clr])
            _chk(wg is None, "G-clears", "CopyInResponse clears data_available (the server waits for the client now)",
                     "the CopyInResponse arm leaves data_available as an earlier message of the same reply set it: after `SELECT 1; COPY t FROM STDIN` the receive loop asks the server for more while the server waits for the client's "
                     "CopyData, which nobody reads - both sides hang (with statement_timeout the server is banned)", "", wg and rc.describe_path(wg))
        for code, nm in ((68, "DataRow"), (72, "CopyOutResponse")):
            okc = code in arms and any(rc.dominates(arms[code], blk) for blk, st in sets)
            _chk(okc, "sets:%s" % nm, "%s sets data_available before the chunk is handed out" % nm, "%s no longer sets data_available (a reply flushed at the 8 KiB threshold would end the forward loop)" % nm)
        # early hand-out: recv leaves its read loop before ReadyForQuery only inside the arms of messages after which either more
        # data is flagged (DataRow / CopyOutResponse / CopyData within a flagged COPY OUT) or the server waits for the client (CopyInResponse)
        rl = [hd for hd in loop_headers(rc) if any(c.block in natural_loop(rc, hd) for c in rc.calls("pgcat::messages::read_message"))]
        if rl:
            lp = natural_loop(rc, max(rl, key=lambda x: len(natural_loop(rc, x))))
            okb_ = [blk for blk, i, st in rc.assigns() if st["lhs"]["l"] == 0 and st["rv"]["k"] == "agg" and st["rv"].get("variant") == "Ok"]
            exits_ = {(u, v) for u in lp for v in rc.succ("n")[u] if v not in lp and not rc.blocks[v]["cleanup"] and rc.blocks[v]["term"]["k"] != "unreachable" and (rc.reach([v]) & set(okb_))}
            allowed_arms = {90: "Z", 68: "D", 71: "G", 72: "H", 100: "d"}
            badx = []
            for (u, v) in sorted(exits_):
                if u == code_sw[0].block and v in {arms[c_] for c_ in allowed_arms if c_ in arms}:
                    continue  # the arm itself leaves the loop (e.g. CopyInResponse: break)
                if not any(code in arms and rc.dominates(arms[code], u) for code in allowed_arms):
                    badx.append(u)
            _chk(bool(exits_) and not badx, "early-handout-arms", "recv hands out a partial reply only from the Z / D / H / G / d arms (%d exits)" % len(exits_),
                     "recv can return before ReadyForQuery from a place that is not tied to DataRow/Copy messages (bb%s): with data_available still false the caller stops reading and the client gets a truncated reply without ReadyForQuery" % badx[:3])
        others = sorted({b_.name for b_, blk, st in F.field_writes(lambda f, b_, st: f == "data_available") if b_.name != RECV})
        _chk(not others, "flag-writers", "only Server::recv writes data_available", "data_available written by %s" % others)
    return out


def explicit_role_kept_findings(F):
    """`SET SERVER ROLE TO 'primary'|'replica'|'any'` switches the session's parser off (query_parser_enabled() == false); that switch is what keeps the
    per-statement inference from overwriting the role (and the shard selection) the client asked for. Every routing inference of the idle loop of
    Client::handle is reached only over the true edge of query_parser_enabled() - statement_parsing_enabled() is also true when only the plugins want
    the AST. Returns [(key, ok, okmsg, failmsg, where, witness)] or None when the anchors are missing."""
    H = "pgcat::client::Client::handle::{closure#0}"
    INFER = "pgcat::query_router::QueryRouter::infer"
    h = F.body(H)
    if h is None:
        return None
    infer_like = [INFER]
    for n_, b_ in F.bodies.items():
        if n_.startswith("pgcat::query_router::QueryRouter::") and "::{" not in n_ and n_ != INFER:
            ic = b_.calls(INFER)
            rets = [bb for bb, blk in enumerate(b_.blocks) if blk["term"]["k"] == "return"]
            if ic and b_.uncrossed_path([0], rets, blocks=[c.block for c in ic]) is None:
                infer_like.append(n_)
    claim = h.calls("pgcat::server::Server::claim")
    if not claim:
        return None
    hsw = switches(h)
    qpe_true, _, _ = call_bool_edges(h, "pgcat::query_router::QueryRouter::query_parser_enabled", switches_cache=hsw)
    pre_inf = [c for c in h.calls(*infer_like) if not h.dominates(claim[0].block, c.block)]
    rd_t = [c.target for c in h.calls("pgcat::messages::read_message") if not h.dominates(claim[0].block, c.block) and c.target is not None]
    out = [("inference-sites", len(pre_inf) >= 3, "%d routing inferences before the checkout (Q, P and B arms)" % len(pre_inf), "expected the routing inferences of the Q, P and B arms before the checkout, found %d" % len(pre_inf), "", None)]
    for c in pre_inf:
        wit = h.uncrossed_path(rd_t, [c.block], edges=qpe_true)
        out.append(("explicit-role-kept@%s#%d" % (c.name.split("::")[-1], pre_inf.index(c)), bool(qpe_true) and wit is None,
                    "%s runs only where query_parser_enabled() answered true (a session that set its role explicitly is not re-inferred)" % c.name.split("::")[-1],
                    "%s can run although the session switched the parser off with SET SERVER ROLE (e.g. when only the plugins ask for the AST): the role the client set explicitly is overwritten by the inferred one, "
                    "and stays overwritten" % c.name.split("::")[-1], c.where(), wit and h.describe_path(wit)))
    return out


def bind_rename_findings(F):
    """The one rewrite pgcat makes in a Bind is the statement name. Bind::rename patches the raw message: it reads the two names, writes the portal and the new
    name, and appends the rest of the client's bytes from the cursor position on, untouched - parameter formats, values (NULLs as -1) and result formats never go
    through a decoder and an encoder that could disagree. Returns [(key, ok|None, okmsg, failmsg)]"""
    br = F.body("pgcat::messages::Bind::rename")
    if br is None:
        return [("Bind::rename", None, "", "messages::Bind::rename")]
    out = []
    ps = br.calls("re:put_slice$")
    verbatim = False
    for c in ps:
        thr = []
        os_ = origins(br, c.args[1], through=thr)
        from_buf = any(o.kind == "param" and o.what == 1 for o in os_)
        for ic in thr:
            if re.search(r"Index<.*::index$", ic.name) and len(ic.args) > 1:
                idx_src = {o.call.name.split("::")[-1] for o in origins(br, ic.args[1], taint=True) if o.kind == "call"}
                if from_buf and "position" in idx_src:
                    verbatim = True
    out.append(("Bind::rename:remainder", verbatim, "Bind::rename appends buf[cursor.position()..] of the original message",
                "Bind::rename no longer copies the remainder of the original Bind verbatim: everything behind the statement name goes through a decoder and an encoder - the struct encoder measures a NULL parameter "
                "(length -1) as -1 bytes, the rewritten Bind announces a length one short per NULL and the server mis-frames the batch"))
    lens = set()
    for blk, i, st in br.assigns():
        if st["rv"]["k"] == "bin" and st["rv"]["op"] in ("Add", "Sub", "AddWithOverflow", "SubWithOverflow"):
            lens.add(st["rv"]["op"].replace("WithOverflow", ""))
    out.append(("Bind::rename:length", {"Add", "Sub"} <= lens, "the new length is derived from the old one by adding/subtracting the name lengths", "Bind::rename length arithmetic changed: %s" % sorted(lens)))
    return out



def completed_request_release_findings(F):
    """`transaction mode`: once a request is complete and no transaction (or COPY) is open, the server goes back to the pool before the client's next message is read.
    In the transaction loop of Client::handle the arms that complete a request - Query and Sync - are left towards the next read of a client message only across
    in_transaction()==true, in_copy_mode()==true or transaction_mode==false; every other way out of them leaves the loop (release, gate, idle loop). That covers the
    ways that answer the client without a round trip (a plugin's verdict, a batch answered from the statement cache). Returns [(key, ok, good, bad)] or None"""
    H = "pgcat::client::Client::handle::{closure#0}"
    h = F.body(H)
    if h is None:
        return None
    claim = h.calls("pgcat::server::Server::claim")
    rm = [c.block for c in h.calls("pgcat::messages::read_message")]
    if not claim or not rm:
        return None
    sws = switches(h)
    codesw = [sw for sw in sws if sw.ty in ("char", "u8", "u32") and len(sw.targets) >= 6 and h.dominates(claim[0].block, sw.block)]
    if not codesw:
        return None
    csw = max(codesw, key=lambda sw: len(sw.targets))
    arms = {chr(v): t for v, t in csw.targets if 0 < v < 128}
    inT, _inF, _ = call_bool_edges(h, "pgcat::server::Server::in_transaction", switches_cache=sws)
    cpT, _cpF, _ = call_bool_edges(h, "pgcat::server::Server::in_copy_mode", switches_cache=sws)
    _tmT, tmF = field_bool_edges(h, "transaction_mode", sws)
    inner_rm = [b_ for b_ in rm if h.dominates(claim[0].block, b_)]
    # the wait for the first byte (fill_buf under the idle timeout) sits in front of read_message: take the loop head of the transaction loop as the target too
    heads = [hd for hd in loop_headers(h) if any(b_ in natural_loop(h, hd) for b_ in inner_rm) and h.dominates(claim[0].block, hd)]
    targets = set(inner_rm) | ({min(heads)} if heads else set())
    if not heads:
        return None
    inner = natural_loop(h, min(heads))
    outside = [b_ for b_ in range(h.nblocks) if b_ not in inner]   # leaving the transaction loop is the release
    out = []
    for code, nm in (("Q", "Query"), ("S", "Sync")):
        if code not in arms:
            out.append(("request-complete=>released:" + nm, False, "", "no arm for %s in the transaction loop" % nm))
            continue
        wit = h.uncrossed_path([arms[code]], targets, edges=set(inT) | set(cpT) | set(tmF), blocks=outside)
        out.append(("request-complete=>released:" + nm, wit is None,
                    "every way from the %s arm back to the next client message crosses in_transaction()==true, in_copy_mode()==true or transaction_mode==false" % nm,
                    "the %s arm can go back to waiting for the client's next message without having looked at the server's transaction state (%s): a request that pgcat answers itself - a plugin's verdict, "
                    "a batch served from the statement cache - leaves the client idle, outside any transaction, with the server still checked out: nobody else can use it, the client's next transaction "
                    "starts without passing the PAUSE gate, a shutdown does not reach the client" % (nm, h.describe_path(wit) if wit else "")))
    return out



def ready_for_query_status_findings(F):
    """Server.in_transaction follows the status byte of ReadyForQuery: in Server::recv it is cleared only for 'I'; 'T' and 'E' (a failed transaction block is still a
    transaction block: it needs the ROLLBACK of check-in) set it. Returns [(key, ok, good, bad)] or None"""
    rv = F.body("pgcat::server::Server::recv::{closure#0}")
    if rv is None:
        return None
    clr, setb = [], []
    for blk, i, st in rv.assigns():
        if proj_fields(st["lhs"])[-1:] == ["in_transaction"] and st["rv"]["k"] == "use":
            v = const_int(st["rv"].get("op"))
            if v == 0:
                clr.append(blk)
            elif v == 1:
                setb.append(blk)
    sw = None
    for sw_ in switches(rv):
        vals = {v for v, _ in sw_.targets}
        if sw_.ty in ("char", "u8", "u32") and {73, 84, 69} <= vals and len(vals) <= 4:
            sw = sw_
    if sw is None or not clr:
        return None
    tg = dict(sw.targets)
    out = []
    stray = [b_ for b_ in clr if rv.uncrossed_path([0], [b_], edges=[(sw.block, tg[73])]) is not None]
    out.append(("status:cleared-only-for-I", not stray, "Server.in_transaction is cleared in recv only on the 'I' edge of the ReadyForQuery status (%d site(s))" % len(clr),
                "Server.in_transaction is cleared at bb%s without the ReadyForQuery status having been found to be 'I'" % stray))
    for v, nm in ((84, "T"), (69, "E")):
        bad_clear = sorted(clr) if tg[v] == tg[73] else []
        sets_here = [b_ for b_ in setb if rv.dominates(tg[v], b_) or b_ == tg[v]]
        ok = not bad_clear and bool(sets_here)
        out.append(("status:%s=>in-transaction" % nm, ok, "ReadyForQuery '%s' sets Server.in_transaction" % nm,
                    "ReadyForQuery '%s' does not leave Server.in_transaction set%s: a %s is taken for `no transaction` - the server is released after the statement, check-in sends no ROLLBACK and opens the gate, "
                    "the next client's statements run inside the previous client's transaction block" % (nm, " (its arm is the one that clears it)" if bad_clear else "", "failed transaction block" if nm == "E" else "transaction in progress")))
    return out



def select_cancelled_read_findings(F):
    """read_message is not cancel-safe. Where it is one branch of a `select!` in Client::handle, the other branches winning cancels it - possibly after it has taken
    the header of a message off the socket. A branch that wins must therefore not go on reading the same client (it may give the client up). Returns
    [(key, ok, good, bad, where)] or None. (`select!` arm _i waits for the i-th element of the macro's tuple of branch futures.)"""
    h = F.body("pgcat::client::Client::handle::{closure#0}")
    if h is None:
        return None
    out = []
    sws = switches(h)
    n = 0
    for sw in sws:
        d = sw.discr()
        if not (d and re.search(r"__tokio_select_util::Out<", d[0])) or d[0].startswith("core::task::poll::Poll<"):
            continue
        # (the variant names of the macro's output enum are not reliable across several select!s of one crate: arms are taken by discriminant value)
        # the tuple of this select: the nearest dominating `futures` tuple
        cands = []
        for bi, blk in enumerate(h.blocks):
            for st in blk["stmts"]:
                if st["k"] == "assign" and st["rv"]["k"] == "agg" and st["rv"]["agg"] == "tuple" and not st["lhs"]["p"] and "futures" in h.varnames.get(st["lhs"]["l"], []) and h.dominates(bi, sw.block):
                    cands.append((bi, st["rv"]["ops"]))
        if not cands:
            continue
        tup = max(cands, key=lambda x: len([b_ for b_ in range(h.nblocks) if h.dominates(b_, x[0])]))[1]
        arms = {"_%d" % v: t for v, t in sw.targets if isinstance(v, int) and 0 <= v < len(tup)}
        reads = [i for i, op in enumerate(tup) if any(o.kind == "call" and o.call.name == "pgcat::messages::read_message" for o in origins(h, op))]
        if not reads:
            continue
        n += 1
        heads = [hd for hd in loop_headers(h) if sw.block in natural_loop(h, hd)]
        head = max(heads) if heads else None
        for i, op in enumerate(tup):
            if i in reads or ("_%d" % i) not in arms:
                continue
            what = sorted({o.call.name.split("::")[-1] for o in origins(h, op) if o.kind == "call"})
            tgt = arms["_%d" % i]
            region = {b_ for b_ in h.reach([tgt], avoid_blocks=[head] if head is not None else []) if h.dominates(tgt, b_)}
            again = [c for c in h.calls("pgcat::messages::read_message", "re:AsyncBufReadExt::fill_buf$|AsyncReadExt::read(_exact|_u8|_i32|_buf)?$") if c.block in region]
            # ... or round the loop, into the same select again
            back = head is not None and any(head in h.succ("n")[b_] or any(s_ == head for s_ in h.succ("n")[b_]) for b_ in region)
            ok = not again and not back
            out.append(("select-cancelled-read=>gone#%d:%s" % (n, "+".join(what)[:40]), ok,
                        "the branch of the select that wins over read_message (%s) does not read from that client again" % what,
                        "when %s wins the select, read_message is dropped - possibly with the header of a message already taken off the socket - and the branch goes on reading the same client%s: the rest of the "
                        "interrupted message is framed as a new message (`Unexpected length value`) and the client - an admin at a graceful shutdown, who is to keep working - is disconnected"
                        % (what, " (%s)" % again[0].name.split("::")[-1] if again else " (next turn of the loop)"), (again[0].where() if again else "")))
    return out if n else None


def handle_receive_site_findings(F):
    """every place of Client::handle that takes a reply from the server takes all of it: a direct receive (not through send_and_receive_loop)
    sits in a loop that is left only when the server has no more data for this request. Returns [(key, ok, okmsg, failmsg, where)]."""
    RSM = "pgcat::client::Client::receive_server_message"
    h = F.body("pgcat::client::Client::handle::{closure#0}")
    out = []
    if h is None:
        return out
    rm_h = [c.block for c in h.calls("pgcat::messages::read_message")]
    msg_heads = {hd for hd in loop_headers(h) if any(b_ in natural_loop(h, hd) for b_ in rm_h)}
    hsw4 = switches(h)
    T4, F4, _ = call_bool_edges(h, "pgcat::server::Server::is_data_available", switches_cache=hsw4)
    succ4 = h.succ("n")
    for k_, c in enumerate(h.calls(RSM)):
        loops_ = sorted((len(natural_loop(h, hd)), hd) for hd in loop_headers(h) if hd not in msg_heads and c.block in natural_loop(h, hd))
        # the await poll loop around the call itself does not count: a receive loop contains the call *and* a test of is_data_available
        loops_ = [(n_, hd) for n_, hd in loops_ if any(e[0] in natural_loop(h, hd) for e in F4)]
        ok_loop = False
        if loops_:
            L = natural_loop(h, loops_[0][1])
            exits = {(u, v) for u in L for v in succ4[u] if v not in L and not h.blocks[v]["cleanup"] and h.blocks[v]["term"]["k"] != "unreachable"}
            err_blocks = {cc_.block for cc_ in h.calls("re:FromResidual<.*>::from_residual$")}
            leaves_fn = lambda v: not (set(h.reach([v])) & msg_heads)   # goes to a return (error exits), never back to a message loop
            bad_ex = [(u, v) for (u, v) in exits if (u, v) not in F4 and v not in err_blocks and u not in err_blocks and not any(h.dominates(e_, v) for e_ in err_blocks) and not leaves_fn(v)]
            ok_loop = bool(exits) and not bad_ex
        out.append(("handle-receive-site-loops#%d" % (k_ + 1), ok_loop, "the receive at client.rs:%s repeats until is_data_available() is false" % c.span.split(":")[1],
                    "Client::handle takes one piece of the server's reply at client.rs:%s and goes on: Server::recv hands a large reply out in pieces, so after `COPY t FROM STDIN; SELECT <many rows>` + CopyDone the client gets a prefix without ReadyForQuery, "
                    "the connection returns to the pool with the rest unread, and the next client receives those rows as the answer to its own query" % c.span.split(":")[1], c.where()))
    return out


def kept_pool_identity_findings(F):
    """A reload keeps a running bb8 pool when `config_hash` of the live pool equals the identity computed from the new file. The kept pool was built with the
    old user's pool_size: the identity must be fed by Pool::hash_value of the section *as configured* (users included - nothing cleared or rewritten on the
    way), directly or through further hashers. Returns [(key, ok, okmsg, failmsg, where)] or None when the comparison is not found."""
    fc = F.body("pgcat::pool::ConnectionPool::from_config::{closure#0}")
    if fc is None:
        return None
    HASHC = "re:Hash(<.*>)?>::hash$|^core::hash::Hash::hash$|impl core::hash::Hash for .*>::hash$"
    hash_calls = fc.calls(HASHC)

    def feeders(op_, seen_fin):
        """calls the value comes from - for the finish() of a hasher also, transitively, what was hashed into it"""
        res = []
        for oo in origins(fc, op_, taint=True):
            if oo.kind != "call":
                continue
            res.append(oo.call)
            if oo.call.name.endswith("::finish") and id(oo.call) not in seen_fin:
                seen_fin.add(id(oo.call))
                hl = set()
                origins(fc, oo.call.args[0], visited=hl)
                for hc in hash_calls:
                    sl = set()
                    if len(hc.args) >= 2:
                        origins(fc, hc.args[1], visited=sl)
                    if sl & hl:
                        res.extend(feeders(hc.args[0], seen_fin))
        return res
    found = []
    for sw in switches(fc):
        if not sw.is_bool():
            continue
        for o in sw.origins():
            if o.kind == "bin" and o.what in ("Eq", "Ne"):
                for me, other in (("a", "b"), ("b", "a")):
                    if any(".config_hash" in oo.proj for oo in origins(fc, o.extra[me]) if oo.kind == "place"):
                        found.append((sw, feeders(o.extra[other], set())))
    if not found:
        return None
    out = []
    for sw, calls in found:
        hv = [c for c in calls if c.name == "pgcat::config::Pool::hash_value"]
        if not hv:
            out.append(("kept-pool-identity-is-the-section", False, "", "what from_config compares with the live pool's config_hash is not fed by Pool::hash_value of the new section: a pool can be kept although its "
                        "section (the user's pool_size) changed - bb8 goes on allowing the old number of connections", ""))
            continue
        for c in hv:
            vis = set()
            origins(fc, c.args[0], visited=vis, taint=True)
            touched = []
            for blk, i, st in fc.assigns():
                rv = st["rv"]
                if rv["k"] == "ref" and rv.get("mut") and rv["pl"]["l"] in vis and fc.varnames.get(rv["pl"]["l"]) and any(str(p_).startswith(".") or isinstance(p_, dict) for p_ in rv["pl"]["p"]):
                    touched.append((rv["pl"]["l"], blk))
                if st["lhs"]["l"] in vis and st["lhs"]["p"] and fc.varnames.get(st["lhs"]["l"]) and any(p_ != "*" for p_ in st["lhs"]["p"]):
                    touched.append((st["lhs"]["l"], blk))
            # only what happens before the hash is taken matters
            touched = [(l, b_) for l, b_ in touched if b_ in fc.reach([0]) and c.block in fc.reach([b_])]
            names = sorted({(fc.varnames.get(l) or ["_%d" % l])[0] for l, _ in touched})
            out.append(("kept-pool-identity-is-the-section", not touched, "the identity a kept pool is compared by is Pool::hash_value of the section as configured (nothing of it is rewritten before the hash)",
                        "the section whose hash decides `unchanged => keep the running pool` is modified first (%s is written through before hash_value): what is cleared there - the users, with their pool_size - is no longer part "
                        "of the identity; after a reload that lowers pool_size the kept bb8 pool still allows the old number of server connections" % names, c.where()))
    return out

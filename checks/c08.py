"""C08 — prepared-statement caching is invisible to clients."""
from mirlib import *
from common import refused_batch_forget_finding, bind_rename_findings
from common import parse_cache_key_gap

H = "pgcat::client::Client::handle::{closure#0}"
MSG = ("Parse", "Bind", "Describe", "Close")
DEC = "<pgcat::messages::%s as core::convert::TryFrom<&bytes::bytes_mut::BytesMut>>::try_from"
ENC = "pgcat::messages::<impl core::convert::TryFrom<pgcat::messages::%s> for bytes::bytes_mut::BytesMut>::try_from"
GET_HASH = "pgcat::messages::Parse::get_hash"
ENSURE = "pgcat::client::Client::ensure_prepared_statement_is_on_server"
REGISTER = "pgcat::client::Client::register_parse_to_server_cache"
RPS = "pgcat::server::Server::register_prepared_statement::{closure#0}"
HM = "re:^std::collections::hash::map::HashMap::"


def sends_close(b):
    """does this body put a pgcat-built Close message (Close::new(..) -> bytes) into a buffer that it passes to Server::send?"""
    ext = [c for c in b.calls("re:BytesMut::extend_from_slice$", "re:BufMut>::put$", "re:BufMut>::put_slice$", "re:BytesMut::unsplit$")
           if len(c.args) > 1 and "pgcat::messages::Close::new" in {o.call.name for o in origins(b, c.args[1], taint=True) if o.kind == "call"}]
    direct = [c for c in b.calls("pgcat::server::Server::send") if "pgcat::messages::Close::new" in {o.call.name for o in origins(b, c.args[1], taint=True) if o.kind == "call"}]
    if direct:
        return True
    buf_locals = set()
    for c in ext:
        v_ = set()
        origins(b, c.args[0], visited=v_)
        buf_locals |= {l for l in v_ if b.varnames.get(l)}
    sent_locals = set()
    for c in b.calls("pgcat::server::Server::send"):
        v_ = set()
        origins(b, c.args[1], visited=v_)
        sent_locals |= {l for l in v_ if b.varnames.get(l)}
    return bool(buf_locals & sent_locals)


def rpo(body):
    succ = body.succ("n")
    seen = [False] * body.nblocks
    order = []
    stack = [(0, iter(succ[0]))]
    seen[0] = True
    while stack:
        b, it = stack[-1]
        adv = False
        for s_ in it:
            if not seen[s_]:
                seen[s_] = True
                stack.append((s_, iter(succ[s_])))
                adv = True
                break
        if not adv:
            order.append(b)
            stack.pop()
    order.reverse()
    return {b: i for i, b in enumerate(order)}


CSTR_READERS = set()   # filled by run(): pgcat::messages functions that read one nul-terminated string from a cursor


def wire_shape(body, mode):
    """linearised sequence of wire field kinds read (mode='dec') or written (mode='enc') by a codec body;
    fields inside a loop are wrapped as (..)*"""
    idx = rpo(body)
    heads = loop_headers(body)
    loops = {hd: natural_loop(body, hd) for hd in heads}
    items = []
    for c in body.calls():
        if c.block not in idx:
            continue
        kind = None
        short = c.name.split("::")[-1]
        if mode == "dec":
            if re.search(r"Buf::get_(u8|i8)$", c.name):
                kind = "u8"
            elif re.search(r"Buf::get_i16$", c.name):
                kind = "i16"
            elif re.search(r"Buf::get_i32$", c.name):
                kind = "i32"
            elif c.name.endswith("BytesMutReader>::read_string") or c.name in CSTR_READERS:
                kind = "cstr"
            elif re.search(r"Buf::copy_to_slice$", c.name):
                kind = "bytes"
        else:
            if re.search(r"BufMut::put_(u8|i8)$|BufMut>::put_(u8|i8)$", c.name):
                kind = "u8"
            elif re.search(r"put_i16$", c.name):
                kind = "i16"
            elif re.search(r"put_i32$", c.name):
                kind = "i32"
            elif re.search(r"put_slice$", c.name):
                src = {o.call.name.split("::")[-1] for o in origins(body, c.args[1]) if o.kind == "call"}
                kind = "cstr" if "as_bytes_with_nul" in src else "bytes"
        if kind is None:
            continue
        inner = sorted((len(bl), hd) for hd, bl in loops.items() if c.block in bl)
        items.append((idx[c.block], kind, inner[0][1] if inner else None))
    items.sort()
    out = []
    cur = None
    for _, kind, hd in items:
        if hd != cur:
            if cur is not None:
                out.append(")*")
            if hd is not None:
                out.append("(")
            cur = hd
        out.append(kind)
    if cur is not None:
        out.append(")*")
    return " ".join(out)


def decode_template(b):
    """rustc's packed format_args template: 0xC0 = placeholder, n<0x80 = n literal bytes follow, 0 ends"""
    parts = []
    i = 0
    while i < len(b):
        x = b[i]
        if x == 0:
            break
        if x >= 0x80:
            parts.append(("arg", None))
            i += 1
        else:
            parts.append(("lit", bytes(b[i + 1:i + 1 + x])))
            i += 1 + x
    return parts


def run(ctx):
    F = ctx.facts
    ctx.explanation = ("sibling agreement of the wire decoders/encoders (linearised field-kind sequences from the MIR call order), field coverage and unambiguity of the statement cache key, "
                       "create-before-use ordering in the Sync arm of Client::handle, who-may-write on the per-client name map, eviction => Close, and rename-only rewriting")
    ctx.assumptions = ["cross-connection histories (which server a transaction lands on, LRU order) are not decided", "SipHash collisions between distinct unambiguous encodings are not considered",
                       "lru::LruCache::push returns the evicted entry (trusted library)"]
    # readers of one nul-terminated string (lossy or raw): free functions of pgcat::messages that take the cursor and call BufRead::read_until
    for n_, b_ in F.bodies.items():
        if n_.startswith("pgcat::messages::") and "::" not in n_[len("pgcat::messages::"):] and b_.calls("re:BufRead::read_until$"):
            CSTR_READERS.add(n_)
    # ---------------- R1
    r1 = ctx.rule("C08-R1", "each of Parse/Bind/Describe/Close is decoded and re-encoded with the same sequence of wire fields; Bind::rename copies everything after the two names verbatim", floor=5)
    for m in MSG:
        d = ctx.body(DEC % m, r1)
        e = ctx.body(ENC % m, r1)
        if not d or not e:
            continue
        sd, se = wire_shape(d, "dec"), wire_shape(e, "enc")
        r1.check(sd == se and len(sd.split()) >= 4, "codec:%s" % m, "%s: decode and encode agree on [%s]" % (m, sd), "%s is decoded as [%s] but encoded as [%s]: a rewritten message differs from the original in more than the name" % (m, sd, se))
        ctx.sample({"rule": "C08-R1", "message": m, "decode": sd, "encode": se})
        # the counts of the protocol (parameter types, format codes, values) are 16 bits wide and unsigned - PostgreSQL takes up to 65535 parameters. A decoder
        # that loops over a *signed* range bounded by such a count reads nothing from 32768 on, and the encoder writes the count back in front of no items
        signed = sorted({d_["ty"] for d_ in d.locals if re.search(r"ops::range::Range(Inclusive)?<i(8|16|32|64)>", d_["ty"]) and not d_["ty"].startswith("&")})
        counted = [c for c in d.calls("re:Buf::get_[iu]16$")]
        if counted and any("Range" in d_["ty"] for d_ in d.locals):
            r1.check(not signed, "counts-unsigned:%s" % m, "%s: the item loops of the decoder run over unsigned ranges" % m,
                     "%s: the decoder loops over %s bounded by a 16-bit count of the wire: a message with more than 32767 items (a bulk INSERT with 40000 parameters) is decoded with none of them and re-encoded as a "
                     "stub that announces the items and carries none" % (m, signed))
    for key_, ok_, okm_, fm_ in bind_rename_findings(F):
        if ok_ is None:
            r1.missing(fm_)
        else:
            r1.check(ok_, key_, okm_, fm_)

    # ---------------- R2
    r2 = ctx.rule("C08-R2", "the pool cache key covers query text and parameter types, not the client's statement name, and is an unambiguous encoding of those fields", floor=3)
    gh = ctx.body(GET_HASH, r2)
    if gh:
        fr = fields_read(gh)
        r2.check("query" in fr, "covers:query", "the key covers Parse.query", "Parse.query is not part of the cache key")
        r2.check("param_types" in fr, "covers:param_types", "the key covers Parse.param_types", "Parse.param_types is not part of the cache key: statements differing only in parameter types share one server statement")
        r2.check("name" not in fr, "excludes:name", "the key does not depend on the client's statement name", "the cache key depends on the client-chosen name")
        hcalls = [c for c in gh.calls("re:core::hash::Hash>::hash$|impl core::hash::Hash for .*>::hash$|^core::hash::Hash::hash$")]
        per_field = set()
        via_format = False
        for c in hcalls:
            fl = {p[1:] for o in origins(gh, c.args[0]) if o.kind in ("place", "param") for p in o.proj if p.startswith(".")}
            per_field |= fl & {"query", "param_types", "num_params"}
            if any(o.kind == "call" and o.call.name.endswith("fmt::format") for o in origins(gh, c.args[0], taint=True)):
                via_format = True
        if {"query", "param_types"} <= per_field and not via_format:
            r2.ok("unambiguous", "each field is fed to the hasher separately (length-delimited by Hash for str / Vec)")
        elif via_format:
            tmpl = None
            for c in gh.calls("re:^core::fmt::Arguments::.*new"):
                b_ = const_bytes(c.args[0]) if c.args else None
                if b_ is None and c.args:
                    for o in origins(gh, c.args[0]):
                        if o.kind == "const" and o.extra and "bytes" in o.extra:
                            b_ = bytes(o.extra["bytes"])
                if b_:
                    tmpl = decode_template(b_)
            ok = False
            if tmpl:
                ok = True
                for i in range(len(tmpl) - 1):
                    if tmpl[i][0] == "arg" and tmpl[i + 1][0] == "arg":
                        ok = False
            r2.check(ok, "unambiguous", "formatted key has a literal separator between all variable-width fields",
                     "the key is a concatenation without separators (template %s): (\"SELECT $1\", types=[0]) and (\"SELECT $11\", types=[]) both hash \"SELECT $110\", so two different statements share one PGCAT_n" % (tmpl,), GET_HASH)
        else:
            r2.fail("unambiguous", "cannot recognise how the key is built (fields hashed: %s)" % sorted(per_field))
        gap, encf, hashf = parse_cache_key_gap(F)
        r2.check(gap is not None and not gap, "covers-every-encoded-field", "every client-supplied field the Parse encoder writes (%s) is part of the key" % sorted(encf), "Parse.%s is sent to the server from the cached message but is not part of the key: two different Parse messages share one cache entry" % gap)
    # the cache is keyed by that hash and returns the cached rewritten Parse
    goi = ctx.body("pgcat::pool::PreparedStatementCache::get_or_insert", r2)
    if goi:
        rw = goi.calls("pgcat::messages::Parse::rewrite")
        r2.check(bool(rw), "rewrite-on-miss", "a cache miss stores parse.clone().rewrite()", "get_or_insert no longer rewrites the statement name on insert")

    # ---------------- R3
    r3 = ctx.rule("C08-R3", "in the Sync arm a Bind/Describe of a cached statement is forwarded only after ensure_prepared_statement_is_on_server succeeded; a cached Parse is forwarded iff the server does not have it (else ParseComplete is synthesised)", floor=4)
    h = ctx.body(H, r3)
    if h:
        hsw = switches(h)
        ep = None
        for sw in hsw:
            d = sw.discr()
            if d and d[0].endswith("messages::ExtendedProtocolData") and len(d[2]) >= 4:
                ep = (sw, d)
        if not ep:
            r3.missing("switch on ExtendedProtocolData in handle")
        else:
            sw, d = ep
            bufputs = []
            for c in h.calls("re:BufMut>::put$|BufMut::put$"):
                fl = {p for o in origins(h, c.args[0]) if o.kind in ("place", "param") for p in o.proj if p.startswith(".")}
                if ".buffer" in fl:
                    bufputs.append(c)
            for v in ("Bind", "Describe"):
                tgt = d[2].get(v)
                if tgt is None:
                    r3.missing("arm ExtendedProtocolData::%s" % v)
                    continue
                puts = [c.block for c in bufputs if h.dominates(tgt, c.block)]
                # the entry's metadata: the client's name (before D54) or the statement itself
                noneE, someE, _ = discr_edges(h, r"core::option::Option<(alloc::string::String|\(alloc::sync::Arc<pgcat::messages::Parse>, u64\))>", "None", switches_cache=[s_ for s_ in hsw if h.dominates(tgt, s_.block)])
                contE, _, _ = discr_edges(h, r"ControlFlow<", "Continue", origin_pred=lambda o: o.kind == "call" and o.call.name == ENSURE, switches_cache=hsw)
                ok = bool(puts) and bool(contE) and h.uncrossed_path([tgt], puts, edges=set(noneE) | set(contE)) is None
                r3.check(ok, "arm:%s" % v, "%s with a cached statement name is appended only after ensure_prepared_statement_is_on_server() returned Ok" % v,
                         "a %s naming a cached statement can be forwarded before the statement is ensured on this server" % v)
            tgt = d[2].get("Parse")
            if tgt is not None:
                T, Fa, _ = call_bool_edges(h, "pgcat::server::Server::has_prepared_statement", switches_cache=hsw)
                puts = [c.block for c in bufputs if h.dominates(tgt, c.block)]
                pc = [c.block for c in h.calls("pgcat::messages::parse_complete") if h.dominates(tgt, c.block)]
                noneE, someE, _ = discr_edges(h, r"core::option::Option<\(alloc::sync::Arc<pgcat::messages::Parse>, u64\)>", "None", switches_cache=[s_ for s_ in hsw if h.dominates(tgt, s_.block)])
                okp = bool(T) and bool(pc) and all(any(h.dominates(e[1], b_) for e in T) for b_ in pc)
                r3.check(okp, "arm:Parse:synth", "ParseComplete is synthesised only when the server already has the statement", "ParseComplete is synthesised although the server may not have the statement")
                regc = [c.block for c in h.calls(REGISTER)]
                contR, _, _ = discr_edges(h, r"ControlFlow<", "Continue", origin_pred=lambda o: o.kind == "call" and o.call.name == REGISTER, switches_cache=hsw)
                okf = bool(puts) and h.uncrossed_path([tgt], puts, edges=set(noneE) | set(contR)) is None and all(any(h.dominates(e[1], b_) for e in Fa) or any(h.dominates(e[1], b_) for e in noneE) for b_ in puts)
                r3.check(okf, "arm:Parse:forward", "a cached Parse is forwarded only on has_prepared_statement()==false after registering it in the server cache", "a cached Parse can be forwarded although the server already has it, or without being registered")

    # ---------------- R4
    r4 = ctx.rule("C08-R4", "the client's name map is written only by buffer_parse (insert under the client's own name) and by the Close / error / refused-batch paths (remove); Bind/Describe rewriting reads only that map", floor=4)
    allowed = {"insert": {"pgcat::client::Client::buffer_parse"},
               # a client Close, applied when it is read (D33); the statements of a refused batch. NOT the re-prepare helper: a Parse pgcat sends on its own
               # behalf can fail for reasons that pass (the transaction is in the failed state), the client's statement is still the client's (D51)
               "remove": {H, "pgcat::client::Client::forget_closed_statement", "pgcat::client::Client::forget_buffered_prepared_statements"},
               "retain": set(),
               "get": {"pgcat::client::Client::buffer_bind::{closure#0}", "pgcat::client::Client::buffer_describe::{closure#0}", ENSURE + "::{closure#0}"}}
    seen = {}
    for c in F.all_calls(HM):
        if not c.args:
            continue
        fl = {p for o in origins(c.body, c.args[0]) if o.kind in ("place", "param") for p in o.proj if p.startswith(".")}
        if ".prepared_statements" not in fl:
            continue
        m = c.name.split("::")[-1]
        if m in ("new",):
            continue
        seen.setdefault(m, set()).add(c.body.name)
        # reading the map cannot change which statement a name stands for: any method of Client may look a name up (the routing look-up added for D47 does)
        r4.check(c.body.name in allowed.get(m, set()) or (m in ("get", "contains_key") and c.body.name.startswith("pgcat::client::Client::")), "%s@%s" % (m, c.body.name.replace("pgcat::client::", "")), "HashMap::%s on Client.prepared_statements" % m,
                 "unexpected HashMap::%s on Client.prepared_statements in %s" % (m, c.body.name), c.where())
        if c.body.name.startswith("pgcat::client::Client::forget_buffered_prepared_statements") and m in ("remove", "retain"):
            okf_, okm_, fm_ = refused_batch_forget_finding(F, c, HM)
            r4.check(okf_, "refused-batch-forgets-by-client-name", okm_, fm_, c.where())
        if m == "remove" and len(c.args) > 1:
            # statements and portals are two name spaces: Close('P', name) closes a portal, the statement of the same name stays the client's
            kv = set()
            ko = origins(c.body, c.args[1], taint=True, visited=kv)
            from_close = any("pgcat::messages::Close" in c.body.locals[l]["ty"] for l in kv) or any(o.kind == "call" and o.call.name.startswith("pgcat::messages::Close::") for o in ko)
            if from_close:
                isT, _, _ = call_bool_edges(c.body, "pgcat::messages::Close::is_prepared_statement", switches_cache=switches(c.body))
                wit = c.body.uncrossed_path([0], [c.block], edges=isT)
                r4.check(bool(isT) and wit is None, "close-of-a-statement-only@%s" % c.body.name.replace("pgcat::client::", "").replace("::{closure#0}", ""), "a Close takes a statement's name away only where Close::is_prepared_statement() answered true",
                         "a Close removes the client's statement of that name whatever it closes: after Close('P', \"a\") - closing the portal \"a\" - the prepared statement \"a\" is forgotten, its next Bind is answered with "
                         "`prepared statement \"a\" does not exist` and the client is disconnected", c.where(), wit and c.body.describe_path(wit))
        if m in ("get", "contains_key", "get_mut") and c.body.name.startswith(ENSURE):
            # the batch is replayed at its Sync, after every message of it was read: a name that a later Close of the same batch took away is gone by then.
            # What a buffered Bind / Describe needs (the statement to ensure) has to be captured when it is read, not looked up again by name (D54)
            r4.fail("replay-needs-no-name-lookup", "ensure_prepared_statement_is_on_server looks the client's name up again when the batch is replayed: after `Parse s1, Bind s1, Execute, Close s1, Sync` "
                    "(prepare, run, close in one round trip) the name is gone, the look-up fails and the client is disconnected without a reply", c.where())
        if m == "insert":
            src = {o.call.name for o in origins(c.body, c.args[1]) if o.kind == "call"}
            r4.check("pgcat::messages::Parse::get_name" in src, "insert-key", "the key is the client's own statement name (Parse::get_name of the message)", "the insert key does not come from the client's Parse message: %s" % sorted(src))
            vsrc = {o.call.name for o in origins(c.body, c.args[2], taint=True) if o.kind == "call"}
            r4.check("pgcat::pool::ConnectionPool::register_parse_to_cache" in vsrc, "insert-value", "the value is the pool cache's rewritten Parse", "the stored Parse does not come from the pool cache")
    r4.check("insert" in seen and "get" in seen, "present", "insert/get sites present", "name map accesses missing: %s" % sorted(seen))
    # `caching is invisible`: a statement the client prepared - under whatever name, the empty one included - is the client's until it replaces or closes it, on whichever
    # server connection the next batch lands. With the cache on, every Parse goes through the map (buffer_parse registers it) and every Bind looks its statement up there:
    # a name that bypasses the map (round 10: the unnamed statement passed through `as it is`) lives on one server connection only - the next batch finds another
    # client's statement under it, or none
    for fn, need, what in (("pgcat::client::Client::buffer_parse", "insert", "records the statement in the client's map"),
                           ("pgcat::client::Client::buffer_bind::{closure#0}", "get", "looks the statement up in the client's map")):
        b = F.body(fn)
        if b is None:
            continue
        site = [c.block for c in b.calls(HM) if c.name.split("::")[-1] == need and ".prepared_statements" in {p_ for o in origins(b, c.args[0]) if o.kind in ("place", "param") for p_ in o.proj if p_.startswith(".")}]
        enT, enF = field_bool_edges(b, "prepared_statements_enabled", switches(b))
        okb = [blk for blk, i, st in b.assigns() if st["lhs"]["l"] == 0 and st["rv"]["k"] == "agg" and st["rv"].get("variant") == "Ok"]
        wit = b.uncrossed_path([d_ for _, d_ in enT], okb, blocks=site) if enT and site and okb else [0]
        short = fn.replace("::{closure#0}", "").split("::")[-1]
        r4.check(bool(enT) and bool(site) and wit is None, "every-statement-through-the-map:" + short, "with the cache on, every successful way through %s %s" % (short, what),
                 "with the cache on, %s can succeed without having %s (%s): that statement exists only on the server connection the batch happened to run on - in transaction mode the client's next batch "
                 "runs another client's statement of that name, or fails with `prepared statement does not exist`" % (short, what.replace("records", "recorded").replace("looks", "looked"), wit and wit != [0] and b.describe_path(wit)))
    for fn in ("pgcat::client::Client::buffer_bind::{closure#0}", "pgcat::client::Client::buffer_describe::{closure#0}"):
        b = ctx.body(fn, r4)
        if b:
            r4.check(not b.calls("pgcat::pool::get_pool", "re:PreparedStatementCache"), "rewrite-uses-own-map:" + fn.split("::")[-2], "%s consults only the client's own map" % fn.split("::")[-2], "%s consults a pool-wide structure by client name" % fn)

    # ---------------- R5
    r5 = ctx.rule("C08-R5", "a statement evicted from a server's cache is closed on that server (at once, or recorded and closed later - never forgotten); a failed Parse is dropped from the server cache", floor=3)
    ADD = "pgcat::server::Server::add_prepared_statement_to_cache"
    pending = set()   # Server fields that hold evicted-but-not-yet-closed names
    evict_sites = 0
    for c in F.all_calls(ADD):
        b = c.body
        bsw = switches(b)
        someE, noneE, _ = discr_edges(b, r"core::option::Option<alloc::string::String>", "Some", origin_pred=lambda o, c=c: o.kind == "call" and o.call is c or (o.kind == "call" and o.call.block == c.block), switches_cache=bsw)
        short = b.name.replace("::{closure#0}", "").split("::")[-1]
        if not someE:
            r5.check(False, "evicted-name-used:" + short, "", "%s calls add_prepared_statement_to_cache and ignores the evicted name: the statement stays open on the server" % short, c.where())
            continue
        evict_sites += 1
        from_add = lambda op, c=c, b=b: any(o.kind == "call" and o.call.block == c.block for o in origins(b, op, taint=True))
        closes = [k for k in b.calls("pgcat::messages::Close::new") if from_add(k.args[0])]
        records = []
        for k in b.calls("re:^alloc::(vec::Vec|collections::vec_deque::VecDeque)::(push|push_back|insert)$", "re:^std::collections::hash::set::HashSet::insert$"):
            if from_add(k.args[-1]):
                flds = {p_[1:] for o in origins(b, k.args[0]) if o.kind in ("place", "param") for p_ in o.proj if p_.startswith(".") and not p_[1:].isdigit()}
                if flds:
                    records.append((k, flds))
        rets = [bb for bb, blk in enumerate(b.blocks) if blk["term"]["k"] == "return"]
        w = b.uncrossed_path([d for _, d in someE], rets, blocks=[k.block for k in closes] + [k.block for k, _ in records])
        r5.check(w is None and (closes or records), "evict=>close-or-record:" + short, "in %s an evicted name is always turned into a Close or recorded for closing" % short,
                 "in %s an evicted statement can be forgotten: it stays open on the server" % short, c.where(), w and b.describe_path(w))
        for k, flds in records:
            pending |= flds
        if closes:
            # eager shape: the Close bytes must be in the buffer that is sent before returning
            r5.check(sends_close(b), "Close-bytes-are-sent:" + short, "the Close built in %s is appended to the buffer that Server::send transmits" % short, "the Close message built in %s is not sent" % short)
    r5.check(evict_sites >= 1, "eviction-sites", "%d site(s) receive the name evicted by the LRU" % evict_sites, "no site handles the evicted statement name")
    flushers = []
    if pending:
        r5.note("evicted names are recorded in Server.%s and closed later" % sorted(pending))
        for n_, b in F.bodies.items():
            if n_.startswith("bin:"):
                continue
            cl = [k for k in b.calls("pgcat::messages::Close::new") if any(o.kind in ("place", "param") and set(p_[1:] for p_ in o.proj if p_.startswith(".")) & pending for o in origins(b, k.args[0], taint=True))]
            if cl and sends_close(b):
                flushers.append(b)
        r5.check(bool(flushers), "pending=>Close+send", "recorded names are turned into Close messages and sent by %s" % [b.name.split("::")[-2] for b in flushers], "names recorded in Server.%s are never closed on the server" % sorted(pending))
        for b in flushers:
            bsw = switches(b)
            sd = [k.block for k in b.calls("pgcat::server::Server::send")]
            oks = [blk for blk, i_, st in b.assigns() if st["rv"]["k"] == "agg" and st["rv"].get("variant") == "Ok" and st["lhs"]["l"] == 0]
            empty_true = set()
            for sw2, o, te, fe in bool_value_edges(b, lambda o: o.kind == "call" and re.search(r"::is_empty$", o.call.name), bsw):
                if {p_[1:] for oo in origins(b, o.call.args[0]) if oo.kind in ("place", "param") for p_ in oo.proj if p_.startswith(".")} & pending:
                    empty_true.add(te)
            w = b.uncrossed_path([0], oks, blocks=sd, edges=empty_true)
            r5.check(w is None, "flush-sends:" + b.name.split("::")[-2], "%s returns Ok without sending only when nothing is recorded" % b.name.split("::")[-2], "%s can return Ok with names recorded and nothing sent" % b.name.split("::")[-2], "", w and b.describe_path(w))
            callers = sorted({k.body.name for k in F.all_calls(b.name.replace("::{closure#0}", ""))})
            r5.check(H in callers, "flush-called:" + b.name.split("::")[-2], "Client::handle calls it", "%s is never called from Client::handle (callers: %s)" % (b.name.split("::")[-2], callers))
        # who removes names from the record without closing them
        MUT = r"::(clear|truncate|pop|pop_front|pop_back|remove|swap_remove|retain|drain|take|replace|split_off|dedup)$"
        removers = {}
        for c in F.all_calls("re:" + MUT):
            flds = {p_[1:] for o in origins(c.body, c.args[0]) if o.kind in ("place", "param") for p_ in o.proj if p_.startswith(".") and not p_[1:].isdigit()}
            if flds & pending and c.body.name.startswith("pgcat::server::"):
                removers.setdefault(c.body.name.replace("::{closure#0}", "").split("::")[-1], set()).add(c.name.split("::")[-1])
        flush_names = {b.name.split("::")[-2] for b in flushers}
        for fn, ops in sorted(removers.items()):
            if fn in flush_names:
                ok, why = True, "the flusher takes the names it closes"
            elif fn == "has_prepared_statement":
                hp_ = F.body("pgcat::server::Server::has_prepared_statement")
                ok, why = bool(hp_ and hp_.calls(ADD)), "a recorded statement that is needed again is put back into the cache (it is still on the server)"
            elif fn == "checkin_cleanup":
                cc = F.body("pgcat::server::Server::checkin_cleanup::{closure#0}")
                dea = [k.block for k in (cc.calls() if cc else []) if any("DEALLOCATE ALL" in x.upper() or "DISCARD ALL" in x.upper() for x in arg_strs(cc, k))]
                clr = [k.block for k in (cc.calls("re:" + MUT) if cc else []) if {p_[1:] for o in origins(cc, k.args[0]) if o.kind in ("place", "param") for p_ in o.proj if p_.startswith(".")} & pending]
                ok = bool(dea) and bool(clr) and all(any(cc.dominates(d_, b_) for d_ in dea) for b_ in clr) and bool(cc.calls("re:LruCache.*::clear$"))
                why = "DEALLOCATE ALL drops every statement on the server, the cache and the record are cleared together"
            elif fn == "recv":
                # the server itself reported that the session's statements are gone (command tag DEALLOCATE ALL / DISCARD ALL, D39)
                rvb = F.body("pgcat::server::Server::recv::{closure#0}")
                ok = False
                if rvb:
                    rsw_ = switches(rvb)
                    tedges = []
                    for k in rvb.calls("re:PartialEq.*::eq$"):
                        if {"DEALLOCATE ALL", "DISCARD ALL"} & set(arg_strs(rvb, k)):
                            tedges += [te for _s, _o, te, _f in bool_value_edges(rvb, lambda o, k=k: o.kind == "call" and o.call.block == k.block, rsw_)]
                    rem = [k for k in rvb.calls("re:" + MUT) if {p_[1:] for o in origins(rvb, k.args[0]) if o.kind in ("place", "param") for p_ in o.proj if p_.startswith(".")} & pending]
                    ok = bool(rem) and all(any(rvb.dominates(te[1], k.block) for te in tedges) for k in rem)
                why = "only under the command tags DEALLOCATE ALL / DISCARD ALL, when the server has dropped them itself"
            else:
                ok, why = False, ""
            r5.check(ok, "record-remover:" + fn, "%s removes from the record (%s): %s" % (fn, sorted(ops), why), "%s removes names from Server.%s (%s) without closing them on the server" % (fn, sorted(pending), sorted(ops)))
    # every statement pgcat itself sends that drops all prepared statements of the session empties the cache with it (round 5)
    cc5 = ctx.body("pgcat::server::Server::checkin_cleanup::{closure#0}", r5)
    if cc5:
        cc5sw = switches(cc5)
        qs = [k.block for k in cc5.calls("pgcat::server::Server::query")]
        clears = [k.block for k in cc5.calls("re:LruCache.*::clear$")]
        dea5 = [k for k in cc5.calls() if any(re.search(r"DEALLOCATE\s+ALL|DISCARD\s+ALL", x.upper()) for x in arg_strs(cc5, k))]
        if not dea5 or not qs:
            r5.missing("DEALLOCATE ALL / DISCARD ALL text or Server::query in checkin_cleanup")
        for k in dea5:
            txt = [x for x in arg_strs(cc5, k) if re.search(r"DEALLOCATE\s+ALL|DISCARD\s+ALL", x.upper())][0]
            noneE, _, _ = discr_edges(cc5, r"core::option::Option<(&mut )?lru::LruCache", "None", switches_cache=cc5sw)  # no cache configured: nothing to empty
            w = cc5.uncrossed_path([k.block], qs, blocks=clears, edges=noneE)
            r5.check(w is None, "drops-all=>cache-cleared:" + txt.strip(" ;"), "`%s` is sent only after the server-side statement cache was emptied" % txt.strip(), "checkin_cleanup can send `%s` (every PGCAT_n statement of the connection is gone) and keep the statement cache: has_prepared_statement() keeps answering true, no Parse is sent again and every later Bind of a cached statement fails with `prepared statement does not exist`" % txt.strip(), k.where(), w and cc5.describe_path(w))
    # ... and so does every such statement a *client* runs: the server reports it with the command tag (D39)
    rv5 = ctx.body("pgcat::server::Server::recv::{closure#0}", r5)
    if rv5:
        rsw5 = switches(rv5)
        clears5 = [k.block for k in rv5.calls("re:LruCache.*::clear$")]
        for tag in ("DEALLOCATE ALL", "DISCARD ALL"):
            eqs = [k for k in rv5.calls("re:PartialEq.*::eq$") if tag in arg_strs(rv5, k)]
            ok5 = False
            for k in eqs:
                for sw_, o_, te, fe in bool_value_edges(rv5, lambda o, k=k: o.kind == "call" and o.call.block == k.block, rsw5):
                    if any(rv5.dominates(te[1], b_) for b_ in clears5):
                        ok5 = True
            r5.check(ok5, "client-drops-all=>cache-cleared:" + tag, "the command tag `%s` empties the server-side statement cache" % tag,
                     "Server::recv does not react to the command tag `%s`: a client that runs it drops every PGCAT_n statement of the connection while pgcat's cache keeps them - has_prepared_statement() answers true, no Parse is sent again, "
                     "and every later Bind of a cached statement by any client of that connection fails with `prepared statement \"PGCAT_n\" does not exist`" % tag)
    rp = ctx.body(RPS, r5)
    if rp:
        r5.check(bool(rp.calls("re:VecDeque::push_back$")), "registering-queue", "the statement being registered is queued for error handling", "register_prepared_statement no longer records the statement being registered")
    rv = ctx.body("pgcat::server::Server::recv::{closure#0}", r5)
    if rv:
        pops = rv.calls("re:LruCache.*::pop$")
        r5.check(bool(pops), "error=>uncache", "an ErrorResponse pops the registering statement from the server cache", "recv no longer removes a failed statement from the server cache")
    ac = ctx.body("pgcat::server::Server::add_prepared_statement_to_cache", r5)
    if ac:
        r5.check(bool(ac.calls("re:LruCache.*::push$")), "lru-push", "the server cache is an LRU push (returns the evicted entry)", "add_prepared_statement_to_cache no longer uses LruCache::push")

    # ---------------- R4 continued (D33): the name map follows the order of the client's messages
    if ctx.body(H):
        h4 = ctx.body(H)
        pf4 = [c for c in h4.calls("re:VecDeque::pop_front$") if "extended_protocol_data_buffer" in {p_[1:] for o in origins(h4, c.args[0]) if o.kind in ("place", "param") for p_ in o.proj if p_.startswith(".")}]
        rm4 = [c.block for c in h4.calls("pgcat::messages::read_message")]
        heads4 = [hd for hd in loop_headers(h4) if any(c.block in natural_loop(h4, hd) for c in pf4) and not any(b_ in natural_loop(h4, hd) for b_ in rm4)]
        if heads4:
            L4 = natural_loop(h4, max(heads4, key=lambda hd: -len(natural_loop(h4, hd))))
            late = [c for c in h4.calls("re:HashMap::.*(remove|retain|clear)$") if c.block in L4 and "prepared_statements" in {p_[1:] for o in origins(h4, c.args[0]) if o.kind in ("place", "param") for p_ in o.proj if p_.startswith(".")}]
            r4.check(not late, "close-applied-in-message-order", "the replay of the buffered batch at Sync does not touch the client's name map (names are given and taken when the messages are read)",
                     "a Close is applied to the client's name map when the batch is replayed at Sync, but a Parse registers its name when it is read: `Close S1; Parse S1` in one batch deletes the new S1, "
                     "the client gets ParseComplete and its next Bind S1 fails", late[0].where() if late else "")
        # every place that reads a client Close forgets the name there
        removers = {n_ for n_, b_ in F.bodies.items() if n_.startswith("pgcat::client::Client::") and any("prepared_statements" in {p_[1:] for o in origins(b_, c.args[0]) if o.kind in ("place", "param") for p_ in o.proj if p_.startswith(".")} for c in b_.calls("re:HashMap::.*remove$"))}
        reads_close = [c for c in h4.calls(DEC % "Close", "re:TryInto<.*>::try_into$") if any("messages::Close" in t for t in c.targs) or c.name == DEC % "Close"]
        nclose = 0
        for c in reads_close:
            nclose += 1
            nxt = h4.reach([c.target] if c.target is not None else [], avoid_blocks=rm4)
            okc = any(k.block in nxt for k in h4.calls(*sorted(removers))) if removers else False
            r4.check(okc, "close-read=>name-forgotten#%d" % nclose, "the Close read at client.rs:%s takes the name out of the map there" % c.span.split(":")[1], "the Close read at client.rs:%s does not update the client's name map when it is read" % c.span.split(":")[1], c.where())
        r4.check(nclose >= 2, "close-read-sites", "%d sites read a client Close" % nclose, "expected the two Close arms of Client::handle, found %d" % nclose)

    # ---------------- R7 (D12)
    # ... and closed once: when the Closes have been sent, the list of names waiting to be closed is empty on every way out - has_prepared_statement() reads that list as
    # `still on the server, take it back`; a name that stays listed after its Close went out is taken back without a Parse and the next Bind of it fails for good
    ce = F.body("pgcat::server::Server::close_evicted_prepared_statements::{closure#0}")
    if ce is None:
        r5.missing("Server::close_evicted_prepared_statements")
    else:
        def on_pending(c):
            return bool(c.args) and any(("." + f) in o.proj for f in pending for o in origins(ce, c.args[0], taint=True) if o.kind in ("place", "param"))
        empt = [c.block for c in ce.calls("re:^core::mem::(take|swap|replace)$", "re:^alloc::vec::Vec(<.*>)?::(clear|drain|truncate)$") if on_pending(c)]
        snd = ce.calls("pgcat::server::Server::send")
        oks = [blk for blk, i, st in ce.assigns() if st["lhs"]["l"] == 0 and st["rv"]["k"] == "agg" and st["rv"].get("variant") == "Ok"]
        if not snd or not pending:
            r5.missing("send / pending-close list in close_evicted_prepared_statements")
        else:
            before = any(ce.dominates(e, snd[0].block) for e in empt)
            wit = None if before else ce.uncrossed_path([snd[0].target] if snd[0].target is not None else [], oks, blocks=empt)
            r5.check(bool(empt) and wit is None, "closed=>no-longer-pending", "once the Closes are sent the pending-close list (%s) is empty on every way to Ok" % sorted(pending),
                     "close_evicted_prepared_statements can return Ok with the names it has just closed still on the pending-close list (emptied only on some ways - e.g. under a flag like query_failed, which earlier, unrelated "
                     "errors leave set): the cache takes such a name back as `still on the server`, no Parse is sent, and the client's Bind of a statement it prepared and never closed fails with `does not exist` - every time", "", wit and ce.describe_path(wit))
    r7 = ctx.rule("C08-R7", "a statement made available for the batch being assembled stays on the server until the batch is sent: nothing reachable from the batch-assembly region of the Sync arm sends a pgcat-built Close, "
                  "and a statement recorded for closing is taken back when it is needed again", floor=3)
    h = ctx.body(H, r7)
    if h:
        pf = [c for c in h.calls("re:VecDeque::pop_front$") if "extended_protocol_data_buffer" in {p_[1:] for o in origins(h, c.args[0]) if o.kind in ("place", "param") for p_ in o.proj if p_.startswith(".")}]
        heads = [hd for hd in loop_headers(h) if any(c.block in natural_loop(h, hd) for c in pf)]
        rm = [c.block for c in h.calls("pgcat::messages::read_message")]
        heads = [hd for hd in heads if not any(b_ in natural_loop(h, hd) for b_ in rm)]
        if not pf or not heads:
            r7.missing("the loop that drains extended_protocol_data_buffer in Client::handle")
        else:
            drain = max(heads, key=lambda hd: -len(natural_loop(h, hd)))
            msg_heads = [hd for hd in loop_headers(h) if any(b_ in natural_loop(h, hd) for b_ in rm)]
            rm = rm + msg_heads   # one message at a time: do not wrap around into the next iteration of the message loops
            fwd = h.reach([drain], avoid_blocks=rm)
            sends = [c for c in h.calls("pgcat::client::Client::send_and_receive_loop", "pgcat::client::Client::send_server_message", "pgcat::server::Server::send") if c.block in fwd]
            if not sends:
                r7.missing("the send of the assembled batch after the drain loop")
            else:
                bwd = h.backreach([c.block for c in sends], avoid_blocks=rm)
                region = set(fwd) & set(bwd)
                closers = {n_ for n_, b in F.bodies.items() if not n_.startswith("bin:") and sends_close(b)}
                r7.note("batch-assembly region: %d blocks from the drain loop (bb%d) to the batch send; bodies that send a pgcat-built Close: %s" % (len(region), drain, sorted(x.split("::")[-2] if x.endswith("}") else x.split("::")[-1] for x in closers)))
                n_calls = 0
                seen_k = {}
                for c in h.calls():
                    if c.block not in region or not c.name.startswith("pgcat::") or c.name.endswith("}") or c.block in [s_.block for s_ in sends]:
                        continue   # `{closure#0}` callees are the polls of futures created by the calls examined here
                    n_calls += 1
                    short = c.name.split("::")[-1]
                    seen_k[short] = seen_k.get(short, 0) + 1
                    hit = sorted(F.reachable_fns([c.name]) & closers)
                    r7.check(not hit, "no-close-while-assembling:%s#%d" % (short, seen_k[short]), "%s does not reach a Close-sending routine" % short,
                             "while the batch is being assembled %s can send Close for a cached statement (via %s): a statement an earlier Bind/Describe of the same batch relies on is closed before the batch is sent "
                             "(`prepared statement \"PGCAT_n\" does not exist`) whenever the batch names more distinct statements than the server cache holds" % (short, [x.split("::")[-2] for x in hit]), c.where())
                ens = [c for c in h.calls(ENSURE, REGISTER) if c.block in natural_loop(h, drain)]
                r7.check(len(ens) >= 3, "assembly-sites", "%d ensure/register sites in the drain loop, %d pgcat calls in the region examined" % (len(ens), n_calls), "expected >= 3 ensure/register sites in the drain loop, found %d" % len(ens))
    hp = ctx.body("pgcat::server::Server::has_prepared_statement", r7)
    if hp and pending:
        reads = [c for c in hp.calls() if {p_[1:] for a in c.args for o in origins(hp, a) if o.kind in ("place", "param") for p_ in o.proj if p_.startswith(".")} & pending]
        r7.check(bool(reads) and bool(hp.calls(ADD)), "recorded-statement-is-taken-back", "has_prepared_statement answers true for a statement that is recorded for closing and puts it back into the cache",
                 "has_prepared_statement does not look at Server.%s: a statement that was evicted but is still on the server is prepared again under the same name (`prepared statement already exists`)" % sorted(pending))
        if reads and hp.calls(ADD):
            # a miss is only answered after the record was searched, and a find in the record re-inserts the name
            lk = hp.calls("re:^lru::LruCache.*::(get|get_mut|promote|contains|peek|peek_mut)$")
            r7.check(bool(lk), "cache-lookup", "has_prepared_statement looks the name up in the LRU", "has_prepared_statement no longer consults the server cache")
            if lk:
                rets = [bb for bb, blk in enumerate(hp.blocks) if blk["term"]["k"] == "return"]
                srch = [c.block for c in reads if re.search(r"::(position|rposition|contains|any|find|binary_search|iter|retain|remove)$", c.name) or "Iterator" in c.name]
                w = hp.uncrossed_path([lk[0].target], rets, blocks=srch)
                hit_only = True
                if w is not None:
                    # the only way round the search is the path on which the LRU lookup succeeded
                    hsw = switches(hp)
                    T = set()
                    for sw2, o, te, fe in bool_value_edges(hp, lambda o: o.kind == "call" and re.search(r"::(is_some|contains)$", o.call.name), hsw):
                        T.add(te)
                    for e_ in discr_edges(hp, r"core::option::Option<", "Some", origin_pred=lambda o: o.kind == "call" and o.call.block == lk[0].block, switches_cache=hsw)[0]:
                        T.add(e_)
                    w = hp.uncrossed_path([lk[0].target], rets, blocks=srch, edges=T)
                r7.check(w is None, "miss=>record-searched", "a cache miss is answered only after the record of evicted statements was searched",
                         "has_prepared_statement can answer `not on the server` without searching Server.%s" % sorted(pending), lk[0].where(), w and hp.describe_path(w))
                addb = [c.block for c in hp.calls(ADD)]
                live = set(hp.reach([0]))
                r7.check(any(b_ in live for b_ in addb) and any(b_ in live for b_ in srch), "take-back-live", "the take-back code is reachable", "the code that takes a recorded statement back is unreachable")

    # ---------------- R8 (D13)
    r8 = ctx.rule("C08-R8", "what the server cache believes follows what the server answered: a statement whose ParseComplete never came (failed, or skipped after an earlier error of the batch) is dropped from the cache when the batch ends, "
                  "and a Parse that is sent on the spot is answered with only its own name waiting", floor=4)
    QF = "registering_prepared_statement"
    qfields = lambda b, op: {p_[1:] for o in origins(b, op) if o.kind in ("place", "param") for p_ in o.proj if p_.startswith(".") and not p_[1:].isdigit()}
    rv = ctx.body("pgcat::server::Server::recv::{closure#0}", r8)
    if rv:
        rsw = switches(rv)
        code_sw = [sw for sw in rsw if sw.ty in ("char", "u8", "u32") and any(v == 90 for v, _ in sw.targets) and any(v == 69 for v, _ in sw.targets) and any(v == 49 for v, _ in sw.targets)]
        if not code_sw:
            r8.missing("message-code switch ('Z','E','1') in Server::recv")
        else:
            arms = {v: t for v, t in code_sw[0].targets}
            pf = [c for c in rv.calls("re:VecDeque::(pop_front|pop_back)$") if QF in qfields(rv, c.args[0])]
            # '1' pops one, 'E' pops one and un-caches it
            r8.check(any(rv.dominates(arms[49], c.block) for c in pf), "ParseComplete=>pop", "ParseComplete takes the answered statement off the waiting queue", "the ParseComplete arm no longer takes a name off Server.%s" % QF)
            epf = [c for c in pf if rv.dominates(arms[69], c.block)]
            lp = rv.calls("re:LruCache.*::pop$")
            from_pf = lambda k, cs: any(o.kind == "call" and o.call.block in [c.block for c in cs] for o in origins(rv, k.args[1], taint=True))
            r8.check(bool(epf) and any(from_pf(k, epf) for k in lp if rv.dominates(arms[69], k.block)), "ErrorResponse=>uncache", "ErrorResponse drops the statement that was waiting from the cache", "the ErrorResponse arm no longer removes the waiting statement from the server cache")
            # 'Z': nothing may be left waiting, and what is left is un-cached
            zpf = [c for c in pf if rv.dominates(arms[90], c.block)]
            clr = [blk for blk, i_, st in rv.assigns() if proj_fields(st["lhs"])[-1:] == ["data_available"] and st["rv"]["k"] == "use" and const_int(st["rv"]["op"]) == 0 and rv.dominates(arms[90], blk)]
            if not clr:
                r8.missing("`data_available = false` in the ReadyForQuery arm")
            else:
                noneE = set()
                for c in zpf:
                    sE, nE, _ = discr_edges(rv, r"core::option::Option<alloc::string::String>", "Some", origin_pred=lambda o, c=c: o.kind == "call" and o.call.block == c.block, switches_cache=rsw)
                    noneE |= set(nE)
                w = rv.uncrossed_path([arms[90]], clr, edges=noneE) if noneE else [arms[90]]
                r8.check(bool(zpf) and w is None, "ReadyForQuery=>queue-empty", "at ReadyForQuery the waiting queue is popped until it is empty",
                         "at the end of a batch names can stay in Server.%s: a Parse the server skipped after an earlier error of the batch is never answered, the statement stays in the server cache although it does not exist "
                         "(the next Parse of that text - by any client - gets a made-up ParseComplete and its Bind fails with `prepared statement \"PGCAT_n\" does not exist`), and later answers are attributed to the wrong names" % QF,
                         "", None if not zpf else (w and rv.describe_path(w)))
                r8.check(bool(zpf) and any(from_pf(k, zpf) for k in lp if rv.dominates(arms[90], k.block)), "ReadyForQuery=>uncache-unanswered", "every name still waiting at ReadyForQuery is dropped from the server cache",
                         "names still waiting at ReadyForQuery are not removed from the server cache")
    rp = ctx.body(RPS, r8)
    if rp:
        psw = switches(rp)
        push = [c for c in rp.calls("re:VecDeque::(push_back|push_front)$") if QF in qfields(rp, c.args[0])]
        sd = rp.calls("pgcat::server::Server::send")
        r8.check(bool(push) and bool(sd) and all(rp.dominates(push[0].block, c.block) for c in sd), "registered-before-sent", "the name is put on the waiting queue before the Parse is sent", "register_prepared_statement sends the Parse before the name is on the waiting queue")
        # the immediate round trip sees only its own name: the names registered for the batch are set aside before the send and put back afterwards
        aside = [c for c in rp.calls("re:^core::mem::(swap|take|replace)$") if any(QF in qfields(rp, a) for a in c.args)]
        back = [blk for blk, i_, st in rp.assigns() if proj_fields(st["lhs"])[-1:] == [QF]] + [c.block for c in aside]
        # "sent on the spot" = the bool parameter of register_prepared_statement; it is never reassigned, so under that case
        # every false edge of a test of it is infeasible
        flag_places = {(pl["l"], tuple(pl["p"])) for nm_, pl, _a in rp.var_places if nm_.startswith("should_send")}
        notimm = set()
        for sw2, o, te, fe in bool_value_edges(rp, lambda o: o.kind in ("param", "place") and (o.what, tuple(o.proj)) in flag_places, psw):
            notimm.add(fe)
        reassigned = [blk for blk, i_, st in rp.assigns() if (st["lhs"]["l"], tuple(st["lhs"].get("p", []))) in flag_places and st["lhs"]["l"] != 1]
        if not notimm:
            r8.missing("tests of the should_send_parse_to_server parameter in register_prepared_statement")
        if sd and notimm:
            w1 = rp.uncrossed_path([0], [sd[0].block], blocks=[c.block for c in aside if c.block != sd[0].block], edges=notimm)
            r8.check(bool(aside) and w1 is None and bool(push) and any(rp.dominates(c.block, push[0].block) or not rp.dominates(push[0].block, c.block) for c in aside), "immediate:batch-names-set-aside",
                     "before a Parse is sent on the spot the names registered for the client's batch are set aside",
                     "a Parse sent on the spot is answered while names registered for the client's batch (not sent yet) are waiting in front of it: its ParseComplete/ErrorResponse is attributed to one of them, "
                     "and the ReadyForQuery of this round trip drops them from the cache although they are about to be created", sd[0].where(), w1 and rp.describe_path(w1))
            rets = [bb for bb, blk in enumerate(rp.blocks) if blk["term"]["k"] == "return"]
            T, Fa, _ = call_bool_edges(rp, "pgcat::server::Server::is_data_available", switches_cache=psw)
            starts = [d for _, d in Fa]
            oks = [blk for blk, i_, st in rp.assigns() if st["rv"]["k"] == "agg" and st["rv"].get("variant") == "Ok" and st["lhs"]["l"] == 0]
            back_after = [b_ for b_ in back if any(b_ in rp.reach([s_]) for s_ in starts)]
            w2 = rp.uncrossed_path(starts, oks, blocks=back_after, edges=notimm) if starts else [0]
            r8.check(bool(starts) and bool(back_after) and w2 is None, "immediate:batch-names-put-back", "after the round trip the names registered for the batch are put back", "after a Parse was sent on the spot the names registered for the client's batch are lost: their answers will not be matched", "", w2 and rp.describe_path(w2))

    # ---------------- R9 (D19/D20) byte exactness
    r9 = ctx.rule("C08-R9", "what is sent on, hashed or used to find the client's statement is the bytes the client wrote: no part of a rewritten Parse/Bind that is forwarded, no input of the cache key and no statement name used as a key "
                  "goes through a lossy UTF-8 decode (client_encoding need not be UTF-8)", floor=5)
    cg_nodes = F.callgraph_nodes()
    lossy_prims = {n_ for n_ in cg_nodes if re.search(r"from_utf8_lossy$", n_)}
    LOSSY = {n_ for n_ in F.bodies if n_.startswith(("pgcat::messages::", "<")) and "messages" in n_ and (F.reachable_fns([n_]) & lossy_prims)}
    def lossy_calls(b_, op):
        return sorted({o.call.name for o in origins(b_, op, taint=True) if o.kind == "call" and (o.call.name in LOSSY or o.call.name in lossy_prims or (o.call.defn or "") in LOSSY)})
    r9.check(bool(lossy_prims) and bool(LOSSY), "lossy-readers", "%d message readers decode with from_utf8_lossy (%s)" % (len(LOSSY), sorted(x.split("::")[-1] for x in LOSSY)[:4]), "no lossy reader found (rule needs re-anchoring)")
    br = ctx.body("pgcat::messages::Bind::rename", r9)
    if br:
        bad = []
        for c in br.calls("re:BufMut>::put_slice$|BufMut::put_slice$|BufMut>::put_i32$|BufMut::put_i32$|BufMut>::put$|BufMut::put$"):
            for a in c.args[1:]:
                lc = lossy_calls(br, a)
                if lc:
                    bad.append((c.name.split("::")[-1], c.span.split(":")[1] if ":" in c.span else c.span, [x.split("::")[-1] for x in lc]))
        r9.check(not bad, "Bind::rename:bytes-and-length", "Bind::rename writes and measures raw bytes only",
                 "Bind::rename writes or measures a lossily decoded string (%s): for a portal or statement name that is not valid UTF-8 the frame does not have the length it announces and the portal name is altered - the server reads garbage after the frame and closes the connection" % bad)
    for msgn, flds in (("Parse", ("query",)),):
        dec = ctx.body(DEC % msgn, r9)
        if dec:
            for b_, blk, st in F.aggregates("pgcat::messages::" + msgn):
                if b_ is not dec:
                    continue
                for f in flds:
                    lc = lossy_calls(dec, st["rv"]["ops"][st["rv"]["fields"].index(f)])
                    r9.check(not lc, "%s.%s:forwarded-and-hashed" % (msgn, f), "%s.%s keeps the client's bytes" % (msgn, f),
                             "%s.%s is decoded with %s and re-encoded from the result: a statement text that is not valid UTF-8 (client_encoding LATIN1: 'e-acute' = 0xE9) is forwarded with the byte replaced by U+FFFD, and texts that differ only in such bytes share one cache key / server-side statement" % (msgn, f, [x.split("::")[-1] for x in lc]))
    for msgn, f in (("Parse", "name"), ("Bind", "prepared_statement"), ("Describe", "statement_name"), ("Close", "name")):
        dec = ctx.body(DEC % msgn, r9)
        if dec:
            for b_, blk, st in F.aggregates("pgcat::messages::" + msgn):
                if b_ is not dec or f not in st["rv"].get("fields", []):
                    continue
                lc = lossy_calls(dec, st["rv"]["ops"][st["rv"]["fields"].index(f)])
                r9.check(not lc, "statement-name-key:%s.%s" % (msgn, f), "%s.%s (key of the client's statement map) keeps the client's bytes" % (msgn, f),
                         "the statement name %s.%s, which keys the client's own statement map, is decoded lossily: two names of one client that differ only in bytes that are not valid UTF-8 ('s\\xE9' / 's\\xE8') become the same key, the second Parse replaces the first and a Bind of the first name runs the second text" % (msgn, f))

    # ---------------- R10 server-side statement names are unique for the whole process
    r10 = ctx.rule("C08-R10", "the server-side name given to a cached statement (PGCAT_n) is unique in the process: it is numbered from a static counter with an atomic fetch_add, not from state that a rebuilt pool or cache starts over", floor=2)
    rw = ctx.body("pgcat::messages::Parse::rewrite", r10)
    if rw:
        fmt_ops = []
        for blk, i, st in rw.assigns():
            if proj_fields(st["lhs"])[-1:] == ["name"]:
                fmt_ops.append(st["rv"].get("op") or (st["rv"].get("ops") or [None])[0])
        srcs = set()
        statics = set()
        params = set()
        for op in fmt_ops:
            for o in origins(rw, op, taint=True):
                if o.kind == "call":
                    srcs.add(o.call.name.split("::")[-1])
                if o.kind == "const" and isinstance(o.extra, dict) and o.extra.get("static"):
                    statics.add(o.extra["static"])
                if o.kind == "static":
                    statics.add(str(o.what))
                if o.kind == "param" and o.what != 1:
                    params.add(o.what)
        r10.check(bool(fmt_ops) and "fetch_add" in srcs and bool(statics), "name-from-static-counter", "Parse::rewrite numbers the name with fetch_add on a static (%s)" % sorted(statics),
                  "Parse::rewrite does not take the number from a static atomic counter (sources: %s%s): names are unique only within whatever owns the counter - after a reload that rebuilds the pool and its cache the numbering starts over, "
                  "long-lived clients still hold old PGCAT_k names for other texts, and one client's Bind runs another client's statement" % (sorted(srcs), ", a parameter" if params else ""))
        callers = sorted({c.body.name.replace("::{closure#0}", "").split("::")[-1] for c in F.all_calls("pgcat::messages::Parse::rewrite") if "::test" not in c.body.name})
        r10.check(bool(callers), "rewrite-callers", "Parse::rewrite is called from %s" % callers, "Parse::rewrite has no caller")

    # ---------------- R6
    r6 = ctx.rule("C08-R6", "rewriting changes only the statement name (Parse::rewrite, Describe::rename)", floor=2)
    for fn, fld in (("pgcat::messages::Parse::rewrite", "name"), ("pgcat::messages::Describe::rename", "statement_name")):
        b = ctx.body(fn, r6)
        if not b:
            continue
        written = set()
        for blk, i, st in b.assigns():
            fs = proj_fields(st["lhs"])
            if fs and st["lhs"]["l"] == 1:
                written.add(fs[0])
        for c in b.calls():
            if c.dest and c.dest["l"] == 1 and c.dest["p"]:
                written.update(proj_fields(c.dest)[:1])
        r6.check(written == {fld}, "only-name:" + fn.split("::")[-2], "%s assigns only `%s`" % (fn.split("::")[-2] + "::" + fn.split("::")[-1], fld), "%s modifies %s" % (fn, sorted(written)))

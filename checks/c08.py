"""C08 — prepared-statement caching is invisible to clients."""
from mirlib import *

H = "pgcat::client::Client::handle::{closure#0}"
MSG = ("Parse", "Bind", "Describe", "Close")
DEC = "<pgcat::messages::%s as core::convert::TryFrom<&bytes::bytes_mut::BytesMut>>::try_from"
ENC = "pgcat::messages::<impl core::convert::TryFrom<pgcat::messages::%s> for bytes::bytes_mut::BytesMut>::try_from"
GET_HASH = "pgcat::messages::Parse::get_hash"
ENSURE = "pgcat::client::Client::ensure_prepared_statement_is_on_server"
REGISTER = "pgcat::client::Client::register_parse_to_server_cache"
RPS = "pgcat::server::Server::register_prepared_statement::{closure#0}"
HM = "re:^std::collections::hash::map::HashMap::"


def rpo(body):
    succ = body.succ("n")
    seen = [False] * body.nblocks
    order = []
    stack = [(0, iter(succ[0]))]
    seen[0] = True
    while stack:
        b, it = stack[-1]
        adv = False
        for s_ in it:
            if not seen[s_]:
                seen[s_] = True
                stack.append((s_, iter(succ[s_])))
                adv = True
                break
        if not adv:
            order.append(b)
            stack.pop()
    order.reverse()
    return {b: i for i, b in enumerate(order)}


def wire_shape(body, mode):
    """linearised sequence of wire field kinds read (mode='dec') or written (mode='enc') by a codec body;
    fields inside a loop are wrapped as (..)*"""
    idx = rpo(body)
    heads = loop_headers(body)
    loops = {hd: natural_loop(body, hd) for hd in heads}
    items = []
    for c in body.calls():
        if c.block not in idx:
            continue
        kind = None
        short = c.name.split("::")[-1]
        if mode == "dec":
            if re.search(r"Buf::get_(u8|i8)$", c.name):
                kind = "u8"
            elif re.search(r"Buf::get_i16$", c.name):
                kind = "i16"
            elif re.search(r"Buf::get_i32$", c.name):
                kind = "i32"
            elif c.name.endswith("BytesMutReader>::read_string"):
                kind = "cstr"
            elif re.search(r"Buf::copy_to_slice$", c.name):
                kind = "bytes"
        else:
            if re.search(r"BufMut::put_(u8|i8)$|BufMut>::put_(u8|i8)$", c.name):
                kind = "u8"
            elif re.search(r"put_i16$", c.name):
                kind = "i16"
            elif re.search(r"put_i32$", c.name):
                kind = "i32"
            elif re.search(r"put_slice$", c.name):
                src = {o.call.name.split("::")[-1] for o in origins(body, c.args[1]) if o.kind == "call"}
                kind = "cstr" if "as_bytes_with_nul" in src else "bytes"
        if kind is None:
            continue
        inner = sorted((len(bl), hd) for hd, bl in loops.items() if c.block in bl)
        items.append((idx[c.block], kind, inner[0][1] if inner else None))
    items.sort()
    out = []
    cur = None
    for _, kind, hd in items:
        if hd != cur:
            if cur is not None:
                out.append(")*")
            if hd is not None:
                out.append("(")
            cur = hd
        out.append(kind)
    if cur is not None:
        out.append(")*")
    return " ".join(out)


def decode_template(b):
    """rustc's packed format_args template: 0xC0 = placeholder, n<0x80 = n literal bytes follow, 0 ends"""
    parts = []
    i = 0
    while i < len(b):
        x = b[i]
        if x == 0:
            break
        if x >= 0x80:
            parts.append(("arg", None))
            i += 1
        else:
            parts.append(("lit", bytes(b[i + 1:i + 1 + x])))
            i += 1 + x
    return parts


def run(ctx):
    F = ctx.facts
    ctx.explanation = ("sibling agreement of the wire decoders/encoders (linearised field-kind sequences from the MIR call order), field coverage and unambiguity of the statement cache key, "
                       "create-before-use ordering in the Sync arm of Client::handle, who-may-write on the per-client name map, eviction => Close, and rename-only rewriting")
    ctx.assumptions = ["cross-connection histories (which server a transaction lands on, LRU order) are not decided", "SipHash collisions between distinct unambiguous encodings are not considered",
                       "lru::LruCache::push returns the evicted entry (trusted library)"]
    # ---------------- R1
    r1 = ctx.rule("C08-R1", "each of Parse/Bind/Describe/Close is decoded and re-encoded with the same sequence of wire fields; Bind::rename copies everything after the two names verbatim", floor=5)
    for m in MSG:
        d = ctx.body(DEC % m, r1)
        e = ctx.body(ENC % m, r1)
        if not d or not e:
            continue
        sd, se = wire_shape(d, "dec"), wire_shape(e, "enc")
        r1.check(sd == se and len(sd.split()) >= 4, "codec:%s" % m, "%s: decode and encode agree on [%s]" % (m, sd), "%s is decoded as [%s] but encoded as [%s]: a rewritten message differs from the original in more than the name" % (m, sd, se))
        ctx.sample({"rule": "C08-R1", "message": m, "decode": sd, "encode": se})
    br = ctx.body("pgcat::messages::Bind::rename", r1)
    if br:
        ps = br.calls("re:put_slice$")
        verbatim = False
        for c in ps:
            thr = []
            os_ = origins(br, c.args[1], through=thr)
            from_buf = any(o.kind == "param" and o.what == 1 for o in os_)
            for ic in thr:
                if re.search(r"Index<.*::index$", ic.name) and len(ic.args) > 1:
                    idx_src = {o.call.name.split("::")[-1] for o in origins(br, ic.args[1], taint=True) if o.kind == "call"}
                    if from_buf and "position" in idx_src:
                        verbatim = True
        r1.check(verbatim, "Bind::rename:remainder", "Bind::rename appends buf[cursor.position()..] of the original message", "Bind::rename no longer copies the remainder of the original Bind verbatim")
        # new length = old length + new name - old name
        lens = set()
        for blk, i, st in br.assigns():
            if st["rv"]["k"] == "bin" and st["rv"]["op"] in ("Add", "Sub", "AddWithOverflow", "SubWithOverflow"):
                lens.add(st["rv"]["op"].replace("WithOverflow", ""))
        r1.check({"Add", "Sub"} <= lens, "Bind::rename:length", "the new length is derived from the old one by adding/subtracting the name lengths", "Bind::rename length arithmetic changed: %s" % sorted(lens))

    # ---------------- R2
    r2 = ctx.rule("C08-R2", "the pool cache key covers query text and parameter types, not the client's statement name, and is an unambiguous encoding of those fields", floor=3)
    gh = ctx.body(GET_HASH, r2)
    if gh:
        fr = fields_read(gh)
        r2.check("query" in fr, "covers:query", "the key covers Parse.query", "Parse.query is not part of the cache key")
        r2.check("param_types" in fr, "covers:param_types", "the key covers Parse.param_types", "Parse.param_types is not part of the cache key: statements differing only in parameter types share one server statement")
        r2.check("name" not in fr, "excludes:name", "the key does not depend on the client's statement name", "the cache key depends on the client-chosen name")
        hcalls = [c for c in gh.calls("re:core::hash::Hash>::hash$|impl core::hash::Hash for .*>::hash$|^core::hash::Hash::hash$")]
        per_field = set()
        via_format = False
        for c in hcalls:
            fl = {p[1:] for o in origins(gh, c.args[0]) if o.kind in ("place", "param") for p in o.proj if p.startswith(".")}
            per_field |= fl & {"query", "param_types", "num_params"}
            if any(o.kind == "call" and o.call.name.endswith("fmt::format") for o in origins(gh, c.args[0], taint=True)):
                via_format = True
        if {"query", "param_types"} <= per_field and not via_format:
            r2.ok("unambiguous", "each field is fed to the hasher separately (length-delimited by Hash for str / Vec)")
        elif via_format:
            tmpl = None
            for c in gh.calls("re:^core::fmt::Arguments::.*new"):
                b_ = const_bytes(c.args[0]) if c.args else None
                if b_ is None and c.args:
                    for o in origins(gh, c.args[0]):
                        if o.kind == "const" and o.extra and "bytes" in o.extra:
                            b_ = bytes(o.extra["bytes"])
                if b_:
                    tmpl = decode_template(b_)
            ok = False
            if tmpl:
                ok = True
                for i in range(len(tmpl) - 1):
                    if tmpl[i][0] == "arg" and tmpl[i + 1][0] == "arg":
                        ok = False
            r2.check(ok, "unambiguous", "formatted key has a literal separator between all variable-width fields",
                     "the key is a concatenation without separators (template %s): (\"SELECT $1\", types=[0]) and (\"SELECT $11\", types=[]) both hash \"SELECT $110\", so two different statements share one PGCAT_n" % (tmpl,), GET_HASH)
        else:
            r2.fail("unambiguous", "cannot recognise how the key is built (fields hashed: %s)" % sorted(per_field))
    # the cache is keyed by that hash and returns the cached rewritten Parse
    goi = ctx.body("pgcat::pool::PreparedStatementCache::get_or_insert", r2)
    if goi:
        rw = goi.calls("pgcat::messages::Parse::rewrite")
        r2.check(bool(rw), "rewrite-on-miss", "a cache miss stores parse.clone().rewrite()", "get_or_insert no longer rewrites the statement name on insert")

    # ---------------- R3
    r3 = ctx.rule("C08-R3", "in the Sync arm a Bind/Describe of a cached statement is forwarded only after ensure_prepared_statement_is_on_server succeeded; a cached Parse is forwarded iff the server does not have it (else ParseComplete is synthesised)", floor=4)
    h = ctx.body(H, r3)
    if h:
        hsw = switches(h)
        ep = None
        for sw in hsw:
            d = sw.discr()
            if d and d[0].endswith("messages::ExtendedProtocolData") and len(d[2]) >= 4:
                ep = (sw, d)
        if not ep:
            r3.missing("switch on ExtendedProtocolData in handle")
        else:
            sw, d = ep
            bufputs = []
            for c in h.calls("re:BufMut>::put$|BufMut::put$"):
                fl = {p for o in origins(h, c.args[0]) if o.kind in ("place", "param") for p in o.proj if p.startswith(".")}
                if ".buffer" in fl:
                    bufputs.append(c)
            for v in ("Bind", "Describe"):
                tgt = d[2].get(v)
                if tgt is None:
                    r3.missing("arm ExtendedProtocolData::%s" % v)
                    continue
                puts = [c.block for c in bufputs if h.dominates(tgt, c.block)]
                noneE, someE, _ = discr_edges(h, r"core::option::Option<alloc::string::String>", "None", switches_cache=[s_ for s_ in hsw if h.dominates(tgt, s_.block)])
                contE, _, _ = discr_edges(h, r"ControlFlow<", "Continue", origin_pred=lambda o: o.kind == "call" and o.call.name == ENSURE, switches_cache=hsw)
                ok = bool(puts) and bool(contE) and h.uncrossed_path([tgt], puts, edges=set(noneE) | set(contE)) is None
                r3.check(ok, "arm:%s" % v, "%s with a cached statement name is appended only after ensure_prepared_statement_is_on_server() returned Ok" % v,
                         "a %s naming a cached statement can be forwarded before the statement is ensured on this server" % v)
            tgt = d[2].get("Parse")
            if tgt is not None:
                T, Fa, _ = call_bool_edges(h, "pgcat::server::Server::has_prepared_statement", switches_cache=hsw)
                puts = [c.block for c in bufputs if h.dominates(tgt, c.block)]
                pc = [c.block for c in h.calls("pgcat::messages::parse_complete") if h.dominates(tgt, c.block)]
                noneE, someE, _ = discr_edges(h, r"core::option::Option<\(alloc::sync::Arc<pgcat::messages::Parse>, u64\)>", "None", switches_cache=[s_ for s_ in hsw if h.dominates(tgt, s_.block)])
                okp = bool(T) and bool(pc) and all(any(h.dominates(e[1], b_) for e in T) for b_ in pc)
                r3.check(okp, "arm:Parse:synth", "ParseComplete is synthesised only when the server already has the statement", "ParseComplete is synthesised although the server may not have the statement")
                regc = [c.block for c in h.calls(REGISTER)]
                contR, _, _ = discr_edges(h, r"ControlFlow<", "Continue", origin_pred=lambda o: o.kind == "call" and o.call.name == REGISTER, switches_cache=hsw)
                okf = bool(puts) and h.uncrossed_path([tgt], puts, edges=set(noneE) | set(contR)) is None and all(any(h.dominates(e[1], b_) for e in Fa) or any(h.dominates(e[1], b_) for e in noneE) for b_ in puts)
                r3.check(okf, "arm:Parse:forward", "a cached Parse is forwarded only on has_prepared_statement()==false after registering it in the server cache", "a cached Parse can be forwarded although the server already has it, or without being registered")

    # ---------------- R4
    r4 = ctx.rule("C08-R4", "the client's name map is written only by buffer_parse (insert under the client's own name) and by the Close / error / refused-batch paths (remove); Bind/Describe rewriting reads only that map", floor=4)
    allowed = {"insert": {"pgcat::client::Client::buffer_parse"},
               "remove": {H, ENSURE + "::{closure#0}"},
               "retain": {"pgcat::client::Client::forget_buffered_prepared_statements"},
               "get": {"pgcat::client::Client::buffer_bind::{closure#0}", "pgcat::client::Client::buffer_describe::{closure#0}", ENSURE + "::{closure#0}"}}
    seen = {}
    for c in F.all_calls(HM):
        if not c.args:
            continue
        fl = {p for o in origins(c.body, c.args[0]) if o.kind in ("place", "param") for p in o.proj if p.startswith(".")}
        if ".prepared_statements" not in fl:
            continue
        m = c.name.split("::")[-1]
        if m in ("new",):
            continue
        seen.setdefault(m, set()).add(c.body.name)
        r4.check(c.body.name in allowed.get(m, set()), "%s@%s" % (m, c.body.name.replace("pgcat::client::", "")), "HashMap::%s on Client.prepared_statements" % m,
                 "unexpected HashMap::%s on Client.prepared_statements in %s" % (m, c.body.name), c.where())
        if m == "insert":
            src = {o.call.name for o in origins(c.body, c.args[1]) if o.kind == "call"}
            r4.check("pgcat::messages::Parse::get_name" in src, "insert-key", "the key is the client's own statement name (Parse::get_name of the message)", "the insert key does not come from the client's Parse message: %s" % sorted(src))
            vsrc = {o.call.name for o in origins(c.body, c.args[2], taint=True) if o.kind == "call"}
            r4.check("pgcat::pool::ConnectionPool::register_parse_to_cache" in vsrc, "insert-value", "the value is the pool cache's rewritten Parse", "the stored Parse does not come from the pool cache")
    r4.check("insert" in seen and "get" in seen, "present", "insert/get sites present", "name map accesses missing: %s" % sorted(seen))
    for fn in ("pgcat::client::Client::buffer_bind::{closure#0}", "pgcat::client::Client::buffer_describe::{closure#0}"):
        b = ctx.body(fn, r4)
        if b:
            r4.check(not b.calls("pgcat::pool::get_pool", "re:PreparedStatementCache"), "rewrite-uses-own-map:" + fn.split("::")[-2], "%s consults only the client's own map" % fn.split("::")[-2], "%s consults a pool-wide structure by client name" % fn)

    # ---------------- R5
    r5 = ctx.rule("C08-R5", "a statement evicted from a server's cache is closed on that server; a failed Parse is dropped from the server cache", floor=3)
    rp = ctx.body(RPS, r5)
    if rp:
        rsw = switches(rp)
        someE, noneE, _ = discr_edges(rp, r"core::option::Option<alloc::string::String>", "Some", origin_pred=lambda o: o.kind == "call" and o.call.name.endswith("add_prepared_statement_to_cache"), switches_cache=rsw)
        if not someE:
            r5.missing("Some(evicted) arm in register_prepared_statement")
        else:
            cn = [c.block for c in rp.calls("pgcat::messages::Close::new")]
            sd = [c.block for c in rp.calls("pgcat::server::Server::send")]
            oks = [blk for blk, i, st in rp.assigns() if st["rv"]["k"] == "agg" and st["rv"].get("variant") == "Ok" and st["lhs"]["l"] == 0]
            w1 = rp.uncrossed_path([d for _, d in someE], oks, blocks=cn)
            # the Close bytes are appended to the very buffer that is sent; `bytes.is_empty()` is then false
            # (infeasible edge after extend_from_slice of a non-empty message), so that edge is not a way round the send
            ext = [c for c in rp.calls("re:BytesMut::extend_from_slice$") if "pgcat::messages::Close::new" in {o.call.name for o in origins(rp, c.args[1], taint=True) if o.kind == "call"}]
            buf_locals = set()
            for c in ext:
                v_ = set()
                origins(rp, c.args[0], visited=v_)
                buf_locals |= {l for l in v_ if rp.varnames.get(l)}
            sent_locals = set()
            for b_ in sd:
                v_ = set()
                origins(rp, rp.call_at(b_).args[1], visited=v_)
                sent_locals |= {l for l in v_ if rp.varnames.get(l)}
            empty_true = set()
            for sw2, o, te, fe in bool_value_edges(rp, lambda o: o.kind == "call" and o.call.name.endswith("BytesMut::is_empty"), rsw):
                v_ = set()
                origins(rp, o.call.args[0], visited=v_)
                if v_ & buf_locals:
                    empty_true.add(te)
            w2 = rp.uncrossed_path([d for _, d in someE], oks, blocks=sd, edges=empty_true)
            r5.check(bool(ext) and bool(buf_locals & sent_locals), "Close-bytes-are-sent", "the Close message is appended to the buffer that Server::send transmits", "the Close message for the evicted statement is not appended to the buffer that is sent")
            r5.check(bool(cn) and bool(sd) and w1 is None and w2 is None, "evict=>Close+send", "an eviction always builds Close(evicted) and sends it before returning Ok", "an evicted statement can stay open on the server (no Close sent)")
            # Close is for the evicted name
            if cn:
                c = rp.call_at(cn[0])
                src = {o.call.name.split("::")[-1] for o in origins(rp, c.args[0], taint=True) if o.kind == "call"}
                r5.check("add_prepared_statement_to_cache" in src, "Close(evicted)", "Close::new receives the evicted name", "Close::new does not receive the evicted name")
        r5.check(bool(rp.calls("re:VecDeque::push_back$")), "registering-queue", "the statement being registered is queued for error handling", "register_prepared_statement no longer records the statement being registered")
    rv = ctx.body("pgcat::server::Server::recv::{closure#0}", r5)
    if rv:
        pops = rv.calls("re:LruCache.*::pop$")
        r5.check(bool(pops), "error=>uncache", "an ErrorResponse pops the registering statement from the server cache", "recv no longer removes a failed statement from the server cache")
    hp = ctx.body("pgcat::server::Server::has_prepared_statement", r5)
    if hp:
        lk = [c.name.split("::")[-1] for c in hp.calls("re:^lru::LruCache.*::(get|get_mut|promote|contains|peek|peek_mut)$")]
        r5.check(bool(lk) and set(lk) <= {"get", "get_mut", "promote"}, "presence-check-promotes", "has_prepared_statement is a recency-promoting lookup (LruCache::%s)" % sorted(set(lk)),
                 "has_prepared_statement uses %s: a statement ensured earlier in a pipelined batch is not marked recently used, so ensuring a later statement of the same batch can evict and Close it before the batch is sent (`prepared statement does not exist`)" % sorted(set(lk)))
    ac = ctx.body("pgcat::server::Server::add_prepared_statement_to_cache", r5)
    if ac:
        r5.check(bool(ac.calls("re:LruCache.*::push$")), "lru-push", "the server cache is an LRU push (returns the evicted entry)", "add_prepared_statement_to_cache no longer uses LruCache::push")

    # ---------------- R6
    r6 = ctx.rule("C08-R6", "rewriting changes only the statement name (Parse::rewrite, Describe::rename)", floor=2)
    for fn, fld in (("pgcat::messages::Parse::rewrite", "name"), ("pgcat::messages::Describe::rename", "statement_name")):
        b = ctx.body(fn, r6)
        if not b:
            continue
        written = set()
        for blk, i, st in b.assigns():
            fs = proj_fields(st["lhs"])
            if fs and st["lhs"]["l"] == 1:
                written.add(fs[0])
        for c in b.calls():
            if c.dest and c.dest["l"] == 1 and c.dest["p"]:
                written.update(proj_fields(c.dest)[:1])
        r6.check(written == {fld}, "only-name:" + fn.split("::")[-2], "%s assigns only `%s`" % (fn.split("::")[-2] + "::" + fn.split("::")[-1], fld), "%s modifies %s" % (fn, sorted(written)))

"""C11 — malformed or hostile client bytes hurt only the sender.
"For every byte string" is not decidable statically; decided is the containment structure that makes a
fault in the sender's task harmless to everyone else, plus boundedness of client-sized allocations."""
import os
from mirlib import *
from common import release_gate, parse_cache_key_gap

H = "pgcat::client::Client::handle::{closure#0}"
EP = "pgcat::client::client_entrypoint"
MAINC = "bin:pgcat::main::{closure#1}"
ALLOC = ("re:^alloc::vec::from_elem$", "re:^bytes::bytes_mut::BytesMut::(with_capacity|resize|reserve)$", "re:^alloc::vec::Vec::.*(with_capacity|resize|reserve)$", "re:^alloc::string::String::with_capacity$")
WIDE_READS = re.compile(r"(read_i32|read_u32|read_i64|read_u64|get_i32|get_u32|get_i64|get_u64)$")
GUARD_TY = re.compile(r"lock_api::(mutex::MutexGuard|rwlock::RwLock(Read|Write|UpgradableRead)Guard)|std::sync::.*(MutexGuard|RwLock(Read|Write)Guard)")
ENTRY_FNS = ("pgcat::client::get_startup::{closure#0}", "pgcat::client::Client::startup::{closure#0}", "pgcat::messages::read_message::{closure#0}", "pgcat::messages::parse_startup",
             H, "pgcat::query_router::QueryRouter::try_execute_command", "pgcat::query_router::QueryRouter::parse", "pgcat::query_router::QueryRouter::infer_shard_from_bind",
             "pgcat::client::Client::buffer_parse", "pgcat::client::Client::buffer_bind::{closure#0}", "pgcat::client::Client::buffer_describe::{closure#0}",
             "<pgcat::messages::Parse as core::convert::TryFrom<&bytes::bytes_mut::BytesMut>>::try_from", "<pgcat::messages::Describe as core::convert::TryFrom<&bytes::bytes_mut::BytesMut>>::try_from",
             "<pgcat::messages::Close as core::convert::TryFrom<&bytes::bytes_mut::BytesMut>>::try_from", "pgcat::messages::Bind::rename", "pgcat::messages::Bind::get_name", "pgcat::messages::Parse::get_name",
             "pgcat::admin::handle_admin::{closure#0}")


def run(ctx):
    F = ctx.facts
    ctx.explanation = ("containment structure: one spawned task per client (panic strategy unwind, no process exit/abort reachable except admin SHUTDOWN), no poisoning locks and no lock guard alive across an await, "
                       "the C02 release gate on unwinding, bans only on server-side I/O errors, and every allocation sized by a client-supplied integer dominated by a bound check; plus an informational panic-site inventory")
    ctx.assumptions = ["a panic that only kills the sender's task is allowed by the property ('at worst ... disconnected'); its side effects on drain/statistics are noted under C17/C18",
                       "tokio catches a panic of a spawned task (JoinError) and parking_lot locks do not poison (library contracts)", "memory exhaustion through many concurrent maximal messages is out of scope (same exposure as PostgreSQL's own limits)"]
    # ---------------- R1 task isolation
    r1 = ctx.rule("C11-R1", "each client runs in its own spawned task; panics unwind (no panic=abort); nothing reachable from the client task exits or aborts the process except the admin SHUTDOWN signal", floor=4)
    callers = F.callers_of(EP)
    r1.check(len(callers) == 1 and callers[0].startswith("bin:pgcat::main::{closure#1}::{closure#"), "entrypoint-caller", "client_entrypoint is called only from a closure of main (%s)" % callers, "client_entrypoint callers: %s" % callers)
    m = F.body(MAINC)
    if m and callers:
        spawned = False
        for c in m.calls("re:^tokio::task::spawn::spawn$"):
            for o in origins(m, c.args[0]):
                if o.kind == "agg" and o.extra.get("agg") in ("coroutine", "closure") and "bin:" + strip_generics(o.extra["def"]) == callers[0]:
                    spawned = True
        r1.check(spawned, "spawned", "that closure is the future passed to tokio::spawn (one task per client)", "client_entrypoint is awaited inline in the accept loop: one client's panic or stall stops the accept loop")
    strategies = {mm["panic"] for mm in F.meta}
    cargo = open(os.path.join(os.environ.get("PGCAT_REPO", "/repo"), "Cargo.toml")).read()
    r1.check(strategies == {"Unwind"} and not re.search(r"^\s*panic\s*=\s*[\"']abort[\"']", cargo, re.M), "panic=unwind", "panic strategy is unwind in the analysed build and no profile sets panic = \"abort\"", "panic strategy: %s / Cargo.toml sets panic=abort: a panicking client task would take the process down" % strategies)
    reach = F.reachable_fns([EP, EP + "::{closure#0}"])
    exits = []
    for n in reach:
        b = F.body(n)
        if not b:
            continue
        for c in b.calls("re:^std::process::(exit|abort)$", "re:^libc::.*_exit$", "re:^nix::sys::signal::(kill|raise)$", "re:^core::intrinsics::abort$"):
            exits.append((n, c.name))
    allowed = {("pgcat::admin::shutdown::{closure#0}", "nix::sys::signal::kill")}
    bad = [e for e in exits if e not in allowed]
    r1.check(not bad, "no-exit-reachable", "no process exit/abort/kill reachable from a client task except admin SHUTDOWN (%d functions scanned)" % len(reach), "process exit reachable from the client task: %s" % bad)
    ctx.evaluations += len(reach)
    # ---------------- R2 no poisoning, no guard across await
    r2 = ctx.rule("C11-R2", "shared state is never left poisoned or locked by a dying or suspended client task: no std::sync Mutex/RwLock in shared structures, no lock guard alive across an await", floor=2)
    # a std::sync lock is poisoned when a thread panics while holding it for writing: for every such acquisition reachable
    # from a client task, the critical section may contain only container operations (nothing that parses client data)
    SAFE_IN_CS = ("re:Deref(Mut)?>::deref(_mut)?$", "re:^core::result::Result::(unwrap|expect)$", "re:^std::collections::hash::map::HashMap::.*(insert|get|remove|keys|clone|len)$",
                  "re:Clone>::clone$", "re:ToString>::to_string$|^alloc::string::ToString::to_string$|^alloc::str::.*to_owned$|ToOwned>::to_owned$", "re:^tokio::runtime::task::join::JoinHandle::.*abort$",
                  "re:^core::option::Option::", "re:^core::mem::(drop|replace|take)$", "re:^log::|^core::fmt::|^alloc::fmt::", "re:PartialOrd::le$")
    crit = []
    nlocks = 0
    for n in sorted(reach):
        b = F.body(n)
        if not b:
            continue
        for c in b.calls("re:^std::sync::(poison::)?(mutex::Mutex|rwlock::RwLock)::.*(lock|write)$"):
            nlocks += 1
            # the guard: unwrap() result of the lock call
            gl = set()
            for c2 in b.calls("re:^core::result::Result::(unwrap|expect)$"):
                if any(o.kind == "call" and o.call.block == c.block for o in origins(b, c2.args[0])) or op_local(c2.args[0]) == c.dest["l"]:
                    gl.add(c2.dest["l"])
            ends = {bb for bb, blk in enumerate(b.blocks) if blk["term"]["k"] == "drop" and blk["term"]["pl"]["l"] in gl and not blk["term"]["pl"]["p"]}
            region = b.reach([c.target] if c.target is not None else [], avoid_blocks=ends) if ends else set()
            if not ends:
                crit.append("%s: cannot delimit the critical section" % n)
                continue
            for c3 in b.calls():
                if c3.block in region and c3.block != c.block and not c3.is_(*SAFE_IN_CS):
                    crit.append("%s: %s inside a write-locked section" % (n.replace("pgcat::", ""), c3.name))
    r2.check(not crit, "poisoning-locks-safe", "%d std::sync write/lock acquisitions reachable from client tasks; their critical sections contain only container operations" % nlocks, "a panic while a poisoning lock is held is possible: %s" % crit[:4])
    across = []
    ncor = 0
    for n, b in F.bodies.items():
        if b.kind != "coroutine":
            continue
        ncor += 1
        yields = [bb for bb, blk in enumerate(b.blocks) if blk["term"]["k"] == "yield"]
        if not yields:
            continue
        for l, d in enumerate(b.locals):
            if not GUARD_TY.search(d["ty"]) or d["ty"].startswith("&"):
                continue
            defs = b.defs().get(l, [])
            if not defs:
                continue
            ends = {bb for bb, blk in enumerate(b.blocks) if (blk["term"]["k"] == "drop" and blk["term"]["pl"]["l"] == l and not blk["term"]["pl"]["p"])}
            ends |= {bb for bb, blk in enumerate(b.blocks) for st in blk["stmts"] if st["k"] == "dead" and st["l"] == l}
            # moved into a call (e.g. drop(guard))
            ends |= {c.block for c in b.calls() if any(a.get("c") == "move" and op_place(a) and op_place(a)["l"] == l and not op_place(a)["p"] for a in c.args)}
            starts = []
            for d_ in defs:
                if d_[0] == "call" and d_[2].target is not None:
                    starts.append(d_[2].target)
                elif d_[0] == "assign":
                    starts.append(d_[1])
            w = b.uncrossed_path(starts, yields, blocks=ends)
            if w is not None:
                across.append("%s: %s" % (n, d["ty"][:60]))
    r2.check(not across, "no-guard-across-await", "no parking_lot/std lock guard is alive at an await point (%d coroutines scanned)" % ncor, "lock guard held across an await: %s" % across[:3])
    # ---------------- R3 unwinding cannot hand back a dirty server
    r3 = ctx.rule("C11-R3", "a panic (or dropped future) in the client task while it borrows a server cannot return that server to the pool un-cleaned: the C02 release gate is in place", floor=1)
    gate, gate_why = release_gate(F)
    r3.check(gate is not None, "release-gate", "has_broken() reports a claimed-but-not-cleaned connection (field `%s`; full conditions decided by C02-R1)" % gate, "no release gate (%s): a panic between checkout and check-in returns the server to the pool with the sender's transaction open (see C02-R2)" % gate_why)
    # ---------------- R4 the sender's own faults do not ban servers
    r4 = ctx.rule("C11-R4", "servers are banned from the client path only after a server-side I/O failure, never because of what the client sent or because a write to the client failed", floor=3)
    nb = 0
    for n, b in F.bodies.items():
        if not n.startswith("pgcat::client::"):
            continue
        sws = None
        for c in b.calls("pgcat::pool::ConnectionPool::ban"):
            nb += 1
            sws = sws or switches(b)
            def pred(o, b=b):
                if o.kind != "call":
                    return False
                if re.search(r"^pgcat::server::Server::(send|recv|register_prepared_statement)$", o.call.name):
                    return True
                # tokio::time::timeout(d, server.recv(..)): the inner result is still the server's
                if o.call.name == "tokio::time::timeout::timeout" and len(o.call.args) > 1:
                    return any(oo.kind == "call" and re.search(r"^pgcat::server::Server::(send|recv)$", oo.call.name) for oo in origins(b, o.call.args[1]))
                return False
            e1, _, _ = discr_edges(b, r"core::result::Result<", "Err", origin_pred=pred, switches_cache=sws)
            # timeout over Server::recv: the Elapsed arm
            e2, _, _ = discr_edges(b, r"core::result::Result<.*Elapsed>", "Err", switches_cache=sws)
            e3 = set()
            for sw in sws:
                d = sw.discr()
                if d and "errors::Error" in d[0]:
                    # `match err { PreparedStatementError => (), _ => ban }` : err is the payload of a Server::* Err
                    if any(pred(o) for o in origins(b, d[1], taint=True)):
                        for t in set(d[2].values()) | {d[3]}:
                            e3.add((sw.block, t))
            w = b.uncrossed_path([0], [c.block], edges=e1 | e2)
            r4.check(w is None, "ban@%s#%d" % (n.split("::")[-2] if n.endswith("}") else n.split("::")[-1], nb), "ban is reached only over the Err/Elapsed edge of server I/O", "ConnectionPool::ban can be reached without a server-side failure (a client's malformed message could ban a healthy server)", c.where(), w and b.describe_path(w))
    # ... and those server-I/O errors are connection failures, not decode errors of content the client can influence:
    # every Err return of Server::send / Server::recv marks the connection bad (I/O error or protocol desync)
    import c02
    members, reasons, _ = c02.compute_bad_on_err(F, r4)
    for fn in ("pgcat::server::Server::send", "pgcat::server::Server::recv"):
        why = "; ".join(w for w, _ in reasons.get(fn, [])[:2])
        r4.check(fn in members, "err=connection-failure:" + fn.split("::")[-1], "%s returns Err only after marking the connection bad (socket / protocol failure)" % fn.split("::")[-1],
                 "%s can return Err for a reason that is not a broken connection (%s): the caller then bans a healthy server because of message content a client can influence (e.g. bytes echoed in an ErrorResponse)" % (fn.split("::")[-1], why))
    r4.check(nb >= 3, "ban-sites", "%d ban call sites on the client path" % nb, "expected >= 3 ban sites on the client path, found %d" % nb)
    # ---------------- R5 client-sized allocations are bounded
    r5 = ctx.rule("C11-R5", "an allocation whose size derives from a 32/64-bit integer supplied by the client is preceded by a bound check on that integer", floor=4)
    # lengths read in pgcat::server / auth_passthrough come from the PostgreSQL server, not from the client
    scope = {n for n in reach if n in F.bodies and not n.startswith("pgcat::server::") and not n.startswith("pgcat::auth_passthrough::") and not n.startswith("<pgcat::server::")}
    n5 = 0
    for n in sorted(scope):
        b = F.body(n)
        for c in b.calls(*ALLOC):
            size_ops = c.args[1:2] if len(c.args) > 1 else c.args[:1]
            if c.name.endswith("with_capacity") and len(c.args) == 1:
                size_ops = c.args[:1]
            readers = []
            size_locals = set()
            for a in size_ops:
                for o in origins(b, a, taint=True, visited=size_locals):
                    if o.kind == "call" and WIDE_READS.search(o.call.name):
                        readers.append(o.call)
            if not readers:
                continue
            # the length field of an already buffered frame (first i32 after the code byte of a Cursor over the message):
            # read_message validated it and the buffer has exactly that many bytes
            def is_frame_len(rc, b=b):
                if not re.search(r"Buf::get_i32$", rc.name):
                    return False
                earlier = [c2 for c2 in b.calls("re:Buf::(get_|advance|copy_to)", "re:BytesMutReader>::read_string$") if c2.block != rc.block and b.dominates(c2.block, rc.block)]
                return len(earlier) == 1 and earlier[0].name.endswith("get_u8")
            if all(is_frame_len(rc) for rc in readers):
                r5.ok("alloc@%s:%s" % (n.replace("pgcat::", ""), c.name.split("::")[-1]), "sized by the length field of an already buffered frame (bounded by read_message)")
                continue
            n5 += 1
            # the integer local(s): destinations of the reads (through awaits)
            int_locals = {l for l in size_locals if b.locals[l]["ty"] in ("i32", "u32", "i64", "u64", "usize") and b.varnames.get(l)}
            bounded = False
            for sb, t in b.control_deps(c.block, depth=4):
                sw = b.blocks[sb]["term"]
                cl = cond_locals(b, sb)
                if not (cl & int_locals):
                    continue
                swo = Switch(b, sb)
                if not swo.is_bool():
                    continue
                te, fe = swo.bool_edges()
                for o in swo.origins():
                    val_on_path = None
                    if t == te[1] and t != fe[1]:
                        val_on_path = not o.neg
                    elif t == fe[1] and t != te[1]:
                        val_on_path = o.neg
                    if val_on_path is None:
                        continue
                    if o.kind == "bin" and o.what in ("Lt", "Le", "Gt", "Ge"):
                        ca, cb = const_int(o.extra["a"]), const_int(o.extra["b"])
                        # which side is the client's integer?
                        va, vb = set(), set()
                        origins(b, o.extra["a"], visited=va, taint=True)
                        origins(b, o.extra["b"], visited=vb, taint=True)
                        len_left = bool(va & int_locals) and isinstance(cb, int)
                        len_right = bool(vb & int_locals) and isinstance(ca, int)
                        less = o.what in ("Lt", "Le")
                        if len_left and ((less and val_on_path) or (not less and not val_on_path)):
                            bounded = True  # len < C holds on the path
                        if len_right and ((not less and val_on_path) or (less and not val_on_path)):
                            bounded = True  # C > len holds on the path
                    if o.kind == "call" and re.search(r"RangeInclusive.*contains$|Range.*contains$|::contains$", o.call.name) and val_on_path:
                        rng = [oo for a in o.call.args[:1] for oo in origins(b, a, taint=True) if oo.kind == "call" and re.search(r"RangeInclusive.*::new$", oo.call.name)]
                        ends_ = [oo for a in o.call.args[:1] for oo in origins(b, a, taint=True) if oo.kind == "const"]
                        if rng or len(ends_) >= 2:
                            bounded = True  # a closed range has an upper end
            key = "%s:%s" % (n.replace("pgcat::", "").replace("::{closure#0}", ""), c.name.split("::")[-1])
            r5.check(bounded, "alloc@" + key, "allocation sized by %s is under a bound check" % sorted({r_.name.split("::")[-1] for r_ in readers}),
                     "allocation sized by a client-supplied %s without an upper bound: a few bytes on the wire make the pooler allocate (and fill) up to 2 GiB; a failed allocation aborts the whole process" % sorted({r_.name.split("::")[-1] for r_ in readers}), c.where())
    r5.note("%d client-sized allocation sites in %d functions reachable from client_entrypoint" % (n5, len(scope)))
    # ---------------- R6 recursion over client-supplied SQL stays inside the worker's stack
    r6 = ctx.rule("C11-R6", "recursive work on client-supplied SQL is bounded, so that it cannot overflow the stack of a tokio worker (a stack overflow is not a task-local panic: the process is aborted): "
                  "the SQL parser runs with sqlparser's default recursion limit, and the text handed to it is bounded in length", floor=2)
    psites = F.all_calls("re:^sqlparser::parser::Parser::(parse_sql|new|with_recursion_limit|try_with_sql|with_tokens|with_tokens_with_locations|parse_statements|parse_statement)$")
    psites = [c for c in psites if "::test" not in c.body.name]
    lim = [c for c in psites if c.name.endswith("with_recursion_limit")]
    big = [c for c in lim if not isinstance(const_int(c.args[1]), int) or const_int(c.args[1]) > 50]
    r6.check(bool(psites) and not big, "parser-recursion-limit", "SQL is parsed with sqlparser's default recursion limit (50) at %d site(s)" % len([c for c in psites if c.name.endswith(("parse_sql", "parse_statements"))]),
             "the SQL parser's recursion limit is raised (%s): the limit of 50 is what keeps the recursive-descent parser inside the 2 MiB stack of a tokio worker; `SELECT ((((...1...))))` then overflows it and the whole pooler is aborted"
             % [const_int(c.args[1]) for c in big], big[0].where() if big else "")
    qp = ctx.body("pgcat::query_router::QueryRouter::parse", r6)
    if qp:
        qsw = switches(qp)
        ps = [c for c in qp.calls("re:^sqlparser::parser::Parser::(parse_sql|parse_statements)$")]
        # edges on which the message length was compared with some bound and found small enough
        boundE = set()
        for sw in qsw:
            if not sw.is_bool():
                continue
            for o in sw.origins():
                if o.kind == "bin" and o.what in ("Gt", "Ge", "Lt", "Le"):
                    srcs = {oo.call.name.split("::")[-1] for side in ("a", "b") for oo in origins(qp, o.extra[side], taint=True) if oo.kind == "call"}
                    if srcs & {"get_i32", "len", "get_u32"}:
                        te, fe = sw.bool_edges()
                        if o.neg:
                            te, fe = fe, te
                        boundE.add(fe if o.what in ("Gt", "Ge") else te)   # `len > max` false edge / `len < max` true edge (orientation: length on the left)
        w = qp.uncrossed_path([0], [c.block for c in ps], edges=boundE) if ps else None
        r6.check(bool(ps) and w is None, "parser-input-unbounded", "every path to the SQL parser crosses a length bound",
                 "QueryRouter::parse hands the client's text to the parser without a length bound when query_parser_max_length is not configured (the default): a left-associative chain `SELECT 1+1+...+1` is parsed by a loop, "
                 "past sqlparser's recursion limit, into a left-deep tree whose recursive traversal and drop overflow the worker stack - one 60 kB (debug) / 200 kB (release) Query aborts the pooler",
                 ps[0].where() if ps else "", w and qp.describe_path(w))

    # ---------------- R7 what pgcat builds for a server is well framed
    r7 = ctx.rule("C11-R7", "a message that pgcat re-encodes for a server announces the length it has: the length field written by an encoder reachable from the client path is computed from the lengths of what is written, "
                  "not from a count field supplied by the client (a mis-framed message makes the server close the connection, which pgcat answers by banning the replica)", floor=3)
    reach_client = F.reachable_fns(["pgcat::client::client_entrypoint", "pgcat::client::client_entrypoint::{closure#0}"])
    n_enc = 0
    for n_, b_ in F.bodies.items():
        m_ = re.match(r"^pgcat::messages::<impl core::convert::TryFrom<(&?)pgcat::messages::(\w+)> for bytes::bytes_mut::BytesMut>::try_from$", n_)
        if not m_ or m_.group(1) == "&":
            continue
        msgn = m_.group(2)
        # (conversions go through core's blanket TryInto; the call graph resolves them by the type arguments of the call - direction included: decoding a
        # message does not make its encoder reachable)
        if n_ not in reach_client:
            r7.note("encoder of %s is not reachable from client_entrypoint (not examined)" % msgn)
            continue
        adt = F.adts.get("pgcat::messages::" + msgn)
        counts = {f["name"] for v in (adt or {}).get("variants", []) for f in v["fields"] if f["ty"] in ("i16", "u16", "i32", "u32") and f["name"] not in ("len",)}
        puts = [c for c in b_.calls("re:BufMut>::put_i32$|BufMut::put_i32$")]
        if not puts:
            continue
        n_enc += 1
        first = min(puts, key=lambda c: c.block)
        used = set()
        for o in origins(b_, first.args[1], taint=True):
            if o.kind in ("place", "param"):
                used.update(p_[1:] for p_ in o.proj if p_.startswith(".") and p_[1:] in counts)
        r7.check(not used, "length-from-bytes:" + msgn, "the %s encoder computes the length from what it writes" % msgn,
                 "the %s encoder computes the frame length from the client-supplied count field(s) %s instead of from what it writes: a negative count (Parse with num_params = -1) gives a frame that is shorter than it says "
                 "(in release builds; debug builds panic on the overflow), the server reads garbage after it and closes the connection, and pgcat bans the replica for it" % (msgn, sorted(used)), first.where())
    r7.check(n_enc >= 3, "encoders", "%d message encoders reachable from the client path examined" % n_enc, "expected >= 3 reachable encoders, found %d" % n_enc)

    # ---------------- R8 a silent client cannot keep a server for ever
    r8 = ctx.rule("C11-R8", "while a client holds a server connection, waiting for its next message is bounded by idle_client_in_transaction_timeout as a whole: in the transaction loop of Client::handle every read of a client message "
                  "is the future handed to tokio::time::timeout (a frame that is announced but never completed must not escape the deadline)", floor=2)
    hh = ctx.body("pgcat::client::Client::handle::{closure#0}", r8)
    if hh:
        rmc = hh.calls("pgcat::messages::read_message")
        claim_ = hh.calls("pgcat::server::Server::claim")
        inner_reads = [c for c in rmc if claim_ and hh.dominates(claim_[0].block, c.block)]
        tos = [c for c in hh.calls("re:^tokio::time::timeout::timeout$") if claim_ and hh.dominates(claim_[0].block, c.block)]
        if not inner_reads or not tos:
            r8.missing("read_message / tokio::time::timeout in the transaction loop of Client::handle")
        else:
            for k_, c in enumerate(inner_reads):
                wrapped = any(any(o.kind == "call" and o.call.block == c.block for o in origins(hh, t.args[1])) for t in tos)
                r8.check(wrapped, "client-read-under-deadline#%d" % (k_ + 1), "the read of the client's next message is the future given to timeout()",
                         "a read of the client's next message in the transaction loop is not under the idle-in-transaction deadline: a client that sends a frame header announcing more bytes than it delivers and then goes silent "
                         "keeps its server connection for ever; with the pool exhausted the others wait connect_timeout and are refused", c.where())
            dur_ok = any(any(o.kind == "call" and o.call.name.endswith("get_idle_client_in_transaction_timeout") for o in origins(hh, t.args[0], taint=True)) for t in tos)
            r8.check(dur_ok, "deadline-from-config", "the deadline is general.idle_client_in_transaction_timeout", "the deadline does not come from idle_client_in_transaction_timeout")
            other_reads = [c for c in hh.calls("re:AsyncBufReadExt::fill_buf$|AsyncReadExt::read(_exact|_u8|_i32|_buf)?$") if claim_ and hh.dominates(claim_[0].block, c.block)]
            # other waits on the client socket (the cancel-safe fill_buf in front of read_message since the D40 repair) are bounded the same way
            unbounded = [c for c in other_reads if not any(any(o.kind == "call" and o.call.block == c.block for o in origins(hh, t.args[1])) for t in tos)]
            r8.check(not unbounded, "no-unbounded-client-reads", "every other wait on the client socket in the transaction loop (%d) is the future given to timeout() as well" % len(other_reads),
                     "the transaction loop also waits on the client socket with %s outside the deadline" % sorted({c.name.split("::")[-1] for c in unbounded}))

    # ---------------- R9 the COPY sub-protocol cannot be used to shift other clients' replies
    r9 = ctx.rule("C11-R9", "while the server is in COPY mode pgcat does not read it per message, so only COPY messages may be forwarded: every send to the server outside the CopyData / CopyDone / CopyFail arms "
                  "of the transaction loop is reached only where Server::in_copy_mode() was false in that iteration (otherwise the reply to the stray message is read up to the ReadyForQuery of the failed COPY, the real "
                  "answer stays unread, and every later client of that connection gets the previous client's answer)", floor=2)
    code_sw9, inner9, arms9, hsw9 = None, None, {}, None
    if hh:
        hsw9 = switches(hh)
        code_sw9 = [sw for sw in hsw9 if sw.ty in ("char", "u32") and {v for v, _ in sw.targets} >= {81, 83, 100, 99}]
        rm9 = [c.block for c in hh.calls("pgcat::messages::read_message")]
        claim9 = hh.calls("pgcat::server::Server::claim")
        heads9 = [hd for hd in loop_headers(hh) if any(b_ in natural_loop(hh, hd) for b_ in rm9)]
        inner9 = [hd for hd in heads9 if claim9 and hh.dominates(claim9[0].block, hd)]
        if not code_sw9 or not inner9:
            r9.missing("message-code switch / transaction loop in Client::handle")
        else:
            arms9 = {v: t for v, t in code_sw9[0].targets}
            copy_arms = {arms9[v] for v in (100, 99, 102) if v in arms9}
            _T9, F9, _ = call_bool_edges(hh, "pgcat::server::Server::in_copy_mode", switches_cache=hsw9)
            n9 = 0
            for c in hh.calls("pgcat::client::Client::send_and_receive_loop", "pgcat::client::Client::send_server_message", "pgcat::server::Server::send"):
                if not hh.dominates(code_sw9[0].block, c.block) or any(hh.dominates(a_, c.block) for a_ in copy_arms):
                    continue
                n9 += 1
                # paths of this iteration that do not cross in_copy_mode()==false; the message code is tracked through the tests of it
                # (`matches!(code, 'd' | 'c' | ..)` followed by `match code`), so that "code is a COPY message" and "the Query arm" exclude each other
                code_locals = set(hh.locals_named("code"))
                reach9 = reach_with_values(hh, [min(inner9)], code_locals, avoid_edges=set(F9))
                w9 = None if c.block not in reach9 else [c.block]
                r9.check(bool(F9) and w9 is None, "no-stray-message-in-copy-mode#%d" % n9, "the send at client.rs:%s is reached only where in_copy_mode() was false" % c.span.split(":")[1],
                         "a Query / Sync sent by a client whose COPY FROM STDIN is still open is forwarded (client.rs:%s): after a COPY the server has already failed, the reply is taken up to the wrong ReadyForQuery and the connection "
                         "goes back to the pool with an answer unread - every later client gets the previous client's answer" % c.span.split(":")[1], c.where())
            r9.check(n9 >= 2, "non-copy-send-sites", "%d sends outside the COPY arms examined" % n9, "expected >= 2 sends outside the COPY arms, found %d" % n9)

    # ---------------- R11 no waiting for an answer the server will not give (D38)
    r11 = ctx.rule("C11-R11", "outside COPY mode PostgreSQL drops CopyDone / CopyFail without any reply: in the CopyDone/CopyFail arm of the transaction loop a reply is awaited only where Server::in_copy_mode() was true - "
                   "otherwise one stray message pins a server connection to its sender for ever (the wait on the server is not interrupted by the client leaving): the connection is out of service, with pool_size = 1 nobody is served again", floor=1)
    if not (hh and code_sw9 and inner9):
        r11.missing("message-code switch / transaction loop in Client::handle")
    else:
        arms9 = {v: t for v, t in code_sw9[0].targets}
        T11, F11, _ = call_bool_edges(hh, "pgcat::server::Server::in_copy_mode", switches_cache=hsw9)
        end_arms = sorted({arms9[v] for v in (99, 102) if v in arms9})
        waits = [c for c in hh.calls("pgcat::client::Client::receive_server_message", "pgcat::client::Client::send_and_receive_loop", "pgcat::server::Server::recv") if any(hh.dominates(a_, c.block) for a_ in end_arms)]
        if not end_arms or not waits:
            r11.missing("CopyDone/CopyFail arm with a server read in Client::handle")
        for k_, c in enumerate(waits):
            w11 = hh.uncrossed_path(end_arms, [c.block], edges=set(T11))
            r11.check(bool(T11) and w11 is None, "copy-end-reply-awaited-only-in-copy-mode#%d" % (k_ + 1), "the read at client.rs:%s is reached only where in_copy_mode() was true" % c.span.split(":")[1],
                      "a CopyDone / CopyFail from a client that has no COPY open is forwarded and its (never coming) reply awaited at client.rs:%s" % c.span.split(":")[1], c.where(), w11 and hh.describe_path(w11))

    # ---------------- R12 a cancel key is good for the holder's own statements only (round 6)
    r12 = ctx.rule("C11-R12", "a CancelRequest is accepted before any authentication, from anybody who knows a key: a client's key must stop pointing at a server connection the moment the client gives that connection back - "
                   "Client::release removes the cancel-map entry on every path (the check-in calls it), otherwise an idle client can cancel whatever another client runs on the connection it used last", floor=1)
    rl12 = ctx.body("pgcat::client::Client::release", r12)
    if rl12:
        rm12 = [c.block for c in rl12.calls("re:^std::collections::hash::map::HashMap::.*remove$")]
        rets12 = [bb for bb, blk in enumerate(rl12.blocks) if blk["term"]["k"] == "return"]
        w12 = rl12.uncrossed_path([0], rets12, blocks=rm12) if rm12 else [0]
        r12.check(bool(rm12) and w12 is None, "release-removes-the-key", "Client::release() removes the client's entry from the cancel map on every path",
                  "Client::release() can return without removing the entry (a condition guards the removal): after its transaction the client's key still maps to the server connection it used; "
                  "a CancelRequest with that key - 16 bytes on a fresh connection - cancels the statement another client is running there", "", w12 and rl12.describe_path(w12))

    # ---------------- R13 one client cannot silently invalidate the statements pgcat keeps for all (D58)
    r13 = ctx.rule("C11-R13", "the PGCAT_n statements of a server connection are shared by its clients and their names are easy to guess: when the server reports that a client deallocated a single statement "
                   "(command tag DEALLOCATE) the connection is marked for the prepare clean-up, so that the cache and the session are brought back in step (DEALLOCATE ALL + empty cache) before anybody else uses it", floor=1)
    rv13 = ctx.body("pgcat::server::Server::recv::{closure#0}", r13)
    if rv13:
        sw13 = switches(rv13)
        marks13 = [blk for blk, i, st in rv13.assigns() if proj_fields(st["lhs"])[-1:] == ["needs_cleanup_prepare"] and st["rv"]["k"] == "use" and const_int(st["rv"].get("op")) == 1]
        eq13 = [k for k in rv13.calls("re:PartialEq.*::eq$") if "DEALLOCATE" in arg_strs(rv13, k)]
        ok13 = False
        for k in eq13:
            for sw_, o_, te, fe in bool_value_edges(rv13, lambda o, k=k: o.kind == "call" and o.call.block == k.block, sw13):
                if any(rv13.dominates(te[1], b_) for b_ in marks13):
                    ok13 = True
        r13.check(ok13, "single-deallocate=>cleanup-marked", "the command tag `DEALLOCATE` sets needs_cleanup_prepare",
                  "Server::recv does not react to the command tag `DEALLOCATE`: any client can run `DEALLOCATE \"PGCAT_0\"`; the cache keeps saying the statement is there, no Parse is sent again and every later Bind of it - "
                  "by any client of that connection - fails with `prepared statement does not exist` for the life of the connection")

    # ---------------- inventory (informational)
    # ---------------- R10 what one client puts into the pool-wide statement cache is not served to another
    # ... and a client cannot reach them with a Close either: with the statement cache on, the Close of a *named statement* is answered by pgcat (the name is the
    # client's own, the server's PGCAT_n is shared) and never forwarded - whatever the client's name map says about that name. Forwarded are only portals, the unnamed
    # statement, and everything when the cache is off: the forward of a buffered Close is reached only over prepared_statements_enabled == false,
    # Close::is_prepared_statement() == false or Close::anonymous() == true
    hh13 = F.body(H) if "H" in globals() else F.body("pgcat::client::Client::handle::{closure#0}")
    if hh13 is None:
        r13.missing("Client::handle")
    else:
        hsw13 = switches(hh13)
        cE13, _o, _ = discr_edges(hh13, r"messages::ExtendedProtocolData", "Close", switches_cache=hsw13)
        peT, peF = field_bool_edges(hh13, "prepared_statements_enabled", hsw13)
        ipT, ipF, _ = call_bool_edges(hh13, "pgcat::messages::Close::is_prepared_statement", switches_cache=hsw13)
        anT, anF, _ = call_bool_edges(hh13, "pgcat::messages::Close::anonymous", switches_cache=hsw13)
        nfw = 0
        for (u_, v_) in sorted(cE13):
            region = {b_ for b_ in hh13.reach([v_]) if hh13.dominates(v_, b_)}
            for c in hh13.calls("re:BufMut::put$|BufMut::put_slice$|BytesMut::extend_from_slice$"):
                if c.block not in region:
                    continue
                flds = {p_ for o in origins(hh13, c.args[0]) if o.kind in ("place", "param") for p_ in o.proj}
                if ".buffer" not in flds:
                    continue
                nfw += 1
                w = hh13.uncrossed_path([v_], [c.block], edges=set(peF) | set(ipF) | set(anT))
                r13.check(w is None, "named-close-never-forwarded", "a buffered Close is forwarded only where the cache is off, or it names a portal or the unnamed statement",
                          "a buffered Close can be forwarded to the server although the cache is on and it names a statement (e.g. whenever the client's own map does not hold the name): "
                          "`Close S PGCAT_0 .. Close S PGCAT_k; Sync` from any client drops the statements every client of that connection shares - their Binds fail with 26000 until the connection is recycled",
                          c.where(), w is not None and hh13.describe_path(w))
        r13.check(nfw >= 1, "close-forward-site", "%d site(s) forward a buffered Close" % nfw, "the forward of a buffered Close was not found in the Sync arm")
    r10 = ctx.rule("C11-R10", "a Parse that enters the pool-wide prepared-statement cache is handed to other clients only for byte-identical statements: every field of Parse that the encoder writes to the server "
                   "(apart from the rewritten name) is part of the cache key, so a malformed twin (e.g. a negative parameter count, which the decoder accepts and the encoder writes back verbatim) cannot be cached under a well-formed statement's key", floor=1)
    gap, encf, hashf = parse_cache_key_gap(F)
    if gap is None:
        r10.missing("Parse encoder / Parse::get_hash / Parse ADT")
    else:
        r10.check(not gap, "cache-key-covers-encoded-fields", "the cache key covers %s, all the client-supplied fields the encoder writes" % sorted(encf),
                  "Parse.%s is written to the server from the cached message but is not part of the cache key (%s): a hostile Parse that differs only there is cached first and every other client preparing the same text is answered with the server's error for the hostile message" % (gap, sorted(hashf)))
    # before authentication the peer is anybody: what is read from it there has its own, small bounds (the startup packet, the PasswordMessage). The reader
    # of ordinary messages, read_message, admits up to the post-authentication maximum and commits that much memory before the first body byte arrives -
    # it is not reachable from the pre-authentication functions (through pgcat::messages helpers), only from Client::handle and the server side
    PRE = ["pgcat::client::Client::startup::{closure#0}", "pgcat::client::startup_tls::{closure#0}", "pgcat::client::get_startup::{closure#0}", "pgcat::client::Client::cancel::{closure#0}"]
    seen_pre = set()
    todo_pre = [n_ for n_ in PRE if F.body(n_) is not None]
    r5.check(len(todo_pre) >= 3, "pre-auth-functions", "%d pre-authentication functions found" % len(todo_pre), "pre-authentication functions not found (%d)" % len(todo_pre))
    hits = []
    while todo_pre:
        n_ = todo_pre.pop()
        if n_ in seen_pre:
            continue
        seen_pre.add(n_)
        b_ = F.body(n_)
        if b_ is None:
            continue
        for c in b_.calls("re:^pgcat::messages::"):
            if c.name == "pgcat::messages::read_message":
                hits.append(c.where())
            for cand in (c.name, c.name + "::{closure#0}"):
                if F.body(cand) is not None and cand not in seen_pre:
                    todo_pre.append(cand)
    r5.check(not hits, "pre-auth-reads-are-small", "read_message (bounded by the post-authentication maximum) is not reachable from the pre-authentication functions",
             "a peer that has not authenticated is read with read_message (%s): 5 bytes - a type and a length just under the maximum - make pgcat allocate and zero that much memory per socket and wait for a body that never comes; "
             "a few dozen sockets take the pooler down for everybody" % hits[:2])
    r14 = ctx.rule("C11-R14", "the one place where bytes a client chose (its start-up parameters) become SQL that pgcat runs on its own behalf, Server::sync_parameters: every value sits in an E'..' constant with both the "
                   "backslash and the quote escaped, so that no value can end its constant - how a plain '..' constant reads a backslash depends on standard_conforming_strings, which the same client chooses", floor=2)
    from c12 import quoting_clauses
    quoting_clauses(ctx, r14, F)
    # ---------------- R16 decoder loops make progress
    # the synchronous decoders of client bytes run on a worker thread shared with other clients' tasks, before authentication in the case of the startup packet: a loop in
    # them that can go round without taking anything from its input (or stepping a counter) never ends once it is entered in that state - the worker is gone, its timers and
    # tasks with it, and what the loop appends per round grows until the process is killed. A panic on a short packet ends the sender's task; a loop that "guards" the
    # read and then goes round does not (round 11)
    r16 = ctx.rule("C11-R16", "every loop of the synchronous decoders of client bytes (pgcat::messages, BytesMutReader, infer_shard_from_bind) takes something from its input or steps a counter on every round", floor=10)
    TAKES = r"bytes::buf::buf_impl::Buf::(get_|advance|copy_to)|(::|>::)next(_key|_value|_back)?$|read_string$|split_to$|split_off$|::read_(u8|i32|i16|exact)$|Vec<.*>::(pop|remove|drain)$|truncate$"
    n_loops = 0
    for n_, b_ in sorted(F.bodies.items()):
        if n_.startswith("bin:") or not re.search(r"^<?pgcat::messages::|^pgcat::query_router::QueryRouter::infer_shard_from_bind$|BytesMutReader", n_):
            continue
        if any(blk["term"]["k"] == "yield" for blk in b_.blocks):
            continue    # async helpers: their loops are the poll loops of awaits
        succ_ = b_.succ("n")
        for hd in loop_headers(b_):
            L = natural_loop(b_, hd)
            n_loops += 1
            prog = {c.block for c in b_.calls() if c.block in L and re.search(TAKES, c.name)}
            for blk, i, st_ in b_.assigns():
                if blk in L and st_["rv"]["k"] == "bin" and st_["rv"]["op"] in ("Add", "Sub", "AddWithOverflow", "SubWithOverflow", "AddUnchecked", "SubUnchecked"):
                    prog.add(blk)
            free = False
            seen_ = set()
            todo = [x for x in succ_[hd] if x in L and x not in prog] if hd not in prog else []
            while todo:
                x = todo.pop()
                if x == hd:
                    free = True
                    break
                if x in seen_:
                    continue
                seen_.add(x)
                todo.extend(y for y in succ_[x] if y in L and y not in prog)
            short = re.sub(r"^<?pgcat::messages::", "", n_)[:60]
            r16.check(not free, "round-takes-input:%s@%d" % (short, len([h2 for h2 in loop_headers(b_) if h2 <= hd])),
                      "every round of the loop takes from the input / steps a counter (%s)" % sorted({c.name.split("::")[-1] for c in b_.calls() if c.block in prog})[:3],
                      "a round of this loop can complete without reading from the buffer or stepping a counter (the read is skipped on one branch and the loop goes on): with a packet that ends inside the element being read - "
                      "17 bytes of startup packet, `user\\0bob` without the final NUL, from an unauthenticated peer - the condition never changes: the worker thread spins for ever, appending a byte per round until the process is out of memory",
                      "%s loop at bb%d" % (n_, hd))
    r16.check(n_loops >= 10, "decoder-loops-found", "%d loops in the synchronous decoders" % n_loops, "only %d decoder loops found" % n_loops)
    inv = ctx.rule("C11-INV", "inventory of panic-capable operations on data read from the client in the protocol entry functions (a panic here only ends the sender's task)", armed=False)
    tot = 0
    for fn in ENTRY_FNS:
        b = F.body(fn)
        if not b:
            continue
        k = 0
        for s in panic_sites(b, include_expansion=False):
            tainted = False
            for op in s["ops"]:
                for o in origins(b, op, taint=True):
                    if o.kind == "call" and re.search(r"read_(u8|i32|exact|string|i16)|get_(u8|i8|i16|i32|i64)|read_message", o.call.name):
                        tainted = True
                    if o.kind == "param" and b.locals[o.what]["ty"].find("BytesMut") >= 0:
                        tainted = True
            if tainted:
                k += 1
        tot += k
        inv.ok("inventory:" + fn.replace("pgcat::", "")[:70], "%d panic-capable operation(s) on client data" % k)
    inv.note("total %d sites" % tot)

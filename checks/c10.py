"""C10 — a cancel request reaches only the requester's own running server session."""
from mirlib import *

H = "pgcat::client::Client::handle::{closure#0}"
CLAIM = "pgcat::server::Server::claim"
RELEASE = "pgcat::client::Client::release"
DROP = "<pgcat::client::Client<S, T> as core::ops::drop::Drop>::drop"
CANCEL = "pgcat::server::Server::cancel"
MAP_TY = "HashMap<(i32, i32), (i32, i32, alloc::string::String, u16)>"
HM = "re:^std::collections::hash::map::HashMap::"


def map_calls(F):
    """every HashMap method call whose receiver is (a guard of) a ClientServerMap"""
    out = []
    for c in F.all_calls(HM):
        if not c.args:
            continue
        vis = set()
        flds = set()
        for o in origins(c.body, c.args[0], visited=vis):
            if o.kind in ("place", "param"):
                flds |= {p for p in o.proj if p.startswith(".")}
        if ".client_server_map" in flds or any(MAP_TY in c.body.locals[l]["ty"] for l in vis):
            out.append(c)
    return out


def run(ctx):
    F = ctx.facts
    ctx.explanation = ("who-may-write enumeration of the client->server cancel map over the whole program (receivers resolved through Arc/Mutex guards by type and field), "
                       "provenance of the stored key/value and of Server::cancel's arguments, and ordering of release before the guard drop on every path back to the idle loop")
    ctx.assumptions = ["the window between an error return of handle and the drop of the Client (which removes the entry) is a schedule property and is not decided",
                       "rand::random yields unpredictable keys (trusted)"]
    # ---------------- R1
    r1 = ctx.rule("C10-R1", "the cancel map is inserted into only by Server::claim, removed from only by Client::release / Drop, and looked up only by the cancel branch of handle", floor=4)
    calls = map_calls(F)
    ctx.evaluations += len(calls)
    allowed = {
        "insert": {CLAIM}, "remove": {RELEASE, DROP}, "get": {H},
    }
    seen = {}
    for c in calls:
        m = c.name.split("::")[-1]
        seen.setdefault(m, set()).add(c.body.name)
        if m in ("new", "default", "with_capacity", "len", "is_empty"):
            continue
        ok = c.body.name in allowed.get(m, set())
        r1.check(ok, "%s@%s" % (m, c.body.name.replace("pgcat::", "")), "HashMap::%s on the cancel map in %s" % (m, c.body.name),
                 "unexpected HashMap::%s on the cancel map in %s (only claim may insert, release/Drop remove, handle's cancel branch get)" % (m, c.body.name), c.where())
    for m, fns in allowed.items():
        r1.check(fns & seen.get(m, set()) == fns, "present:" + m, "%s sites present in %s" % (m, sorted(x.split("::")[-1] for x in fns)), "expected %s site(s) missing: %s" % (m, sorted(fns - seen.get(m, set()))))
    # shared map created once in main; private maps only for out-of-band servers and mirrors
    creators = []
    for n, b in F.bodies.items():
        for c in b.calls("re:^alloc::sync::Arc::new$", "re:Default>::default$"):
            if c.dest and MAP_TY in b.locals[c.dest["l"]]["ty"] and b.locals[c.dest["l"]]["ty"].startswith("alloc::sync::Arc<"):
                creators.append(n)
    exp = {"bin:pgcat::main::{closure#1}", "pgcat::server::Server::exec_simple_query::{closure#0}", "pgcat::mirrors::MirroredClient::create_pool::{closure#0}"}
    r1.check(set(creators) <= exp and "bin:pgcat::main::{closure#1}" in creators, "creators", "cancel maps are created in main (shared) and privately in exec_simple_query / mirrors only", "cancel map created in %s" % sorted(set(creators)))

    # ---------------- R2
    r2 = ctx.rule("C10-R2", "claim stores (client pid, client key) -> (this server's pid, key, host, port); handle claims with the client's own pid/key, which come from rand::random at startup", floor=5)
    cl = ctx.body(CLAIM, r2)
    if cl:
        ins = [c for c in calls if c.body is cl and c.name.endswith("::insert")]
        if not ins:
            r2.missing("insert in Server::claim")
        else:
            c = ins[0]
            kp = {o.what for o in origins(cl, c.args[1]) if o.kind == "param"}
            r2.check(kp == {2, 3}, "key=params", "the key is claim's (process_id, secret_key) parameters", "the map key is not (process_id, secret_key) of the claiming client: %s" % sorted(kp))
            vf = set()
            for o in origins(cl, c.args[2]):
                if o.kind in ("place", "param") and o.what == 1:
                    fl = [p[1:] for p in o.proj if p.startswith(".")]
                    if fl:
                        vf.add(".".join(fl))
            want = {"process_id", "secret_key", "address.host", "address.port"}
            r2.check(want <= vf, "value=server-identity", "the value is this server's (process_id, secret_key, address.host, address.port)", "the stored value is not the server's own identity: %s" % sorted(vf))
    h = ctx.body(H, r2)
    if h:
        cc = h.calls(CLAIM)
        if not cc:
            r2.missing("call Server::claim in handle")
        else:
            for i, nm in ((1, "process_id"), (2, "secret_key")):
                fl = {tuple(p for p in o.proj if p.startswith(".")) for o in origins(h, cc[0].args[i]) if o.kind in ("place", "param")}
                r2.check(any(t and t[-1] == "." + nm for t in fl), "claim-arg:" + nm, "claim is called with self.%s" % nm, "claim argument %d is not self.%s" % (i, nm), cc[0].where())
            # receiver of claim is the guard's server
            recv = {o.call.name for o in origins(h, cc[0].args[0]) if o.kind == "call"}
            r2.check("pgcat::pool::ConnectionPool::get" in recv, "claim-receiver", "claim is called on the server just checked out", "claim receiver does not derive from ConnectionPool::get: %s" % sorted(recv))
    # every key that enters the shared map is one that was issued to a client (round 5: a warm-up `claim(0, 0)` left a
    # never-removed entry (0,0) -> server, so a CancelRequest carrying a key nobody was given cancelled a stranger's query)
    for c in F.all_calls(CLAIM):
        if c.body.name == H:
            continue
        consts = [const_int(c.args[i]) for i in (1, 2)]
        r2.fail("claim-only-for-a-client:" + c.body.name.replace("::{closure#0}", "").split("::")[-1], "Server::claim is called outside Client::handle with key %s: the entry is not under a key issued to a client by Client::startup and nothing removes it (release/Drop belong to clients) - "
                "whoever sends a CancelRequest with that key cancels whatever runs on the connection" % consts, c.where())
    r2.check(True, "claim-callers", "Server::claim call sites outside Client::handle: %d" % len([c for c in F.all_calls(CLAIM) if c.body.name != H]), "")
    for b_, blk, st in F.aggregates("pgcat::client::Client"):
        rv = st["rv"]
        for nm in ("process_id", "secret_key"):
            op = rv["ops"][rv["fields"].index(nm)]
            src = {o.call.name for o in origins(b_, op) if o.kind == "call"}
            if b_.name.endswith("startup::{closure#0}"):
                r2.check(src == {"rand::random"}, "startup:%s" % nm, "startup draws %s from rand::random" % nm, "startup takes %s from %s" % (nm, sorted(src)))
            else:
                r2.check(any("get_i32" in s_ for s_ in src), "cancel:%s" % nm, "cancel() takes %s from the CancelRequest" % nm, "cancel() takes %s from %s" % (nm, sorted(src)))
    wr = [(b_.name, st["span"]) for b_, blk, st in F.field_writes(lambda f, b_, st: f in ("process_id", "secret_key") and "client::Client" in b_.name)]
    r2.check(not wr, "client-key-immutable", "Client.process_id / secret_key are never reassigned", "Client key reassigned at %s" % wr)


    # the object that serves a CancelRequest carries the *target's* key: it must not remove the target's entry when it goes away,
    # or the next CancelRequest for the same running query finds nothing
    drp = ctx.body(DROP, r2)
    if drp:
        dsw = switches(drp)
        Tc, Fc = field_bool_edges(drp, "cancel_mode", dsw)
        rms = [c.block for c in drp.calls("re:HashMap::.*remove$") if "client_server_map" in {p_[1:] for o in origins(drp, c.args[0], taint=True) if o.kind in ("place", "param") for p_ in o.proj if p_.startswith(".")}
               or any(o.kind == "call" and o.call.name.endswith("::lock") for o in origins(drp, c.args[0]))]
        w = drp.uncrossed_path([0], rms, edges=set(Fc)) if rms else None
        r2.check(bool(rms) and bool(Fc) and w is None, "cancel-object-keeps-target-entry", "Drop for Client removes the map entry only when the object is not a cancel-request object (cancel_mode == false)",
                 "Drop for Client removes (process_id, secret_key) from the cancel map for every object, also for the throw-away object of a CancelRequest - whose key is the target client's: after one cancel request the target's entry is gone "
                 "although it still holds its server, and a second CancelRequest for the same query is ignored", "", w and drp.describe_path(w))
    # ---------------- R3
    r3 = ctx.rule("C10-R3", "the mapping is removed before the connection goes back to the pool: every path from the checkout back to the idle loop passes Client::release; other exits return (Drop removes the entry)", floor=2)
    if h:
        gets = h.calls("pgcat::pool::ConnectionPool::get")
        rel = [c.block for c in h.calls(RELEASE)]
        rm = [c.block for c in h.calls("pgcat::messages::read_message")]
        heads = [hd for hd in loop_headers(h) if any(b_ in natural_loop(h, hd) for b_ in rm)]
        outer = min(heads) if heads else None
        cc = h.calls(CLAIM)
        if not (gets and rel and outer is not None and cc):
            r3.missing("get/claim/release/idle loop in handle")
        else:
            wit = h.uncrossed_path([cc[0].block], [outer], blocks=rel)
            r3.check(wit is None, "release-before-idle", "no path from claim back to the idle loop skips release()", "a path returns to the idle loop with the client still mapped to the server it no longer holds", "", wit and h.describe_path(wit))
            # release precedes the drop of the guard on the normal path
            guard = [l for l in h.locals_named("reference")]
            if guard:
                drops = [b for b, blk in enumerate(h.blocks) if blk["term"]["k"] == "drop" and blk["term"]["pl"]["l"] == guard[0] and not blk["term"]["pl"]["p"] and not blk["cleanup"]]
                okd = False
                for d in drops:
                    # the drop that leads back to the idle loop
                    if outer in h.reach([d]):
                        okd = h.uncrossed_path([cc[0].block], [d], blocks=rel) is None
                r3.check(okd, "release-before-guard-drop", "on the release path release() precedes the drop of the pooled connection", "the pooled connection is dropped (returned to the pool) before release() on the path back to the idle loop")
                # ... and the guard is not given away earlier: a call that takes it by value (`drop(reference)`) ends the checkout right there
                moved = []
                for c_ in h.calls():
                    if h.blocks[c_.block]["cleanup"]:
                        continue
                    for a_ in c_.args:
                        pl_ = op_place(a_)
                        if pl_ is None or a_.get("c") != "move" or pl_["p"]:
                            continue
                        vis_ = set()
                        origins(h, a_, visited=vis_)
                        # by value: the operand (a temporary the guard was moved into) has the guard's own type, not a reference to it
                        if guard[0] in vis_ and h.locals[pl_["l"]]["ty"] == h.locals[guard[0]]["ty"]:
                            moved.append(c_)
                early = [c_ for c_ in moved if h.uncrossed_path([cc[0].block], [c_.block], blocks=rel) is not None]
                r3.check(not early, "release-before-guard-moves", "the pooled connection is not handed to anything (%d by-value use(s)) before release()" % len(moved),
                         "the pooled connection is given away (%s) before release(): it is back in the pool - or with the next client - while this client's key still names it; a CancelRequest with that key cancels "
                         "the other client's statement" % [c_.name.split("::")[-1] for c_ in early], early[0].where() if early else "")
            # ... and on the other exits that give a *clean* connection back: where checkin_cleanup completed and handle then returns, the pooled connection is
            # handed on as soon as handle() has returned - the entry must be gone by then, not when the Client object is destroyed some time later (after
            # client_entrypoint has reported the departure to a possibly busy accept loop). Exits that leave the connection un-cleaned are bb8's to discard (C02's gate).
            hsw10 = switches(h)
            ccs = h.calls("pgcat::server::Server::checkin_cleanup")
            okC, _e, _ = discr_edges(h, r"ControlFlow<", "Continue", origin_pred=lambda o: o.kind == "call" and o.call.name == "pgcat::server::Server::checkin_cleanup", switches_cache=hsw10)
            rets10 = [bb for bb, blk in enumerate(h.blocks) if blk["term"]["k"] == "return"]
            errs10 = {c.block for c in h.calls("re:FromResidual<.*>>::from_residual$")}
            wit = h.uncrossed_path([d for _, d in okC], rets10, blocks=rel) if okC else [0]
            r3.check(bool(okC) and len(okC) >= len(ccs) and wit is None, "release-before-return-after-cleanup", "after a completed checkin_cleanup (%d sites) every way to a return of handle passes release()" % len(ccs),
                     "handle can return after a completed checkin_cleanup without release(): the connection goes back to the pool clean - and with the departed client's key still naming it until the Client object is destroyed; "
                     "a CancelRequest with that key (drivers send one right before closing the socket) cancels the statement of whoever holds the connection by then", "", wit and wit != [0] and h.describe_path(wit))
    dr = ctx.body(DROP, r3)
    if dr:
        r3.check(any(c.body is dr and c.name.endswith("::remove") for c in calls), "drop-removes", "Drop for Client removes the entry", "Drop for Client no longer removes the map entry")
        rl = F.body(RELEASE)
        for b_, nm in ((dr, "Drop"), (rl, "release")):
            if b_:
                rmv_ = [c.block for c in calls if c.body is b_ and c.name.endswith("::remove")]
                rets_ = [bb for bb, blk in enumerate(b_.blocks) if blk["term"]["k"] == "return"]
                # the only legitimate way round the removal: the object serves a CancelRequest (its key is the target's, D27)
                cmT = set(field_bool_edges(b_, "cancel_mode", switches(b_))[0])
                wit_ = b_.uncrossed_path([0], rets_, blocks=rmv_, edges=cmT)
                r3.check(bool(rmv_) and wit_ is None, "unconditional-remove:" + nm, "%s removes the entry on every path (of a client that is not a cancel-request object)" % nm,
                         "%s can return without removing the client's entry (a condition guards the removal): after the transaction ends the client's key still maps to the server it used" % nm, "", wit_ and b_.describe_path(wit_))
            if not b_:
                continue
            rmv = [c for c in calls if c.body is b_ and c.name.endswith("::remove")]
            if rmv:
                fl = {p for o in origins(b_, rmv[0].args[1]) if o.kind in ("place", "param") for p in o.proj if p.startswith(".")}
                r3.check({".process_id", ".secret_key"} <= fl, "remove-key:" + nm, "%s removes the client's own (process_id, secret_key)" % nm, "%s removes key %s" % (nm, sorted(fl)))

    # ---------------- R4
    r4 = ctx.rule("C10-R4", "no hit => no contact: Server::cancel is called only on the Some arm of the lookup, with the looked-up tuple; the only connect of the cancel path is inside Server::cancel", floor=3)
    if h:
        hsw = switches(h)
        cn = h.calls(CANCEL)
        gt = [c for c in calls if c.body is h and c.name.endswith("::get")]
        r4.check(F.callers_of(CANCEL) == [H], "cancel-callers", "Server::cancel has one caller (handle)", "Server::cancel callers: %s" % F.callers_of(CANCEL))
        if not cn or not gt:
            r4.missing("Server::cancel / map get in handle")
        else:
            someE, noneE, _ = discr_edges(h, r"core::option::Option<&\(i32, i32, alloc::string::String, u16\)>", "Some", origin_pred=lambda o: o.kind == "call" and o.call.block == gt[0].block, switches_cache=hsw)
            if not someE:
                r4.missing("Some/None switch on the lookup result")
            else:
                wit = h.uncrossed_path([0], [cn[0].block], edges=someE)
                r4.check(wit is None, "cancel-on-hit-only", "Server::cancel is reached only over the Some edge of the lookup", "Server::cancel can be reached without a map hit", "", wit and h.describe_path(wit))
                # None arm: returns without any network call
                reach = h.reach([d for _, d in noneE])
                net = [c for c in h.calls(CANCEL, "re:TcpStream::connect$", "pgcat::pool::ConnectionPool::get", "pgcat::client::Client::get_pool") if c.block in reach]
                r4.check(not net, "miss=>silent", "a miss returns without contacting anything", "the miss arm reaches %s" % [c.name for c in net])
            # arguments derive from the looked-up tuple
            bad = []
            for i, a in enumerate(cn[0].args):
                src = {o.call.name.split("::")[-1] for o in origins(h, a) if o.kind == "call"}
                selfkey = {p for o in origins(h, a) if o.kind in ("place", "param") for p in o.proj if p in (".process_id", ".secret_key") and len(o.proj) <= 3 and ".client_server_map" not in o.proj}
                if "get" not in src:
                    bad.append((i, sorted(src)))
            r4.check(not bad, "cancel-args-from-lookup", "all four arguments of Server::cancel come from the looked-up tuple", "Server::cancel arguments not from the lookup: %s" % bad, cn[0].where())
            # the lookup key is the request's (process_id, secret_key)
            fl = {p for o in origins(h, gt[0].args[1]) if o.kind in ("place", "param") for p in o.proj if p.startswith(".")}
            r4.check({".process_id", ".secret_key"} <= fl, "lookup-key", "the lookup key is the CancelRequest's (process_id, secret_key)", "lookup key fields: %s" % sorted(fl))
    sc = ctx.body(CANCEL + "::{closure#0}", r4)
    if sc:
        conns = [c.body.name for c in F.all_calls("re:^tokio::net::tcp::stream::TcpStream::connect$")]
        r4.check(CANCEL + "::{closure#0}" in conns, "connect-in-cancel", "Server::cancel opens its own connection", "Server::cancel no longer connects")
        # what it sends: the four parameters
        puts = sc.calls("re:BufMut>::put_i32$|BufMut::put_i32$")
        srcs = set()
        for c in puts:
            for o in origins(sc, c.args[1]):
                if o.kind in ("place", "param"):
                    srcs.add(tuple(o.proj))
        r4.check(len(puts) >= 4, "cancel-frame", "CancelRequest frame has four i32 fields (len, code, pid, key)", "CancelRequest frame has %d i32 fields" % len(puts))
        # the looked-up target is used at once: one connect, one write. The map is consulted exactly once (before this call), so any waiting or
        # retrying inside the delivery lets the client's transaction end and the server session move on to another client while the request is in flight
        conn = sc.calls("re:^tokio::net::tcp::stream::TcpStream::connect$")
        heads = loop_headers(sc)
        in_loop = [c for c in conn if any(c.block in natural_loop(sc, hd) for hd in heads)]
        r4.check(len(conn) == 1 and not in_loop, "single-attempt", "Server::cancel connects once, outside any loop", "Server::cancel connects %d time(s)%s: a delivery that retries uses a target looked up before the wait - by then the session can belong to another client's transaction" % (len(conn), " in a loop" if in_loop else ""), conn[0].where() if conn else "")
        waits = sorted(F.reachable_fns([CANCEL]) & {n_ for n_ in F.callgraph_nodes() if re.search(r"^tokio::time::(sleep|interval|timeout|instant)::|^tokio::time::(sleep|sleep_until|timeout|interval)$|^std::thread::sleep$", n_)})
        r4.check(not waits, "no-waiting-in-delivery", "nothing reachable from Server::cancel sleeps or arms a timer", "the cancel delivery waits (%s) between the lookup and the send" % waits)

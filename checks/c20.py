"""C20 — mirroring never affects the primary path (structure only; latency and fault timing are not decided)."""
from mirlib import *
from common import cancelled_io_findings

SEND = "pgcat::server::Server::send::{closure#0}"
MSEND = "pgcat::server::Server::mirror_send"
MM = "pgcat::mirrors::MirroringManager::"
START = "pgcat::mirrors::MirroredClient::start"
STARTC = START + "::{closure#0}"
FROM_CONFIG = "pgcat::pool::ConnectionPool::from_config::{closure#0}"
STARTUP = "pgcat::server::Server::startup::{closure#0}"


def fields_of(body, op, taint=False):
    return {p[1:] for o in origins(body, op, taint=taint) if o.kind in ("place", "param") for p in o.proj if p.startswith(".") and not p[1:].isdigit()}


def run(ctx):
    F = ctx.facts
    ctx.explanation = ("the mirror hand-off is synchronous code that can only try_send into a bounded channel (callee allowlist over the call-graph closure), what is mirrored is the very buffer written to the server, "
                       "the mirror task owns a private pool and cancel map, and mirrors are attached to the server whose index they name")
    ctx.assumptions = ["latency and fault behaviour of mirrors are not measured; tokio's try_send never blocks (documented, trusted)", "a mirror with an out-of-range mirroring_target_index is silently ignored (informational)"]
    # ---------------- R1
    r1 = ctx.rule("C20-R1", "the client path cannot wait on a mirror: mirror_send / MirroringManager::send / disconnect are not async and reach only try_send, capacity, is_closed and clones", floor=5)
    for fn in (MSEND, MM + "send", MM + "disconnect"):
        r1.check(F.body(fn) is not None and F.body(fn + "::{closure#0}") is None or not (F.fns.get(fn) or {}).get("async", False), "sync:" + fn.split("::")[-1] + "@" + fn.split("::")[-2], "%s is a plain (non-async) function" % fn, "%s is async: the client path could be suspended on a mirror" % fn)
        r1.check(not (F.fns.get(fn) or {}).get("async", True), "not-async:" + fn.split("::")[-2] + "::" + fn.split("::")[-1], "%s is declared without `async`" % fn, "%s is declared async" % fn)
    # everything a server connection's owner runs on behalf of the mirrors: the hand-off at every send, and the farewell when the connection is dropped
    reach = {n for n in F.reachable_fns([MSEND, MM + "send", MM + "disconnect"]) if n in F.bodies}
    chan = set()
    blocking = []
    for n in reach:
        b = F.body(n)
        for c in b.calls():
            if "tokio::sync::mpsc" in c.name:
                chan.add(c.name.split("::")[-1])
            if re.search(r"blocking_send|block_on|::send$|lock$|::write$|::read$|sleep|park", c.name) and "tokio::sync::mpsc" in c.name or re.search(r"block_on|thread::(functions::)?(sleep|sleep_until|park|park_timeout|yield_now)|blocking_|spin_loop", c.name):
                blocking.append(c.where())
            # waiting against a clock (a grace period for the mirrors to catch up) is waiting on the mirror, however short
            if re.search(r"time::(Instant|SystemTime)(<.*>)?::(now|elapsed)$", c.name):
                blocking.append("clock-bounded wait: " + c.where())
        if any(blk["term"]["k"] == "yield" for blk in b.blocks):
            blocking.append("yield in " + n)
    r1.check(chan <= {"try_send", "capacity", "is_closed", "max_capacity", "same_channel", "strong_count", "weak_count"} and "try_send" in chan, "channel-ops", "mirror hand-off uses only %s" % sorted(chan), "mirror hand-off uses channel operations %s (only try_send/capacity/is_closed never block)" % sorted(chan))
    r1.check(not blocking, "no-blocking", "nothing reachable from mirror_send can block or suspend", "blocking/suspending operations reachable from mirror_send: %s" % blocking[:3])
    # bounded queue
    mk_ = F.body(MM + "from_addresses")
    cl = [b for n, b in F.bodies.items() if n.startswith(MM + "from_addresses")]
    caps = []
    for b in cl:
        for c in b.calls("re:^tokio::sync::mpsc::bounded::channel$"):
            caps.append(const_int(c.args[0]))
    r1.check(bool(caps) and all(isinstance(x, int) and x > 0 for x in caps), "bounded-queue", "mirror channels are bounded with constant capacities %s" % caps, "mirror channel capacity is not a positive constant: %s" % caps)
    # ---------------- R2
    r2 = ctx.rule("C20-R2", "what is mirrored is exactly what is sent: Server::send passes its own buffer to mirror_send and to the socket; the manager clones it whole; the mirror task forwards the received bytes whole", floor=5)
    s = ctx.body(SEND, r2)
    if s:
        ms = s.calls(MSEND)
        wr = s.calls("pgcat::messages::write_all_flush")
        if not ms or not wr:
            r2.missing("mirror_send / write_all_flush in Server::send")
        else:
            def param_root(body, op):
                return {(o.what, tuple(p for p in o.proj if p != "*")) for o in origins(body, op) if o.kind in ("param", "place") and isinstance(o.what, int)}
            a, b_ = param_root(s, ms[0].args[1]), param_root(s, wr[0].args[1])
            thr = []
            origins(s, ms[0].args[1], through=thr)
            same = bool(a & b_) and not any(o.kind == "call" for o in origins(s, ms[0].args[1])) and not thr  # no conversion/slicing in between
            r2.check(same, "same-buffer", "mirror_send and the server write receive the same `messages` argument", "mirror_send receives something else than what is written to the server")
            r2.check(s.dominates(ms[0].block, wr[0].block) or s.dominates(wr[0].block, ms[0].block), "every-send-mirrored", "every Server::send mirrors", "Server::send does not always mirror")
    r2.check(F.callers_of(MSEND) == [SEND], "mirror_send-callers", "mirror_send has one caller (Server::send)", "mirror_send callers: %s" % F.callers_of(MSEND))
    mb = ctx.body(MM + "send", r2)
    if mb:
        fr = mb.calls("re:^bytes::bytes_mut::BytesMut::freeze$")
        okc = bool(fr) and any(o.kind == "param" and o.what == 2 for o in origins(mb, fr[0].args[0])) and not any(o.kind == "call" and re.search(r"split|slice|truncate|index", o.call.name) for o in origins(mb, fr[0].args[0], taint=True))
        r2.check(okc, "whole-clone", "the manager sends bytes.clone().freeze() of the whole buffer", "the manager does not forward a whole copy of the buffer")
    st = ctx.body(STARTC, r2)
    if st:
        sends = st.calls("pgcat::server::Server::send")
        okw = False
        for c in sends:
            src = {o.call.name for o in origins(st, c.args[1], taint=True) if o.kind == "call"}
            if any("Receiver::recv" in x for x in src) and not any(re.search(r"split|truncate|advance", x) for x in src):
                okw = True
        r2.check(okw, "task-forwards-whole", "the mirror task sends the bytes it received from the channel", "the mirror task does not forward the received bytes whole")
    # a cancelled write would leave a torn request on the mirror connection
    tf = cancelled_io_findings(F, scope=lambda n: n.startswith("pgcat::mirrors::"))
    for fn, ok, where, wit in tf:
        r2.check(ok, "no-torn-write:" + fn.split("::")[-2], "a timed-out mirror write marks that connection bad", "the mirror task abandons a write after a timeout and keeps using the connection: the mirror receives a prefix of one request with the next request glued to it", where, wit)
    r2.check(True, "mirror-writes-not-cancelled", "%d timeout-wrapped server I/O site(s) in the mirror task" % len(tf))
    # ... and Server::mirror_send hands the manager the very buffer it was given, once: the manager drops a whole entry when a mirror's channel is full, so an
    # entry has to be a whole request - a request handed over in pieces loses a piece on overflow and the mirror reads the following requests as its missing body
    msb = ctx.body(MSEND, r2)
    if msb:
        mcalls = msb.calls(MM + "send")
        okp = bool(mcalls) and all({(o.kind, o.what) for o in origins(msb, c.args[1]) if o.kind in ("param", "call", "agg")} == {("param", 2)} for c in mcalls)
        inloop = [c for c in mcalls if any(c.block in natural_loop(msb, hd) for hd in loop_headers(msb))]
        r2.check(okp and not inloop, "manager-gets-the-whole-request", "mirror_send passes its own `bytes` argument to MirroringManager::send, once",
                 "mirror_send hands MirroringManager::send something else than the request it was given (a slice, a chunk, a copy built in a loop): what the manager drops when a mirror lags is then a piece of a request, "
                 "and the mirror receives a byte stream that is not a sequence of whole requests", (inloop or mcalls or [None])[0].where() if (inloop or mcalls) else "")
    # ---------------- R3
    r3 = ctx.rule("C20-R3", "the mirror is isolated: it runs in its own task with its own bb8 pool (max_size constant) and a private cancel map; it does not touch the client, POOLS or the parent server", floor=4)
    sb = ctx.body(START, r3)
    if sb:
        r3.check(bool(sb.calls("re:^tokio::task::spawn::spawn$")), "own-task", "MirroredClient::start spawns a task", "MirroredClient::start no longer spawns its own task")
    if st:
        r3.check(bool(st.calls("pgcat::mirrors::MirroredClient::create_pool")), "own-pool", "the task builds its own pool with create_pool", "the mirror task does not build its own pool")
        statics = {o.what for c in st.calls() for a in c.args for o in origins(st, a) if o.kind == "static"}
        bad = [x for x in statics if x in ("pgcat::pool::POOLS",)]
        r3.check(not bad and not st.calls("pgcat::pool::get_pool", "pgcat::pool::get_all_pools"), "no-shared-pools", "the mirror task does not look at POOLS", "the mirror task touches the shared pools")
        wr = st.calls("re:^pgcat::messages::write_all")
        r3.check(not wr, "replies-discarded", "mirror replies are only read and discarded", "the mirror task writes replies somewhere")
    cp = ctx.body("pgcat::mirrors::MirroredClient::create_pool::{closure#0}", r3)
    if cp:
        sp = cp.calls("pgcat::pool::ServerPool::new")
        okm = bool(sp) and any(o.kind == "call" and o.call.name.endswith("Default>::default") for o in origins(cp, sp[0].args[3], taint=True))
        r3.check(okm, "private-cancel-map", "the mirror's ServerPool gets ClientServerMap::default() (private)", "the mirror shares a cancel map")
        # what reaches a mirror is copies of requests - nothing the mirror's own connection manager thinks up: ServerPool::connect runs the plugins it is given
        # (the prewarmer's queries) on every connection it opens, at every reconnect of the mirror; the mirror's manager is given none (round 11)
        if sp:
            po = origins(cp, sp[0].args[5], taint=True)
            none_only = bool(po) and all(o.kind == "agg" and str(o.extra.get("variant", "")) == "None" or (o.kind == "const") for o in origins(cp, sp[0].args[5])) and not any(o.kind in ("call", "place", "param", "static") for o in po)
            r3.check(none_only, "mirror-manager-originates-nothing", "the mirror's ServerPool is built with plugins = None: its connections send what the task forwards and nothing else",
                     "the mirror's ServerPool is given a plugins section: ServerPool::connect runs the prewarmer's queries on every connection the mirror task opens - the mirror receives statements that were never sent to the mirrored "
                     "server (again at every reconnect), on top of the copies of the primary's own prewarm queries", sp[0].where())
    # what the mirror's pool and the clients' pools have in common is the connection manager (ServerPool): nothing in it - connect / is_valid, Server::startup -
    # waits for a process-wide resource (a permit of a static semaphore, a static async lock): a mirror that accepts and then says nothing holds its connect
    # attempt - and whatever that attempt holds - for connect_timeout, again and again; clients' attempts queue behind it (round 10)
    WAITS = "re:^tokio::sync::(semaphore::Semaphore::(acquire|acquire_many|acquire_owned|acquire_many_owned)|mutex::Mutex<.*>::lock|mutex::Mutex::lock|rwlock::RwLock::(read|write)|rwlock::RwLock<.*>::(read|write)|batch_semaphore::Semaphore::acquire)$"
    shared_fns = sorted(n_ for n_ in F.reachable_fns(["<pgcat::pool::ServerPool as bb8::api::ManageConnection>::connect", "<pgcat::pool::ServerPool as bb8::api::ManageConnection>::connect::{closure#0}",
                                                        "<pgcat::pool::ServerPool as bb8::api::ManageConnection>::is_valid", "<pgcat::pool::ServerPool as bb8::api::ManageConnection>::is_valid::{closure#0}"])
                        if n_ in F.bodies and (n_.startswith("<pgcat::pool::ServerPool") or n_.startswith("pgcat::server::Server::startup")))
    waits = []
    for n_ in shared_fns:
        b_ = F.body(n_)
        for c in b_.calls(WAITS):
            if any(o.kind == "static" for o in origins(b_, c.args[0], taint=True)):
                waits.append((n_, c))
    r3.check(bool(shared_fns) and not waits, "manager-waits-on-nothing-process-wide", "the connection manager shared by the clients' pools and the mirrors' (%d functions) awaits no permit or lock of a static" % len(shared_fns),
             "%s waits for %s of a static: the mirror tasks' pools use the same manager, a mirror that accepts connections and then hangs holds it for connect_timeout at every attempt - connection attempts to the healthy "
             "primary wait behind the mirrors'" % ((waits[0][0].split(" as ")[0].strip("<") + "::" + waits[0][0].split("::")[-2], waits[0][1].name.split("::")[-1]) if waits else ("", "")), waits[0][1].where() if waits else "")
    # ---------------- R5
    # a server connection that is dropped tells its mirror tasks to stop (Drop for Server -> MirroringManager::disconnect -> the exit channel). The task must hear
    # that wherever it waits for something the mirror decides - a connection of its pool above all: a mirror that is down fails every checkout, and a loop that
    # only waits for the exit signal once it *has* a connection never ends; every closed server connection then leaves one more task dialling the mirror (D87)
    r5 = ctx.rule("C20-R5", "the mirror task ends with its server connection: every wait inside its loop is a select! one branch of which is the exit channel's recv() and leaves the loop - the write of a request apart", floor=3)
    if st:
        heads = loop_headers(st)
        main_loop = max((natural_loop(st, hd) for hd in heads), key=len) if heads else set()
        r5.check(bool(main_loop), "task-loop", "the mirror task has a loop (%d blocks)" % len(main_loop), "the mirror task has no loop")
        awaits = []
        for c in st.calls():
            if c.block not in main_loop or len(c.args) != 2:
                continue
            if not any(o.kind == "call" and o.call.name == "core::future::get_context" for o in origins(st, c.args[1])):
                continue
            awaits.append(c)
        tuples = []
        for bi, blk in enumerate(st.blocks):
            for s_ in blk["stmts"]:
                if s_["k"] == "assign" and s_["rv"]["k"] == "agg" and s_["rv"]["agg"] == "tuple" and not s_["lhs"]["p"] and "futures" in st.varnames.get(s_["lhs"]["l"], []):
                    tuples.append((bi, s_["rv"]["ops"]))
        sws = [sw for sw in switches(st) if (sw.discr() or [""])[0] and re.search(r"__tokio_select_util::Out<", sw.discr()[0]) and not sw.discr()[0].startswith("core::task::poll::Poll<")]
        n_sel = 0
        for c in awaits:
            short = c.name.split("::{closure")[0].split("::")[-1] if "PollFn" not in c.name else "select!"
            if re.search(r"PollFn<.*> as core::future::future::Future>::poll$", c.name):
                cands = [(bi, ops) for bi, ops in tuples if st.dominates(bi, c.block)]
                if not cands:
                    r5.missing("the tuple of branch futures of the select! at %s" % c.where())
                    continue
                tb, tup = max(cands, key=lambda x: len([b_ for b_ in range(st.nblocks) if st.dominates(b_, x[0])]))
                n_sel += 1
                what = []
                exit_i = None
                for i, op in enumerate(tup):
                    names = sorted({o.call.name for o in origins(st, op) if o.kind == "call"})
                    what.append("+".join(x.split("::")[-1] if "Receiver" not in x else "Receiver::recv" for x in names))
                    for o in origins(st, op):
                        if o.kind == "call" and re.search(r"tokio::sync::mpsc::bounded::Receiver::recv$", o.call.name) and "disconnect_rx" in fields_of(st, o.call.args[0], taint=True):
                            exit_i = i
                key = "hears-exit:select#%d(%s)" % (n_sel, ",".join(what)[:60])
                if exit_i is None:
                    r5.check(False, key, "", "the select! of the mirror task's loop at %s has no branch waiting on the exit channel (disconnect_rx.recv()): while it waits there the task cannot be told to stop" % c.where(), c.where())
                    continue
                # the branch leaves the loop
                mine = [sw for sw in sws if st.dominates(c.block, sw.block) and sw.block in main_loop]
                mine = sorted(mine, key=lambda sw: len([b_ for b_ in range(st.nblocks) if st.dominates(b_, sw.block)]))
                sw = next((x for x in mine if not any(st.dominates(c2.block, x.block) and c2 is not c and st.dominates(c.block, c2.block) for c2 in awaits if "PollFn" in c2.name)), None)
                if sw is None:
                    r5.missing("the output switch of the select! at %s" % c.where())
                    continue
                tgt = dict((v, t) for v, t in sw.targets if isinstance(v, int)).get(exit_i)
                hd = [h_ for h_ in heads if natural_loop(st, h_) == main_loop][0]
                stays = tgt is None or hd in st.reach([tgt])
                r5.check(not stays, key, "the select! waits on the exit channel too, and that branch leaves the loop",
                         "the exit branch of the select! at %s goes round the loop again instead of leaving it: the task survives the server connection it mirrored" % c.where(), c.where())
            elif c.name.startswith("pgcat::server::Server::send::"):
                r5.ok("write-of-a-request", "Server::send is awaited on its own (a request is written whole or the connection is marked bad - R2; what bounds it is the socket, not the mirror's availability)")
            else:
                r5.check(False, "hears-exit:" + short, "", "the mirror task's loop awaits %s at %s outside any select! on the exit channel: while the mirror is down (every checkout fails) or says nothing the loop never reads the exit signal its "
                         "server connection sends when it is dropped - each closed server connection leaves a task behind that goes on dialling the mirror, without bound" % (short, c.where()), c.where())
        r5.check(n_sel >= 1, "selects-found", "%d select!(s) among the %d waits of the mirror task's loop" % (n_sel, len(awaits)), "no select! found in the mirror task's loop")
    # ---------------- R4
    r4 = ctx.rule("C20-R4", "a mirror is attached to the server whose index it names, and a server's manager is built from its own address.mirrors only", floor=3)
    fc = ctx.body(FROM_CONFIG, r4)
    if fc:
        fsw = switches(fc)
        eqE = set()
        for sw in fsw:
            if not sw.is_bool():
                continue
            for o in sw.origins():
                if o.kind == "bin" and o.what in ("Ne", "Eq"):
                    fl = fields_of(fc, o.extra["a"], taint=True) | fields_of(fc, o.extra["b"], taint=True)
                    cs = {oo.call.name.split("::")[-1] for side in ("a", "b") for oo in origins(fc, o.extra[side], taint=True) if oo.kind == "call"}
                    if "mirroring_target_index" in fl and "next" in cs:
                        te, fe = sw.bool_edges()
                        if o.neg:
                            te, fe = fe, te
                        eqE.add(te if o.what == "Eq" else fe)
        pushes = []
        for c in fc.calls("re:^alloc::vec::Vec::push$"):
            for o in origins(fc, c.args[1]):
                if o.kind == "agg" and str(o.what).endswith("config::Address") and "mirrors" in (o.extra.get("fields") or []):
                    hostf = fields_of(fc, o.extra["ops"][o.extra["fields"].index("host")], taint=True)
                    if "mirrors" in fields_of(fc, o.extra["ops"][o.extra["fields"].index("host")], taint=True) or "host" in hostf:
                        v_ = set()
                        origins(fc, c.args[0], visited=v_)
                        if any("mirror_addresses" in fc.varnames.get(l, []) for l in v_):
                            pushes.append(c)
        if not eqE or not pushes:
            r4.fail("index-guard", "from_config no longer compares mirroring_target_index with the server's index before attaching a mirror (eq edges %d, pushes %d)" % (len(eqE), len(pushes)))
        else:
            heads = loop_headers(fc)
            okp = True
            for c in pushes:
                inner = sorted((len(natural_loop(fc, hd)), hd) for hd in heads if c.block in natural_loop(fc, hd))
                start = inner[0][1] if inner else 0
                if fc.uncrossed_path([start], [c.block], edges=eqE) is not None:
                    okp = False
            r4.check(okp, "index-guard", "a mirror address is pushed only over mirroring_target_index == address_index", "a mirror can be attached to a server with a different index")
        # mirror_addresses goes into that server's Address.mirrors
        okm = False
        for b_, blk, st2 in F.aggregates("pgcat::config::Address"):
            if b_ is fc:
                v_ = set()
                origins(fc, st2["rv"]["ops"][st2["rv"]["fields"].index("mirrors")], visited=v_)
                if any("mirror_addresses" in fc.varnames.get(l, []) for l in v_):
                    okm = True
        r4.check(okm, "attached-to-address", "the collected mirrors become Address.mirrors of that server", "mirror_addresses is not stored in the server's Address")
        # ... and nothing else does: the list attached to a server is computed from this pool's own configuration in this iteration of the
        # pools loop; a collection that outlives the iteration would hand one pool's mirrors to another pool
        heads = loop_headers(fc)
        defs_of = {}
        for blk, i, st2 in fc.assigns():
            if not st2["lhs"]["p"]:
                defs_of.setdefault(st2["lhs"]["l"], []).append(blk)
        carried = []
        n_addr = 0
        for b_, blk, st2 in F.aggregates("pgcat::config::Address"):
            if b_ is not fc:
                continue
            loops_in = sorted((len(natural_loop(fc, hd)), hd) for hd in heads if blk in natural_loop(fc, hd))
            if not loops_in:
                continue
            pool_loop = natural_loop(fc, loops_in[-1][1])
            n_addr += 1
            v_ = set()
            origins(fc, st2["rv"]["ops"][st2["rv"]["fields"].index("mirrors")], visited=v_, taint=True)
            for l in sorted(v_):
                nm = fc.varnames.get(l)
                if nm and defs_of.get(l) and all(d_ not in pool_loop for d_ in defs_of[l]) and l > len([x for x in fc.var_places if x[2]]):
                    carried.append(nm[0])
        r4.check(n_addr >= 1 and not carried, "mirrors-from-this-pool-only", "Address.mirrors is computed inside the pools loop from that iteration's values only (%d Address constructions)" % n_addr,
                 "Address.mirrors depends on %s, which lives across iterations of the pools loop: the second pool processed inherits the first pool's mirrors for the shard/server indexes they share "
                 "(its traffic is copied to the other pool's mirror)" % sorted(set(carried)))
    su = ctx.body(STARTUP, r4)
    if su:
        fa = su.calls(MM + "from_addresses")
        ok = bool(fa) and "mirrors" in fields_of(su, fa[0].args[2], taint=True) and "address" in "".join(sorted(fields_of(su, fa[0].args[2], taint=True) | {su.local_name(l) for l in [0]})) or (bool(fa) and "mirrors" in fields_of(su, fa[0].args[2], taint=True))
        r4.check(ok, "manager-from-own-address", "Server::startup builds the manager from address.mirrors", "the mirroring manager is not built from the server's own address.mirrors")
    # ... at every moment: which mirrors a server's traffic is copied to is part of the pool's definition - a reload that changes only a shard's mirrors (another
    # target index, a mirror removed) rebuilds the pool, or every old and new connection keeps copying by the old mapping (clauses of C14-R3, shared)
    from common import definition_identity_findings
    for key_, ok_, okm_, fm_ in definition_identity_findings(F):
        if key_ in ("Hash:Shard", "Hash:MirrorServerConfig", "hash_value:as-is", "Hash:Pool"):
            r4.check(ok_, "mirrors-part-of-the-definition:" + key_, okm_, fm_ + " - a mirror re-targeted or removed in the file goes on receiving the traffic of the server it used to mirror")

"""C07 — broken replicas are banned and bypassed; service continues on healthy servers."""
from mirlib import *

GETC = "pgcat::pool::ConnectionPool::get::{closure#0}"
BAN = "pgcat::pool::ConnectionPool::ban"
UNBAN = "pgcat::pool::ConnectionPool::unban"
TRY_UNBAN = "pgcat::pool::ConnectionPool::try_unban"
TRY_UNBANC = TRY_UNBAN + "::{closure#0}"
IS_BANNED = "pgcat::pool::ConnectionPool::is_banned"
RHC = "pgcat::pool::ConnectionPool::run_health_check"
RHCC = RHC + "::{closure#0}"
MARK_BAD = "pgcat::server::Server::mark_bad"
HM = "re:^std::collections::hash::map::HashMap::"
FROM_CONFIG = "pgcat::pool::ConnectionPool::from_config::{closure#0}"


def fields_of(body, op, taint=False):
    return {p[1:] for o in origins(body, op, taint=taint) if o.kind in ("place", "param") for p in o.proj if p.startswith(".") and not p[1:].isdigit()}


def banlist_calls(F):
    out = []
    for c in F.all_calls(HM, "re:^alloc::vec::Vec::.*(clear|push|remove|truncate)$"):
        if c.args and "banlist" in fields_of(c.body, c.args[0]):
            out.append(c)
    return out


def run(ctx):
    F = ctx.facts
    ctx.explanation = ("who-may-write on the ban list, value-edge path rules in ConnectionPool::get / run_health_check / try_unban / the client's send/receive helpers "
                       "(failure => ban + next candidate; banned => no checkout unless try_unban()==true; refusal only when candidates are exhausted), and provenance of every timeout bounding a server wait")
    ctx.assumptions = ["detection latency, fault sequences and the order produced by shuffle/sort are not decided", "bb8 bounds connection establishment by connection_timeout (library contract; C04/C15 check the configuration)"]
    bl = banlist_calls(F)
    ctx.evaluations += len(bl)
    # ---------------- R1 the primary is never banned
    r1 = ctx.rule("C07-R1", "the ban list is inserted into only by ConnectionPool::ban, and never for an address whose role is Primary", floor=3)
    ins = [c for c in bl if c.name.endswith("::insert") or c.name.endswith("::entry")]
    r1.check(bool(ins) and {c.body.name for c in ins} == {BAN}, "insert-sites", "ban-list inserts happen only in ConnectionPool::ban", "ban-list insert sites: %s" % sorted({c.body.name for c in ins}))
    bn = ctx.body(BAN, r1)
    if bn and ins:
        sws = switches(bn)
        eqs = [c for c in bn.calls("<pgcat::config::Role as core::cmp::PartialEq>::eq") if "role" in fields_of(bn, c.args[0]) | fields_of(bn, c.args[1])]
        prim = [c for c in eqs if any(o.kind == "agg" and o.extra.get("variant") == "Primary" for a in c.args for o in origins(bn, a))]
        if not prim:
            r1.fail("primary-guard", "ConnectionPool::ban no longer compares address.role with Role::Primary: a failing primary would be banned and the shard left without a writer")
        else:
            T, Fa, _ = (set(), set(), None)
            for sw, o, te, fe in bool_value_edges(bn, lambda o: o.kind == "call" and o.call.block == prim[0].block, sws):
                T.add(te)
                Fa.add(fe)
            for c in ins:
                if c.body is bn:
                    wit = bn.uncrossed_path([0], [c.block], edges=Fa)
                    r1.check(bool(Fa) and wit is None, "insert-only-for-non-primary", "the insert is reached only over role != Primary", "the ban-list insert can be reached for a primary", c.where(), wit and bn.describe_path(wit))
            # inserted key is the address parameter, at its own shard slot
            c = [c for c in ins if c.body is bn][0]
            kp = {o.what for o in origins(bn, c.args[1], taint=True) if o.kind == "param"}
            r1.check(2 in kp, "insert-key", "the banned key is the address passed to ban()", "ban() inserts a different address than the one it was given")
    # a (re-)ban takes effect from now: the entry is overwritten with the current time. Expiry is lazy (an entry is only removed when a
    # checkout reaches that candidate), so the list can hold an expired entry nobody has looked at - keeping it would un-ban a replica that has just failed
    if bn:
        plain = [c for c in bl if c.body is bn and c.name.endswith("::insert")]
        now_ok = any(any(o.kind == "call" and re.search(r"(Utc|Local)::now$|naive_utc$|Instant::now$|SystemTime::now$", o.call.name) for o in origins(bn, c.args[2] if len(c.args) > 2 else c.args[-1], taint=True)) for c in plain)
        keep = [c for c in bn.calls("re:Entry.*::(or_insert|or_insert_with|or_default)$", "re:HashMap::.*(try_insert|contains_key)$")]
        r1.check(bool(plain) and now_ok and not keep, "ban-refreshes-entry", "ban() overwrites the entry with the current time",
                 "ban() keeps an existing entry (%s) instead of overwriting it with the current time: a stale, already expired entry survives a new failure, the next checkout that reaches the replica sees the old timestamp, "
                 "un-bans it and hands it to clients although it has just failed" % (sorted({c.name.split("::")[-1] for c in keep}) or "no plain insert"), (keep or plain or [None])[0].where() if (keep or plain) else "")
    # ... but not over the administrator's word: `BAN host seconds` holds for the given duration. A client that held the replica when it was banned may still fail on it
    # (the replica is stopped for the maintenance it was banned for): that failure's ban() finds a running AdminBan entry and leaves it - an overwritten entry would run
    # out after ban_time (D89). An AdminBan itself always replaces what is there (D88).
    if bn:
        plain_blocks = [c.block for c in bl if c.body is bn and c.name.endswith("::insert")]
        rets = [bb for bb, blk in enumerate(bn.blocks) if blk["term"]["k"] == "return"]
        entry_sw, param_sw = [], []
        for sw in switches(bn):
            d = sw.discr()
            if not d or not d[0].startswith("pgcat::pool::BanReason") or "AdminBan" not in d[2]:
                continue
            if "@Some" in place_str(d[1]):   # the scrutinee is inside an Option handed out by the list (`.get(address)`)
                entry_sw.append((sw, d))
            elif not d[1]["p"] or all(p_ == "*" for p_ in d[1]["p"]):
                param_sw.append((sw, d))
        keeps = [(sw, d) for sw, d in entry_sw if plain_blocks and bn.uncrossed_path([d[2]["AdminBan"]], rets, blocks=plain_blocks) is not None]
        r1.check(bool(keeps), "failure-keeps-a-running-admin-ban", "ban() looks at the entry it would replace: over `existing entry is an AdminBan` there is a way out that leaves it (%d test(s))" % len(entry_sw),
                 "ban() inserts its entry whatever the list holds: the failure of a client that still held the replica when the administrator banned it (`BAN host 3600`, then the replica is stopped) replaces AdminBan(3600) "
                 "with a failure entry - the ban runs out after ban_time, not after the administrator's duration", bn.blocks and ("bb%d of %s" % (plain_blocks[0], bn.name)) if plain_blocks else "")
        if keeps:
            # the way out is for failures only: an AdminBan given to ban() reaches the insert on every path (and the duration is compared, not just the variant)
            # (`matches!(reason, AdminBan(_))` lowers to a variant switch whose arms assign a constant that a second switch reads: the AdminBan arm is followed
            # through the edge of its own constant)
            def arm_continuation(sw, d):
                a = d[2]["AdminBan"]
                val = None
                cur = a
                for _ in range(4):      # the arm's own straight-line blocks (a falseedge block comes first)
                    for st_ in bn.blocks[cur]["stmts"]:
                        if st_["k"] == "assign" and st_["rv"]["k"] == "use" and const_int(st_["rv"]["op"]) in (0, 1):
                            val = const_int(st_["rv"]["op"])
                    nx = [x for x in bn.succ("n")[cur]]
                    if val is not None or bn.blocks[cur]["term"]["k"] not in ("goto", "falseedge") or not nx:
                        break
                    cur = bn.blocks[cur]["term"]["target"]
                nxt = [s2 for s2 in switches(bn) if s2.is_bool() and s2.block != sw.block and bn.dominates(sw.block, s2.block) and s2.origins() and all(o.kind == "const" for o in s2.origins())]
                if val is None or not nxt:
                    return a
                s2 = min(nxt, key=lambda x: len([b_ for b_ in range(bn.nblocks) if bn.dominates(b_, x.block)]))
                te, fe = s2.bool_edges()
                return (te if val else fe)[1]
            admin_in = [arm_continuation(sw, d) for sw, d in param_sw if any(bn.dominates(sw.block, k[0].block) for k in keeps)]
            wit = bn.uncrossed_path(admin_in, rets, blocks=plain_blocks) if admin_in else [0]
            r1.check(bool(admin_in) and wit is None, "admin-ban-always-replaces", "an AdminBan given to ban() reaches the insert on every path (the keep exit lies behind `reason is not AdminBan`)",
                     "the exit of ban() that keeps an existing admin ban can also be taken by a new AdminBan: a second, longer BAN of the administrator would be ignored")
            cmpd = [sw for sw in switches(bn) if sw.is_bool() and any(o.kind == "bin" and o.what in ("Le", "Lt", "Gt", "Ge") for o in sw.origins()) and any(bn.dominates(k[1][2]["AdminBan"], sw.block) for k in keeps)]
            r1.check(bool(cmpd), "kept-only-while-it-lasts", "the existing admin ban is kept only while its duration has not run out (a comparison stands behind the variant test)",
                     "ban() keeps an AdminBan entry without looking at its age: an admin ban that has run out (entries are collected lazily) would swallow a new failure - the next checkout un-bans the replica that has just failed")
    # ---------------- R2 failures ban and fall through to the next candidate
    r2 = ctx.rule("C07-R2", "a failed checkout or health check bans the address and moves on to the next candidate; errors while talking to a server ban it (and a timed-out server is also marked bad)", floor=6)
    g = ctx.body(GETC, r2)
    if g:
        gsw = switches(g)
        heads = loop_headers(g)
        # candidate loop: the loop containing the bb8 get
        bget = g.calls("re:^bb8::api::Pool::get$")
        if not bget:
            r2.missing("bb8 Pool::get in ConnectionPool::get")
        else:
            cand_heads = sorted((len(natural_loop(g, hd)), hd) for hd in heads if bget[0].block in natural_loop(g, hd) and any(c.block in natural_loop(g, hd) for c in g.calls("re:^alloc::vec::Vec::pop$")))
            loop_head = cand_heads[-1][1] if cand_heads else None
            errE, okE, _ = discr_edges(g, r"core::result::Result<bb8::api::PooledConnection", "Err", origin_pred=lambda o: o.kind == "call" and o.call.block == bget[0].block, switches_cache=gsw)
            bans = [c.block for c in g.calls(BAN)]
            rets = [bb for bb, blk in enumerate(g.blocks) if blk["term"]["k"] == "return"]
            if not errE or loop_head is None:
                r2.missing("Err arm of the bb8 checkout / candidate loop")
            else:
                wit = g.uncrossed_path([d for _, d in errE], [loop_head] + rets, blocks=bans)
                r2.check(wit is None, "checkout-failed=>ban", "a failed bb8 checkout bans the address", "a failed bb8 checkout does not ban the address (clients keep hitting the dead replica)", "", wit and g.describe_path(wit))
                reach = g.reach([d for _, d in errE], avoid_blocks=[loop_head])
                r2.check(not [r_ for r_ in rets if r_ in reach], "checkout-failed=>next-candidate", "after a failed checkout the loop continues with the next candidate", "a failed checkout of one candidate makes get() return instead of trying the next one")
                # ban is for the candidate just tried
                bc = [c for c in g.calls(BAN) if c.block in reach]
                if bc:
                    v1, v2 = set(), set()
                    origins(g, bc[0].args[1], visited=v1)
                    pops = g.calls("re:^alloc::vec::Vec::pop$")
                    ok = any(o.kind == "call" and o.call.name.endswith("Vec::pop") for o in origins(g, bc[0].args[1], taint=True))
                    r2.check(ok, "ban-the-tried-candidate", "the banned address is the popped candidate", "the banned address is not the candidate that failed")
            T, Fa, _ = call_bool_edges(g, RHC, switches_cache=gsw)
            if not Fa or loop_head is None:
                r2.missing("branch on run_health_check() in get")
            else:
                reach = g.reach([d for _, d in Fa], avoid_blocks=[loop_head])
                r2.check(not [r_ for r_ in rets if r_ in reach], "healthcheck-failed=>next-candidate", "a failed health check moves on to the next candidate", "a failed health check makes get() return")
                # success paths return that connection
                reach_t = g.reach([d for _, d in T], avoid_blocks=[loop_head])
                r2.check(any(r_ in reach_t for r_ in rets), "healthcheck-ok=>return", "a passed health check returns the connection", "a passed health check does not return the connection")
    rh = ctx.body(RHCC, r2)
    if rh:
        # every path to `false` passes mark_bad and ban
        falses = [blk for blk, i, st in rh.assigns() if st["lhs"]["l"] == 0 and not st["lhs"]["p"] and st["rv"]["k"] == "use" and const_int(st["rv"]["op"]) == 0]
        mb = [c.block for c in rh.calls(MARK_BAD)]
        bn_ = [c.block for c in rh.calls(BAN)]
        r2.check(bool(falses) and all(rh.uncrossed_path([0], [f_], blocks=bn_) is None for f_ in falses), "healthcheck-false=>ban", "run_health_check returns false only after banning the address", "run_health_check can return false without banning")
        r2.check(bool(falses) and all(rh.uncrossed_path([0], [f_], blocks=mb) is None for f_ in falses), "healthcheck-false=>bad", "run_health_check returns false only after marking the connection bad", "run_health_check can return false without marking the connection bad (C02-R4)")
    for fn, kinds in (("pgcat::client::Client::send_server_message::{closure#0}", ["Err"]), ("pgcat::client::Client::receive_server_message::{closure#0}", ["Err"])):
        b = ctx.body(fn, r2)
        if not b:
            continue
        bn_ = [c.block for c in b.calls(BAN)]
        errs = [blk for blk, i, st in b.assigns() if st["rv"]["k"] == "agg" and st["rv"].get("variant") == "Err" and "result::Result" in st["rv"].get("adt", "") and st["lhs"]["l"] == 0]
        ok = bool(errs) and bool(bn_) and all(b.uncrossed_path([0], [e], blocks=bn_) is None for e in errs)
        r2.check(ok, "io-error=>ban:%s" % fn.split("::")[-2], "%s returns Err only after banning the address" % fn.split("::")[-2], "%s can fail without banning the server that failed" % fn.split("::")[-2])
        # ... whatever else happens on the way out: from the edge on which the server's failure is known (Err of the server I/O, the elapsed timeout)
        # every way to the end of the helper passes the ban - a `?` on telling the client (who may be gone: its own timeout is often the shorter one)
        # must not come first
        bsw_ = switches(b)
        io_pred = lambda o, b=b: o.kind == "call" and (re.search(r"^pgcat::server::Server::(send|recv)$", o.call.name) or o.call.name == "tokio::time::timeout::timeout")
        e_io, _o, _ = discr_edges(b, r"core::result::Result<", "Err", origin_pred=io_pred, switches_cache=bsw_)
        e_el, _o, _ = discr_edges(b, r"core::result::Result<.*Elapsed>", "Err", switches_cache=bsw_)
        rets_ = [bb for bb, blk in enumerate(b.blocks) if blk["term"]["k"] == "return"]
        fe_ = set(e_io) | set(e_el)
        wit = b.uncrossed_path([d for _, d in fe_], rets_, blocks=bn_) if fe_ else [0]
        r2.check(bool(fe_) and wit is None, "io-error=>ban-before-anything-fallible:%s" % fn.split("::")[-2], "%s: once the server's failure is known, every way out passes ConnectionPool::ban" % fn.split("::")[-2],
                 "%s can leave after a server failure without banning the server - e.g. when writing the error to the client fails first (`?`): a client that gave up before the pool's statement_timeout "
                 "takes the ban with it, the hung replica stays in rotation and the next clients are sent to it" % fn.split("::")[-2], "", wit and wit != [0] and b.describe_path(wit))
    # ---------------- R3 banned servers get no checkout
    r3 = ctx.rule("C07-R3", "a banned address is checked out only if try_unban() returned true, and is then health-checked unconditionally", floor=3)
    if g and bget:
        T_b, F_b, _ = call_bool_edges(g, IS_BANNED, switches_cache=gsw)
        T_u, F_u, _ = call_bool_edges(g, TRY_UNBAN, switches_cache=gsw)
        if not T_b or not T_u:
            r3.missing("is_banned / try_unban branches in get")
        else:
            wit = g.uncrossed_path([d for _, d in T_b], [bget[0].block], edges=T_u, blocks=[loop_head] if loop_head is not None else [])
            r3.check(wit is None, "banned=>try_unban", "from is_banned()==true the checkout is reached only over try_unban()==true", "a banned address can be checked out without a successful try_unban()", "", wit and g.describe_path(wit))
            # is_banned is consulted for every candidate
            wit = g.uncrossed_path([loop_head], [bget[0].block], blocks=[c.block for c in g.calls(IS_BANNED)]) if loop_head is not None else [0]
            r3.check(wit is None, "every-candidate-checked", "every candidate is tested with is_banned() before its checkout", "a candidate can be checked out without looking at the ban list")
            # force_healthcheck: on the unbanned path the no-healthcheck fast return is unreachable
            fh = [l for l in g.locals_named("force_healthcheck")]
            if fh:
                sets = [d_[1] for d_ in g.defs().get(fh[0], []) if d_[0] == "assign" and const_int(d_[3]["rv"].get("op")) == 1]
                r3.check(bool(sets) and all(any(g.dominates(e[1], s_) for e in T_u) for s_ in sets), "unban=>force-healthcheck", "a just-unbanned address forces a health check", "a just-unbanned address is not forced through the health check")
                rhc_calls = [c.block for c in g.calls(RHC)]
                # the fast path (return without health check) must read force_healthcheck
                okr = [(blk, st) for blk, i, st in g.assigns() if st["lhs"]["l"] == 0 and st["rv"]["k"] == "agg" and st["rv"].get("variant") == "Ok"]
                fast = [blk for blk, st in okr if g.uncrossed_path([bget[0].block], [blk], blocks=rhc_calls) is not None]
                okf = True
                for blk in fast:
                    deps = g.control_deps(blk, depth=2)
                    if not any(fh[0] in cond_locals(g, sb) for sb, t in deps):
                        okf = False
                r3.check(bool(fast) and okf, "fast-path-respects-force", "the return without health check is conditional on force_healthcheck", "the fast path ignores force_healthcheck")
    # ---------------- R4 refusal only when candidates are exhausted
    r4 = ctx.rule("C07-R4", "AllServersDown is returned only when the candidate list is empty", floor=1)
    if g:
        T_e, F_e, _ = call_bool_edges(g, "alloc::vec::Vec::is_empty", switches_cache=gsw)
        nonee, _, _ = discr_edges(g, r"core::option::Option<&pgcat::config::Address>", "None", switches_cache=gsw)
        alld = []
        for blk, i, st in g.assigns():
            if st["lhs"]["l"] == 0 and st["rv"]["k"] == "agg" and st["rv"].get("variant") == "Err":
                if any(o.kind == "agg" and o.extra.get("variant") == "AllServersDown" for o in origins(g, st["rv"]["ops"][0])):
                    alld.append(blk)
        if not alld or not T_e:
            r4.missing("AllServersDown return / is_empty test in get")
        else:
            wit = g.uncrossed_path([0], alld, edges=T_e | nonee)
            r4.check(wit is None, "exhausted-only", "AllServersDown is reached only over candidates.is_empty()==true (or pop()==None)", "get() can refuse the transaction while candidates remain", "", wit and g.describe_path(wit))
    # ---------------- R5 unban rules
    r5 = ctx.rule("C07-R5", "try_unban: the primary counts as usable, all replicas banned => all unbanned, expiry compares with ban_time or the admin-given duration; removals happen only in unban/try_unban", floor=5)
    rem = [c for c in bl if re.search(r"::(remove|clear|retain|drain)$", c.name)]
    r5.check({c.body.name for c in rem} <= {UNBAN, TRY_UNBANC} and {UNBAN, TRY_UNBANC} <= {c.body.name for c in rem}, "remove-sites", "ban-list removals happen only in unban() and try_unban()", "ban-list removal sites: %s" % sorted({c.body.name for c in rem}))
    tu = ctx.body(TRY_UNBANC, r5)
    if tu:
        tsw = switches(tu)
        clears = [c for c in rem if c.body is tu and c.name.endswith("::clear")]
        removes = [c for c in rem if c.body is tu and c.name.endswith("::remove")]
        # clear-all on len == replicas_available
        eqE = set()
        for sw in tsw:
            if not sw.is_bool():
                continue
            for o in sw.origins():
                if o.kind == "bin" and o.what == "Eq":
                    a_c = {oo.call.name.split("::")[-1] for oo in origins(tu, o.extra["a"], taint=True) if oo.kind == "call"}
                    b_c = {oo.call.name.split("::")[-1] for oo in origins(tu, o.extra["b"], taint=True) if oo.kind == "call"}
                    if ("len" in a_c and "count" in b_c) or ("len" in b_c and "count" in a_c):
                        te, fe = sw.bool_edges()
                        eqE.add(fe if o.neg else te)
        r5.check(bool(clears) and bool(eqE) and all(tu.uncrossed_path([0], [c.block], edges=eqE) is None for c in clears), "all-banned=>clear", "the ban list of the shard is cleared exactly when its size equals the number of replicas", "the unban-all rule is not tied to `banned == replicas of the shard`")
        # the count is over Role::Replica addresses of the same shard
        filt = [b for n, b in F.bodies.items() if n.startswith(TRY_UNBANC + "::{closure#")]
        okc = any(any(o.kind == "agg" and o.extra.get("variant") == "Replica" for c in fb.calls("<pgcat::config::Role as core::cmp::PartialEq>::eq") for a in c.args for o in origins(fb, a)) for fb in filt)
        r5.check(okc, "replica-count", "replicas_available counts addresses with role == Replica", "the replica count no longer filters on Role::Replica")
        # expiry comparison
        gts = []
        for sw in tsw:
            for o in sw.origins() if sw.is_bool() else []:
                if o.kind == "bin" and o.what in ("Gt", "Ge", "Lt", "Le"):
                    fl = fields_of(tu, o.extra["a"], taint=True) | fields_of(tu, o.extra["b"], taint=True)
                    gts.append((o.what, fl, {oo.call.name.split("::")[-1] for side in ("a", "b") for oo in origins(tu, o.extra[side], taint=True) if oo.kind == "call"}))
        r5.check(any("ban_time" in fl and "timestamp" in cs for op, fl, cs in gts), "expiry:ban_time", "expiry compares elapsed seconds with settings.ban_time", "no comparison of the ban age with settings.ban_time")
        r5.check(len([1 for op, fl, cs in gts if "timestamp" in cs]) >= 2, "expiry:admin-duration", "AdminBan bans expire after their own duration", "the admin-given ban duration is no longer compared")
        # primary => true
        eqs = [c for c in tu.calls("<pgcat::config::Role as core::cmp::PartialEq>::eq") if any(o.kind == "agg" and o.extra.get("variant") == "Primary" for a in c.args for o in origins(tu, a))]
        r5.check(bool(eqs), "primary-usable", "try_unban treats a primary as usable", "try_unban no longer special-cases the primary")
    ub = ctx.body(UNBAN, r5)
    if ub:
        c = [c for c in rem if c.body is ub]
        r5.check(bool(c) and 2 in {o.what for o in origins(ub, c[0].args[1], taint=True) if o.kind == "param"}, "unban-key", "unban() removes the address it was given", "unban() removes a different key")
    # admin BAN / UNBAN <host> act on every server of that host: get_addresses_from_host, the only resolver behind both commands, collects every match of every
    # shard - no first-match adaptor (find / find_map / position / take / nth / next outside a loop) stands between the address table and the result
    gah = F.body("pgcat::pool::ConnectionPool::get_addresses_from_host")
    gah_all = [gah] + [b_ for n_, b_ in F.bodies.items() if n_.startswith("pgcat::pool::ConnectionPool::get_addresses_from_host::")] if gah else []
    if not gah_all:
        r5.missing("ConnectionPool::get_addresses_from_host")
    else:
        FIRST = "re:(^|::)Iterator::(find|find_map|position|rposition|take|take_while|skip|skip_while|step_by|nth|last|min|max|min_by_key|max_by_key)$|slice::<impl \\[T\\]>::(first|last|get)$"
        cut = [c for b_ in gah_all for c in b_.calls(FIRST)]
        callers_ = sorted({c.body.name for c in F.all_calls("pgcat::pool::ConnectionPool::get_addresses_from_host")})
        r5.check(not cut, "admin-ban-reaches-every-server-of-the-host", "get_addresses_from_host (callers: %s) collects every address of the host" % [x.split("::")[-2] for x in callers_],
                 "get_addresses_from_host cuts its search short with %s: admin BAN / UNBAN <host> reach only the first server of that host in a shard - `UNBAN host` is accepted and the repaired replica stays banned for the whole ban_time "
                 "when it is not the host's first entry, `BAN host` leaves the other replicas of the host in rotation" % sorted({c.name.split("::")[-1] for c in cut}), cut[0].where() if cut else "")
    # ... and BAN <host> <seconds> is the administrator's word on every one of them: the ban call of admin::ban does not depend on what the list says already. A replica
    # that is on the list for a failure (or an earlier, shorter BAN) is banned again with the given duration - or it is back in service after ban_time (D88)
    ab = F.body("pgcat::admin::ban::{closure#0}")
    if ab is None:
        r5.missing("admin::ban")
    else:
        bc = [c for c in ab.calls("pgcat::pool::ConnectionPool::ban") if any(o.kind == "agg" and str(o.extra.get("variant", "")) == "AdminBan" for o in origins(ab, c.args[2], taint=True))]
        if not bc:
            r5.missing("pool.ban(.., BanReason::AdminBan(..)) in admin::ban")
        else:
            Tb, Fb, sites_b = call_bool_edges(ab, "pgcat::pool::ConnectionPool::is_banned", switches_cache=switches(ab))
            gated = [c for c in bc if (Tb | Fb) and ab.uncrossed_path([0], [c.block], edges=Tb | Fb) is None]
            r5.check(not gated, "admin-ban-whatever-the-list-says", "admin BAN bans every address of the host, banned already or not (%d ban call(s), %d is_banned test(s))" % (len(bc), len(sites_b)),
                     "admin BAN skips an address that is_banned(): a replica on the list for a failed health check keeps that entry - `BAN host 3600` is answered with no row, and the replica is back in service "
                     "after ban_time instead of the administrator's duration", gated[0].where() if gated else "")
    # ---------------- R6 server waits are bounded
    r6 = ctx.rule("C07-R6", "the health check and every reply awaited for a client are under a timeout taken from the configuration", floor=2)
    if rh:
        tcs = rh.calls("re:^tokio::time::timeout::timeout$")
        ok = bool(tcs) and "healthcheck_timeout" in fields_of(rh, tcs[0].args[0], taint=True) and any(o.kind == "call" and o.call.name == "pgcat::server::Server::query" for o in origins(rh, tcs[0].args[1]))
        r6.check(ok, "healthcheck-timeout", "the health-check query runs under timeout(settings.healthcheck_timeout)", "the health check is not bounded by healthcheck_timeout")
        # ... and by nothing else: a healthy candidate gets the whole allowance, whatever time earlier candidates of the same checkout took
        # (round 6: `healthcheck_timeout - start.elapsed()` gave the candidate after a dead one a timeout of 0 and banned it)
        if tcs:
            os6 = origins(rh, tcs[0].args[0], taint=True)
            other = sorted({o.call.name.split("::")[-1] for o in os6 if o.kind == "call" and not re.search(r"Duration::from_(millis|secs|micros)$", o.call.name)})
            arith = sorted({o.what for o in os6 if o.kind == "bin"})
            pars = sorted({o.what for o in os6 if o.kind == "param" and o.what != 1})
            r6.check(not other and not arith and not pars, "healthcheck-timeout-is-the-configured-one", "the health check's allowance is Duration::from_millis(settings.healthcheck_timeout), nothing subtracted from it",
                     "the health check's allowance also depends on %s: a healthy replica tried after a slow or dead one can be given no time at all, fail its check and be banned - the transaction is refused although a usable server exists" % (other + arith + ["parameter %d" % p_ for p_ in pars]), tcs[0].where())
    rs = ctx.body("pgcat::client::Client::receive_server_message::{closure#0}", r6)
    if rs:
        tcs = rs.calls("re:^tokio::time::timeout::timeout$")
        ok = bool(tcs) and "statement_timeout" in fields_of(rs, tcs[0].args[0], taint=True) and any(o.kind == "call" and o.call.name == "pgcat::server::Server::recv" for o in origins(rs, tcs[0].args[1]))
        r6.check(ok, "statement-timeout", "server replies are awaited under timeout(user.statement_timeout) (0 = unlimited, by configuration)", "receive_server_message no longer bounds Server::recv with statement_timeout")
        # all recv calls on the client path go through receive_server_message
        direct = sorted({c.body.name for c in F.all_calls("pgcat::server::Server::recv") if c.body.name.startswith("pgcat::client::") and "receive_server_message" not in c.body.name})
        r6.check(not direct, "client-recv-only-via-helper", "the client path receives from servers only through receive_server_message", "un-timed Server::recv on the client path in %s" % direct)
    # `a dead or hung server is detected within the configured ... timeouts rather than blocking clients indefinitely`: besides the client's own statements,
    # pgcat talks to the server a client holds on its own behalf - sync_parameters right after the checkout, checkin_cleanup at the end, Parse / Close for
    # the statement cache. Each such await on the client path has to be the future of a timeout, like the replies the client waits for (D68: none is)
    OWN = ("pgcat::server::Server::sync_parameters", "pgcat::server::Server::checkin_cleanup", "pgcat::server::Server::register_prepared_statement", "pgcat::server::Server::close_evicted_prepared_statements")
    n_own = 0
    by_callee = {}
    for c in F.all_calls(*OWN):
        if not c.body.name.startswith("pgcat::client::"):
            continue
        n_own += 1
        b_ = c.body
        timed = any(any(o.kind == "call" and o.call.block == c.block for o in origins(b_, t.args[1], taint=True)) for t in b_.calls("re:^tokio::time::timeout::timeout$") if len(t.args) > 1)
        by_callee.setdefault(c.name.split("::")[-1], []).append(timed)
    r6.check(n_own >= 5, "own-request-sites", "%d awaits of pgcat's own server requests on the client path" % n_own, "only %d own-request sites found on the client path (7 known)" % n_own)
    for callee, timed_l in sorted(by_callee.items()):
        r6.check(all(timed_l), "own-request-deadline:" + callee, "every %s(..) on the client path runs under a timeout" % callee,
                 "%s(..) is awaited on the client path without a deadline (%d of %d site(s)): a server that hangs while pgcat talks to it on its own behalf is never detected - the client waits for ever although "
                 "statement_timeout is configured, the connection stays checked out, the server is not banned" % (callee, len([t for t in timed_l if not t]), len(timed_l)))
    fc = F.body(FROM_CONFIG)
    if fc:
        ct = fc.calls("re:^bb8::api::Builder::connection_timeout$")
        r6.check(bool(ct) and "connect_timeout" in fields_of(fc, ct[0].args[1], taint=True), "connect-timeout", "server connects are bounded by connect_timeout (bb8 connection_timeout)", "bb8 connection_timeout no longer derives from connect_timeout")
        # `within the configured timeouts`: the value in force for a user is the user's own where he has one (then the pool's, then the general one)
        from common import user_override_precedence_findings
        for n_, ok_, det_ in user_override_precedence_findings(F) or []:
            if n_ == "connect_timeout":
                if ok_ is None:
                    r6.missing("the decision between User.connect_timeout and Pool.connect_timeout in from_config")
                else:
                    r6.check(ok_, "connect-timeout:users-own-first", "the connect timeout a user's servers are given is the user's own where set (%s)" % det_,
                             "in from_config %s: a user's connect_timeout is overruled by the pool's - a dead or hung replica is given up (and banned) after the pool's timeout, not the one configured for that user" % det_)

"""C19 — plugin verdicts are enforced before anything reaches a server."""
from mirlib import *
import os

H = "pgcat::client::Client::handle::{closure#0}"
EXEC = "pgcat::query_router::QueryRouter::execute_plugins"
EXECC = EXEC + "::{closure#0}"
TEC = "pgcat::query_router::QueryRouter::try_execute_command"
TA_RUN = "<pgcat::plugins::table_access::TableAccess<'a> as pgcat::plugins::Plugin>::run::{closure#0}"
IC_RUN = "<pgcat::plugins::intercept::Intercept<'a> as pgcat::plugins::Plugin>::run::{closure#0}"
SENDS = ("pgcat::client::Client::send_and_receive_loop", "pgcat::server::Server::send", "pgcat::client::Client::send_server_message",
         "pgcat::client::Client::ensure_prepared_statement_is_on_server", "pgcat::client::Client::register_parse_to_server_cache")
GET = "pgcat::pool::ConnectionPool::get"


def captured_names(cb, call):
    """names of the fields / captured places (edition-2021 disjoint captures are closure fields `.N` with a debug name like `__self__tables`)
    that the arguments of a call derive from"""
    names = set()
    for a in call.args:
        for o in origins(cb, a, taint=True):
            if o.kind in ("place", "param"):
                names.update(p_[1:] for p_ in o.proj if p_.startswith(".") and not p_[1:].isdigit())
                for nm_, pl, _arg in cb.var_places:
                    if pl["l"] == o.what and pl["p"] and tuple(o.proj[:len(pl["p"])]) == tuple(pl["p"]):
                        names.add(nm_)
    return names


def run(ctx):
    F = ctx.facts
    ctx.explanation = ("path-avoid rules over Client::handle's CFG from every Deny/Intercept edge to every server send, def-use/control-dependence of the pending verdict variable, "
                       "control dependence of the plugin dispatch on client-settable router state, field coverage of the relation-name comparison, plugin order/disabled behaviour")
    ctx.assumptions = ["sqlparser's visit_relations reaches every relation of a parsed statement (trusted library)", "statements the parser rejects are excluded by the property",
                       "identifier resolution rule: last name part, folded to lower case unless quoted"]
    h = ctx.body(H)
    if h is None:
        ctx.rule("C19-R1", "anchor", floor=1).missing("body " + H)
        return
    hsw = switches(h)
    # the two message loops of handle (idle loop and transaction loop): loops that read a client message.
    # (await poll loops and the `while let` over the buffered batch are ordinary blocks of an iteration)
    rm_blocks = [c.block for c in h.calls("pgcat::messages::read_message")]
    heads = [hd for hd in loop_headers(h) if any(b_ in natural_loop(h, hd) for b_ in rm_blocks)]
    ctx.evaluations += h.nblocks
    send_blocks = {c.block for c in h.calls(*SENDS)}
    get_blocks = {c.block for c in h.calls(GET)}
    plug_locals = h.locals_named("plugin_output")

    # ---------------- R1
    r1 = ctx.rule("C19-R1", "a Deny / Intercept verdict stops the message: from every Deny/Intercept edge no server send is reachable within that loop iteration; a pending Deny never reaches the checkout", floor=6)
    exec_calls = h.calls(EXEC)
    r1.check(len(exec_calls) >= 4, "dispatch-sites", "%d execute_plugins call sites in handle (Q and P arms of both loops)" % len(exec_calls), "expected >=4 execute_plugins call sites, found %d" % len(exec_calls))
    k = 0
    for variant in ("Deny", "Intercept"):
        V, O, S = discr_edges(h, r"pgcat::plugins::PluginOutput$", variant, switches_cache=hsw)
        if not V:
            r1.missing("PluginOutput::%s arm in handle" % variant)
            continue
        for e in sorted(V):
            k += 1
            reach = h.reach([e[1]], avoid_blocks=heads)
            bad = sorted(b_ for b_ in send_blocks if b_ in reach)
            # is this a switch on the pending variable or on a fresh result?
            d = Switch(h, e[0]).discr()
            vis = set()
            origins(h, d[1], visited=vis)
            pending = bool(set(plug_locals) & vis)
            key = "%s-arm#%d(%s)" % (variant, sorted(V).index(e) + 1, "pending" if pending else "fresh")
            consuming = (not pending) or _consumes(h, e[1], plug_locals, heads)
            r1.check(not bad, key, "%s arm reaches no server send in its iteration" % variant,
                     "after a %s verdict the message can still reach a server send (%s)" % (variant, [h.call_at(b_).name.split("::")[-1] for b_ in bad]), "bb%d of handle" % e[0])
            if variant == "Deny":
                badg = sorted(b_ for b_ in get_blocks if b_ in reach)
                r1.check(not badg, key + ":no-checkout", "Deny arm reaches no checkout in its iteration", "a denied message still checks out a server")
            if not consuming:
                continue  # a mere look at the pending verdict (e.g. to keep it); nothing is consumed here
            # the client is answered
            answered = any(c.block in reach for c in h.calls("pgcat::messages::error_response", "pgcat::messages::write_all"))
            r1.check(answered, key + ":answered", "%s arm writes the verdict to the client" % variant, "%s arm does not answer the client" % variant)
    # every send in the Sync arm is behind the pending-verdict switch
    pend_sw = [sw for sw in hsw if sw.discr() and sw.discr()[0].endswith("pgcat::plugins::PluginOutput") and set(plug_locals) & _vis(h, sw.discr()[1])]
    claim = h.calls("pgcat::server::Server::claim")
    inner_pend = [sw for sw in pend_sw if claim and h.dominates(claim[0].block, sw.block)]
    r1.check(bool(inner_pend), "sync-arm-switch", "the Sync arm tests the pending verdict (%d switch(es))" % len(inner_pend), "the transaction loop no longer tests the pending plugin verdict at Sync")
    for sw in inner_pend:
        d = sw.discr()
        allow_edges = {(sw.block, t) for v, t in d[2].items() if v not in ("Deny", "Intercept")} | {(sw.block, d[3])}
        # sends dominated by this switch (the Sync arm's own sends)
        own = [b_ for b_ in send_blocks if h.dominates(sw.block, b_)]
        for b_ in own:
            V1, _, _ = discr_edges(h, r"pgcat::plugins::PluginOutput$", "Deny", switches_cache=[sw])
            V2, _, _ = discr_edges(h, r"pgcat::plugins::PluginOutput$", "Intercept", switches_cache=[sw])
            reach = h.reach([e[1] for e in V1 | V2], avoid_blocks=heads)
            r1.check(b_ not in reach, "sync-send@%s" % h.call_at(b_).name.split("::")[-1], "send in the Sync arm is unreachable from the Deny/Intercept arms", "a send in the Sync arm is reachable after a Deny/Intercept verdict")
    # Deny/Intercept arms on the pending verdict clear the buffered batch (helper methods are followed)
    for sw in pend_sw:
        d = sw.discr()
        for variant in ("Deny", "Intercept"):
            if variant not in d[2] or not _consumes(h, d[2][variant], plug_locals, heads):
                continue
            ev = _events(F, h, h.reach([d[2][variant]], avoid_blocks=heads))
            r1.check("clear-batch" in ev, "pending-%s-resets-buffers@%s" % (variant, "inner" if sw in inner_pend else "outer"), "pending %s clears the buffered batch" % variant, "pending %s does not clear the buffered batch (its messages would be sent with the next Sync)" % variant)

    # ---------------- R2 pending verdict not overwritten
    r2 = ctx.rule("C19-R2", "a pending Deny/Intercept verdict is never overwritten by the verdict of a later Parse of the same batch", floor=2)
    n = 0
    seen_defs = set()
    seen_where = set()
    for pl in plug_locals:
        for d_ in h.defs().get(pl, []):
            if d_[0] != "assign" or (d_[1], d_[2]) in seen_defs:
                continue
            seen_defs.add((d_[1], d_[2]))
            st = d_[3]
            src = {o.call.name for o in origins(h, st["rv"].get("op") or {}, taint=False) if o.kind == "call"} if st["rv"]["k"] == "use" else set()
            if st["rv"]["k"] == "agg":
                src = {o.call.name for op in st["rv"]["ops"] for o in origins(h, op) if o.kind == "call"}
            if EXEC not in src:
                continue
            where_ = "inner" if (claim and h.dominates(claim[0].block, d_[1])) else "outer"
            if st["span"] in seen_where:
                continue  # drop-and-assign of one source assignment yields two MIR statements
            seen_where.add(st["span"])
            n += 1
            where_ = "%s#%d" % (where_, sum(1 for x in seen_where))
            deps = h.control_deps(d_[1], depth=3)
            guarded = False
            for sb, t in deps:
                # the guard must read the variable itself (not the fresh result local)
                if set(plug_locals) & cond_locals(h, sb):
                    guarded = True
            # ... and the condition is the pending verdict's *kind*: no way leads from `pending is Deny` or `pending is Intercept` to the overwrite within this message.
            # (A verdict that stands or falls with what the later Parse is judged - `an Intercept yields to a later Allow` - lets the intercepted statement through.)
            hsw2 = switches(h)
            pend_edges = set()
            for variant in ("Deny", "Intercept"):
                vE, _o, _ = discr_edges(h, r"plugins::PluginOutput", variant, origin_pred=lambda o: (o.kind in ("place", "param") and o.what in plug_locals) or o.kind == "discr", switches_cache=hsw2)
                # only tests of the pending verdict itself
                vE = {e for e in vE if set(plug_locals) & cond_locals(h, e[0])}
                pend_edges |= {(variant, e) for e in vE}
            rm2 = [c.block for c in h.calls("pgcat::messages::read_message")]
            # the guard is `matches!(pending, Some(Deny(_)) | Some(Intercept(_)))` compiled into a bool: discriminant tests of the pending verdict assign a
            # temporary true / false, a later switch on that temporary leads to the overwrite. For each of Deny and Intercept: the value the temporary gets on
            # that variant's edge is not the value under which the overwrite is reached.
            hdefs2 = h.defs()
            reach_over = []
            kinds_seen = set()
            for sb, t in deps:
                sw0 = next((sw for sw in hsw2 if sw.block == sb and sw.is_bool()), None)
                if sw0 is None:
                    continue
                L = op_local(h.blocks[sb]["term"]["op"])
                defsL = [(dd[1], const_int(dd[3]["rv"].get("op"))) for dd in hdefs2.get(L, []) if dd[0] == "assign" and dd[3]["rv"]["k"] == "use" and const_int(dd[3]["rv"].get("op")) in (0, 1)]
                if not defsL:
                    continue
                te, fe = sw0.bool_edges()
                v_over = 1 if (te[1] == d_[1] or h.dominates(te[1], d_[1])) else (0 if (fe[1] == d_[1] or h.dominates(fe[1], d_[1])) else None)
                if v_over is None:
                    continue
                # the discriminant tests this temporary is computed from: those its assignments hang on
                own_tests = {sb2 for blk, cv in defsL for sb2, t2 in h.control_deps(blk, depth=2)}
                for variant in ("Deny", "Intercept"):
                    for v, e in pend_edges:
                        if v != variant or e[0] not in own_tests:
                            continue
                        got = {cv for blk, cv in defsL if blk in h.reach([e[1]], avoid_blocks=[sb] + rm2)}
                        if got:
                            kinds_seen.add(variant)
                        if v_over in got:
                            reach_over.append(variant)
            guarded_by_kind = guarded and {"Deny", "Intercept"} <= kinds_seen and not reach_over
            r2.check(guarded_by_kind, "overwrite-only-when-nothing-stands@%s" % where_, "the overwrite is unreachable from `pending is Deny` and from `pending is Intercept`",
                     "the fresh verdict can replace a pending %s (the guard is not a test of the pending verdict's kind alone): in `Parse(intercepted) .. Parse(allowed) .. Sync` the later Allow wins, the whole batch - "
                     "the intercepted statement included - is forwarded and executed" % (sorted(set(reach_over)) or "Deny / Intercept - no direct test of its kind found"), st["span"])
            r2.check(guarded, "overwrite@%s-loop" % where_, "assignment of a fresh verdict is conditional on the pending one",
                     "plugin_output is overwritten unconditionally with the verdict of the latest Parse: in a batch `Parse(denied) Parse(allowed) Bind Execute Sync` the denied statement is forwarded", st["span"])
    if n == 0:
        r2.missing("assignment plugin_output = Some(execute_plugins result)")

    # ---------------- R3 enforcement not client-switchable
    r3 = ctx.rule("C19-R3", "the conditions guarding the plugin dispatch do not depend on router state that the client's own SET commands can change", floor=1)
    tec = ctx.body(TEC, r3)
    if tec:
        settable = set()
        for blk, i, st in tec.assigns():
            fs = proj_fields(st["lhs"])
            if fs and st["lhs"]["l"] == 1:
                settable.add(fs[-1])
        guards = {}
        gate_fns = set()
        for c in exec_calls:
            for sb, t in h.control_deps(c.block, depth=2):
                for o in origins(h, h.blocks[sb]["term"]["op"]):
                    if o.kind == "call" and o.call.name.startswith("pgcat::query_router::QueryRouter::"):
                        gate_fns.add(o.call.name)
        # a gate function may read client-settable state as long as the client cannot force it to false:
        # from every outcome of every test that depends on settable fields, `return true` must stay reachable
        def forced_false(fn, seen=()):
            """[] if `fn` returns true on a path whose tests read only non-settable state and include `plugins` being
            configured (so no client command can switch the dispatch off while plugins exist); else the settable fields it hinges on"""
            fb = F.body(fn)
            if fb is None:
                return [(fn, ["?"])]
            trues = [blk for blk, i, st in fb.assigns() if st["lhs"]["l"] == 0 and not st["lhs"]["p"] and st["rv"]["k"] == "use" and const_int(st["rv"]["op"]) == 1]
            settable_sw, plugin_sw, hinge = set(), set(), set()
            for sw in switches(fb):
                flds = set()
                for o in sw.origins():
                    if o.kind in ("place", "param"):
                        flds |= {p[1:] for p in o.proj if p.startswith(".")}
                    if o.kind == "discr":
                        for oo in origins(fb, o.extra["pl"]):
                            if oo.kind in ("place", "param"):
                                flds |= {p[1:] for p in oo.proj if p.startswith(".")}
                    if o.kind == "call":
                        for a_ in o.call.args:
                            for oo in origins(fb, a_):
                                if oo.kind in ("place", "param"):
                                    flds |= {p[1:] for p in oo.proj if p.startswith(".")}
                        cb = F.body(o.call.name)
                        if cb and o.call.name.startswith("pgcat::query_router::QueryRouter::"):
                            flds |= fields_read(cb)
                # `pool_settings.query_parser_enabled` (configuration) is not the session override `self.query_parser_enabled`
                cfg_only = "pool_settings" in flds
                if (flds & settable) and not cfg_only:
                    settable_sw.add(sw.block)
                    hinge |= flds & settable
                if "plugins" in flds:
                    plugin_sw.add(sw.block)
            par = fb.reach([0], avoid_blocks=settable_sw, want_parents=True)
            for t_ in trues:
                if t_ in par and set(fb.path(par, t_)) & plugin_sw:
                    return []
            if not hinge:
                # no explicit test here: the value is delegated / read directly
                for blk, i, st in fb.assigns():
                    if st["lhs"]["l"] == 0 and st["rv"]["k"] == "use":
                        for o in origins(fb, st["rv"]["op"]):
                            if o.kind in ("place", "param"):
                                hinge |= {p[1:] for p in o.proj if p.startswith(".")} & settable
                for c2 in fb.calls("re:^pgcat::query_router::QueryRouter::"):
                    if c2.dest["l"] == 0:
                        hinge |= {f for _, fl in forced_false(c2.name, seen + (fn,)) for f in fl} if c2.name not in seen else set()
            return [(fn, sorted(hinge))] if hinge else []
        for gfn in sorted(gate_fns):
            for fn, flds_ in forced_false(gfn):
                for f in flds_:
                    guards.setdefault((gfn.split("::")[-1], f), []).append(exec_calls[0])
        # plugins configured (the pool's own or the general ones it inherits) => statements are parsed and the plugins run, whatever else the pool
        # says: the general [plugins] section is inherited by pools whose query parser is off, and Pool::validate only looks at a pool's own section (D46)
        for gfn in sorted(gate_fns):
            gb = F.body(gfn)
            if gb is None:
                continue
            trues_ = [blk for blk, i, st in gb.assigns() if st["lhs"]["l"] == 0 and not st["lhs"]["p"] and st["rv"]["k"] == "use" and const_int(st["rv"]["op"]) == 1]
            plug_sw, other_sw = set(), {}
            for sw in switches(gb):
                flds = set()
                for o in origins(gb, gb.blocks[sw.block]["term"]["op"], taint=True):
                    if o.kind in ("place", "param"):
                        flds |= {p_[1:] for p_ in o.proj if p_.startswith(".") and not p_[1:].isdigit()}
                flds -= {"pool_settings"}
                if flds == {"plugins"}:
                    plug_sw.add(sw.block)
                elif flds:
                    other_sw[sw.block] = sorted(flds)
            par_ = gb.reach([0], avoid_blocks=list(other_sw), want_parents=True)
            ok_ = any(t_ in par_ and set(gb.path(par_, t_)) & plug_sw for t_ in trues_)
            r3.check(ok_, "plugins-configured=>dispatch:" + gfn.split("::")[-1], "%s() answers true as soon as the pool has plugins, without asking anything else" % gfn.split("::")[-1],
                     "%s() answers true for a pool with plugins only if %s also holds: a pool that inherits the general [plugins] section with its query parser off passes Config::validate and never runs table_access / intercept - every statement is forwarded" % (gfn.split("::")[-1], sorted(set(sum(other_sw.values(), [])))))
        r3.check(bool(gate_fns), "gate-functions", "plugin dispatch is guarded by %s" % sorted(x.split("::")[-1] for x in gate_fns), "cannot resolve the guard of the plugin dispatch")
        if not guards:
            r3.ok("dispatch-not-client-switchable", "no client SET command can force the dispatch guard to false while plugins are configured")
        for (fn, f), cs in sorted(guards.items()):
            r3.fail("plugins-gated-by-client-settable:%s" % f, "the plugin dispatch sites are guarded by %s(), which a client can force to false through `%s` (try_execute_command assigns it: SET SERVER ROLE TO 'primary'|'replica'|'any' sets it to Some(false)), so any client can switch table_access/intercept off for its session" % (fn, f), cs[0].where())

        # the same inside execute_plugins (round 5): no test in front of a plugin's run() hinges on client-settable router state
        epb = ctx.body("pgcat::query_router::QueryRouter::execute_plugins::{closure#0}", r3)
        if epb:
            runs = epb.calls("re:^<pgcat::plugins::(intercept|table_access)::.* as pgcat::plugins::Plugin>::run$")
            if len(runs) < 2:
                r3.missing("Intercept / TableAccess run() calls in execute_plugins")
            hinges = {}
            for rc_ in runs:
                for sb, t in epb.control_deps(rc_.block, depth=6):
                    for o in origins(epb, epb.blocks[sb]["term"]["op"]):
                        if o.kind == "call" and o.call.name.startswith("pgcat::query_router::QueryRouter::"):
                            for fn_, fl_ in forced_false(o.call.name):
                                for f_ in fl_:
                                    hinges.setdefault(f_, o.call)
                    flds_ = set()
                    for o in origins(epb, epb.blocks[sb]["term"]["op"], taint=True):
                        if o.kind in ("place", "param") and not any(p_ == ".pool_settings" for p_ in o.proj):
                            flds_ |= {p_[1:] for p_ in o.proj if p_.startswith(".")}
                    for f_ in flds_ & settable:
                        hinges.setdefault(f_, rc_)
            r3.check(not hinges, "plugins-run-not-client-switchable", "inside execute_plugins no test in front of Intercept/TableAccess::run depends on state a client SET command assigns (%d run sites)" % len(runs),
                     "execute_plugins skips the plugins depending on %s, which try_execute_command assigns (SET SERVER ROLE TO 'primary'|'replica'|'any'): any client can switch table_access / intercept off for its session" % sorted(hinges),
                     next(iter(hinges.values())).where() if hinges else "")
    # ---------------- R4 relation names compared the way PostgreSQL resolves them
    # the plugins see the AST that QueryRouter::parse returns and nothing else: it has to be the AST of the whole message. parse() hands back what a
    # whole-input entry point of sqlparser produced (Parser::parse_sql, or Parser::parse_statements on a parser fed the text) - a statement loop of
    # pgcat's own that can stop early (`BEGIN; SELECT * FROM listed_table` parsed up to the BEGIN) leaves the rest of the message unseen by table_access / intercept
    WHOLE = re.compile(r"^sqlparser::parser::Parser(<.*>)?::(parse_sql|parse_statements)$")

    def whole_message_ast(fn, depth=0):
        """(ok, why): every Ok value `fn` returns comes from a whole-input parser entry (directly or through a pgcat helper of which the same holds)"""
        fb = F.body(fn)
        if fb is None:
            return False, "%s not found" % fn
        okv = [st["rv"]["ops"][0] for blk, i, st in fb.assigns() if st["lhs"]["l"] == 0 and st["rv"]["k"] == "agg" and st["rv"].get("variant") == "Ok" and st["rv"].get("ops")]
        direct = [st["rv"]["op"] for blk, i, st in fb.assigns() if st["lhs"]["l"] == 0 and not st["lhs"]["p"] and st["rv"]["k"] == "use"]
        if not okv and not direct:
            return False, "%s: no Ok value found" % fn.split("::")[-1]
        for op in okv + direct:
            srcs = [o.call for o in origins(fb, op) if o.kind == "call"]
            if not srcs:
                return False, "%s returns an AST that does not come from a parser call" % fn.split("::")[-1]
            for c in srcs:
                if WHOLE.match(c.name):
                    continue
                if c.name.startswith("pgcat::") and depth < 2:
                    ok_, why_ = whole_message_ast(c.name, depth + 1)
                    if ok_:
                        continue
                    return False, why_
                return False, "%s builds the AST with %s, not with a whole-input entry point of the parser (Parser::parse_sql / Parser::parse_statements): pgcat decides itself where parsing stops" % (fn.split("::")[-1], c.name.split("::")[-1])
        return True, ""
    wm_ok, wm_why = whole_message_ast("pgcat::query_router::QueryRouter::parse")
    r3.check(wm_ok, "plugins-see-the-whole-message", "QueryRouter::parse returns the AST of the whole message (sqlparser's whole-input entry point)",
             "the AST handed to the plugins need not cover the message: %s - a listed table (or an intercepted query) in the part that was not parsed gets `Allow` and is forwarded" % wm_why)
    # which plugins run is what the configuration in force says - also after a reload that changes only the global [plugins] section, which the pools without
    # a section of their own inherit: the inherited section is part of the identity from_config compares, or the pool (and its plugins) is kept as it was (D66)
    from common import pool_identity_gap
    pig = pool_identity_gap(F)
    if pig is None:
        r3.missing("from_config / ConnectionPool.config_hash")
    else:
        r3.check("plugins" in pig[0] and "plugins" in pig[1], "inherited-plugins-part-of-the-pool-identity", "the global [plugins] section a pool inherits is part of the identity a reload compares",
                 "the global [plugins] section is read when a pool is built but is not part of the identity a reload compares: switching table_access on (or off) for all pools in the file and reloading changes CONFIG "
                 "and leaves every pool with the plugins it had - listed tables stay readable (or stay blocked with `plugins disabled`)")
    r4 = ctx.rule("C19-R4", "table_access compares the last identifier of the relation, folded to lower case unless quoted — not the printed ObjectName", floor=3)
    ta = ctx.body(TA_RUN, r4)
    if ta:
        vr = ta.calls("re:^sqlparser::ast::visitor::visit_relations$")
        r4.check(bool(vr), "visit_relations", "table_access walks all relations with sqlparser's visit_relations", "table_access no longer uses visit_relations")
        clos = [b for n_, b in F.bodies.items() if n_.startswith(TA_RUN + "::{closure#")]
        cmp_calls = []
        for cb in clos:
            for c in cb.calls("re:^core::slice::<impl \\[T\\]>::contains$", "re:PartialEq.*::eq$", "re:^core::iter::traits::iterator::Iterator::any$"):
                cmp_calls.append((cb, c))
        if not cmp_calls:
            r4.missing("comparison with the configured table list in table_access")
        for cb, c in cmp_calls[:1]:
            prods = set()
            tostr_of = set()
            flds = set()
            for a in c.args:
                thr = []
                for o in origins(cb, a, taint=True, through=thr):
                    if o.kind == "call":
                        prods.add(o.call.name)
                    if o.kind in ("place", "param"):
                        flds.update(p[1:] for p in o.proj if p.startswith("."))
                for tc_ in thr:
                    prods.add(tc_.name)
                    if tc_.name.endswith("to_string"):
                        tostr_of.update(tc_.targs)
            allf = set(fields_read(cb))
            helper_calls = []
            for g_ in sorted(F.reachable_fns([k.name for k in cb.calls() if k.name.startswith("pgcat::")])):
                gb = F.body(g_)
                if gb is not None and g_.startswith("pgcat::plugins::"):
                    allf |= set(fields_read(gb))     # identifier resolution moved into a helper of the plugin module is still identifier resolution
                    helper_calls += [k.name for k in gb.calls()]
            prods |= set(helper_calls)
            r4.check(not any("ObjectName" in t for t in tostr_of), "not-printed-name", "the compared string is not ObjectName::to_string()",
                     "the compared string is the printed ObjectName split on '.': quoted names keep their quotes (\"users\" != users) and case is not folded (USERS, Users pass a rule for users)", c.where())
            r4.check("value" in allf, "uses-Ident.value", "the comparison uses Ident.value", "Ident.value is never read")
            r4.check("quote_style" in allf, "respects-quoting", "quote_style decides whether the name is folded", "Ident.quote_style is never consulted: quoted and unquoted spellings are treated alike")
            r4.check(any(re.search(r"to_lowercase|to_ascii_lowercase|eq_ignore_ascii_case", p) for p in prods) or bool(cb.calls("re:to_lowercase$|to_ascii_lowercase$|eq_ignore_ascii_case$")), "case-fold", "unquoted names are folded to lower case", "no case folding: `SELECT * FROM USERS` passes a rule for `users`")

        # no relation is let through unseen: the callback answers Continue only after comparing the name with the configured list
        for cb in clos:
            cmpb = [c.block for c in cb.calls("re:^core::slice::<impl \\[T\\]>::contains$", "re:^core::iter::traits::iterator::Iterator::any$") if any("tables" in nm_ for nm_ in captured_names(cb, c))]
            if not cmpb:
                continue
            conts = [blk for blk, i, st in cb.assigns() if st["lhs"]["l"] == 0 and not st["lhs"]["p"] and st["rv"]["k"] == "agg" and st["rv"].get("variant") == "Continue"]
            csw = switches(cb)
            noneE = set()
            for k in cb.calls("re:^core::slice::<impl \\[T\\]>::(last|first)$"):
                sE, nE, _ = discr_edges(cb, r"core::option::Option<&sqlparser::ast::Ident>", "Some", origin_pred=lambda o, k=k: o.kind == "call" and o.call.block == k.block, switches_cache=csw)
                noneE |= set(nE)
            w = cb.uncrossed_path([0], conts, blocks=cmpb, edges=noneE)
            r4.check(bool(conts) and w is None, "no-relation-skipped", "the relation callback answers Continue only after comparing the name with the configured tables (or for an empty name)",
                     "a relation can be let through without being compared with the configured tables (an exemption by name ignores SQL scoping: `WITH t AS (SELECT * FROM t) ...`, a later sibling, an outer query or a DML target "
                     "all refer to the real table)", "", w and cb.describe_path(w))

    # the pending verdict belongs to the buffered batch, not to the transaction or the server: it is dropped only where it is consumed
    # (the arm that answers the client for that batch) - never at a loop end, a release or a timeout
    if h:
        po = set(h.locals_named("plugin_output"))
        hsw2 = switches(h)
        denyE, _, _ = discr_edges(h, r"plugins::PluginOutput", "Deny", switches_cache=hsw2)
        icptE, _, _ = discr_edges(h, r"plugins::PluginOutput", "Intercept", switches_cache=hsw2)
        # explicit arms only: an `otherwise` edge that merely lets an Intercept value through is not an arm that consumes it
        consume_targets = []
        for sw in hsw2:
            d_ = sw.discr() if hasattr(sw, "discr") else None
            if d_ and "PluginOutput" in str(d_[0]):
                for vn in ("Deny", "Intercept"):
                    if vn in d_[2]:
                        consume_targets.append(d_[2][vn])
        drops = []
        for blk, i, st in h.assigns():
            if st["lhs"]["l"] in po and not st["lhs"]["p"]:
                is_none = st["rv"]["k"] == "agg" and st["rv"].get("variant") == "None"
                if st["rv"]["k"] == "use":
                    is_none = any(o.kind == "agg" and o.extra.get("variant") == "None" for o in origins(h, st["rv"]["op"]))
                if is_none:
                    drops.append((blk, st))
        takes = [c for c in h.calls("re:^core::option::Option::take$", "re:^core::mem::(take|replace)$") if any(o.kind in ("place",) and o.what in po for o in origins(h, c.args[0]))]
        init_done = False
        bad = []
        for blk, st in drops:
            if any(h.dominates(t_, blk) for t_ in consume_targets):
                continue
            # dropped together with the batch it belongs to
            if any(h.dominates(k.block, blk) and any(k.block in natural_loop(h, hd) for hd in loop_headers(h)) for k in h.calls("pgcat::client::Client::reset_buffered_state")):
                continue
            # the initialisation before the loops
            if not any(blk in natural_loop(h, hd) for hd in loop_headers(h)):
                init_done = True
                continue
            bad.append(st["span"])
        for c in takes:
            if not any(h.dominates(t_, c.block) for t_ in consume_targets):
                bad.append(c.span)
        r2.check(bool(drops) and not bad, "verdict-dropped-only-when-consumed", "plugin_output is reset to None only in the arms that consume a Deny/Intercept (%d sites) and at initialisation" % len(drops),
                 "the pending plugin verdict is dropped outside the arms that consume it (%s): the refused batch stays buffered across a release (`BEGIN; Parse(denied) Bind Execute; COMMIT; Sync`) and the next Sync forwards it" % bad)

    # relation names in positions sqlparser's visit_relations does not reach (read off the source of the linked sqlparser, 0.52.0: the
    # `visit(with = "visit_relation")` attribute is on FROM/JOIN table factors, DML targets, ALTER/TRUNCATE/ANALYZE/... - not on the fields
    # below). The property wants a listed table refused in any position, so the plugin has to look at these statement kinds itself.
    UNREACHED = [("Statement", "Copy", "COPY <table> TO/FROM"), ("Statement", "Drop", "DROP TABLE <table>"), ("Statement", "Comment", "COMMENT ON TABLE <table>"),
                 ("Statement", "Grant", "GRANT .. ON <table>"), ("Statement", "CreateTable", "CREATE TABLE .. (LIKE <table>)"), ("SetExpr", "Table", "TABLE <table> / CREATE TABLE .. AS TABLE <table>")]
    lock = ""
    try:
        lock = open(os.path.join(os.environ.get("PGCAT_REPO", "/repo"), "Cargo.lock")).read()
    except Exception:
        pass
    mver = re.search(r'name = "sqlparser"\nversion = "([^"]+)"', lock)
    r4.check(bool(mver) and mver.group(1) == "0.52.0", "sqlparser-version", "the table of unreached positions was derived for sqlparser %s" % (mver.group(1) if mver else "?"),
             "the linked sqlparser is %s, the table of positions visit_relations does not reach was derived for 0.52.0: derive it again" % (mver.group(1) if mver else "unknown"))
    if ta:
        ta_bodies = [b for n_, b in F.bodies.items() if "plugins::table_access" in n_]
        handled = set()
        for b in ta_bodies:
            for sw in switches(b):
                d = sw.discr()
                if d and ("sqlparser::ast::Statement" in str(d[0]) or "sqlparser::ast::query::SetExpr" in str(d[0])):
                    handled |= {(str(d[0]).split("::")[-1], v) for v in d[2]}
        for ty, var, what in UNREACHED:
            r4.check((ty, var) in handled, "relation-position:%s::%s" % (ty, var), "table_access looks at %s::%s itself" % (ty, var),
                     "`%s` names a relation where sqlparser's visit_relations does not look, and table_access has no arm for %s::%s: the statement refers to a listed table and is forwarded" % (what, ty, var))

    # ---------------- R5 order and disabled behaviour
    # ... and the other side of the comparison is the list as the operator wrote it: nothing rewrites TableAccess.tables after the file was read. A list folded
    # to lower case at validation no longer holds `"Accounts"` - the spelling PostgreSQL resolves to the table created as "Accounts" - and the plugin, which takes
    # quoted identifiers as written, lets every statement on it through
    wr_tables = []
    for n_, b_ in F.bodies.items():
        if "::test" in n_ or n_.startswith("bin:"):
            continue
        for blk, pl, how in all_places(b_):
            if how in ("write", "refmut") and "tables" in proj_fields(pl):
                ty = b_.locals[pl["l"]]["ty"]
                if "TableAccess" in ty or "Plugins" in ty or "config::" in ty:
                    wr_tables.append("%s (%s)" % (n_.replace("pgcat::", ""), how))
    r4.check(not wr_tables, "listed-names-as-written", "no function rewrites the configured table list (TableAccess.tables)",
             "the configured table list is modified in %s: the names the plugin compares with are no longer the ones the operator listed - a table listed as \"Accounts\" (created with quotes) stops matching the only spelling that reaches it" % sorted(set(wr_tables)))
    r5 = ctx.rule("C19-R5", "with plugins disabled nothing is blocked; intercept is consulted before table_access; an Intercept payload ends with ReadyForQuery", floor=4)
    ex = ctx.body(EXECC, r5)
    if ex:
        esw = switches(ex)
        noneE, _, _ = discr_edges(ex, r"core::option::Option<pgcat::config::Plugins>", "None", switches_cache=esw)
        if not noneE:
            r5.missing("plugins == None arm in execute_plugins")
        else:
            reach = ex.reach([d for _, d in noneE])
            runs = [c for c in ex.calls("re:Plugin>::run$") if c.block in reach]
            allow = [blk for blk, i, st in ex.assigns() if blk in reach and st["rv"]["k"] == "agg" and st["rv"].get("variant") == "Allow"]
            r5.check(not runs and bool(allow), "no-plugins=>Allow", "plugins == None returns Allow without running anything", "plugins == None does not return Allow directly")
        ic = [c for c in ex.calls("re:Plugin>::run$") if "Intercept" in c.name]
        tc = [c for c in ex.calls("re:Plugin>::run$") if "TableAccess" in c.name]
        r5.check(bool(ic) and bool(tc) and tc[0].block in ex.reach([ic[0].block]) and ic[0].block not in ex.reach([tc[0].block]), "order", "intercept runs before table_access", "plugin order changed or a plugin is not dispatched (intercept=%d table_access=%d)" % (len(ic), len(tc)))
    for nm, bn in (("table_access", TA_RUN), ("intercept", IC_RUN)):
        b = ctx.body(bn, r5)
        if not b:
            continue
        T, Fa = field_bool_edges(b, "enabled")
        if not Fa:
            r5.missing("test of `enabled` in %s" % nm)
            continue
        # on enabled == false: returns Allow without visiting
        reach = b.reach([d for _, d in Fa])
        # `!self.enabled || ast.is_empty()`: the false edge of enabled leads to the Allow return
        allow = [blk for blk, i, st in b.assigns() if blk in reach and st["rv"]["k"] == "agg" and st["rv"].get("variant") == "Allow"]
        denies = [blk for blk, i, st in b.assigns() if st["rv"]["k"] == "agg" and st["rv"].get("variant") in ("Deny", "Intercept")]
        wit = b.uncrossed_path([d for _, d in Fa], denies, edges=T)
        r5.check(bool(allow) and wit is None, "disabled:%s" % nm, "%s returns Allow when disabled" % nm, "%s can deny/intercept although disabled" % nm)
    icb = F.body(IC_RUN)
    if icb:
        putz = [c for c in icb.calls("re:BufMut>::put_u8$|BufMut::put_u8$") if const_int(c.args[1]) == 90]
        aggs = [blk for blk, i, st in icb.assigns() if st["rv"]["k"] == "agg" and st["rv"].get("variant") == "Intercept"]
        ok = bool(putz) and bool(aggs) and all(icb.dominates(putz[0].block, a) for a in aggs)
        r5.check(ok, "intercept-ends-with-Z", "the intercept payload is terminated with ReadyForQuery ('Z')", "the intercept payload is not terminated with ReadyForQuery")

    # `a query that matches an intercept rule is answered by the pooler`: also when it shares its message with other statements - the verdict Allow is reached
    # only after every statement of the message has been compared with the rules, never from inside the walk over the statements (round 10: a fast path that
    # returns Allow at the first statement that is not a rule forwards `SELECT 1; <rule>` whole)
    if icb:
        isw = switches(icb)
        stmt_loops = [hd for hd in loop_headers(icb) if any(c.block in natural_loop(icb, hd) for c in icb.calls("re:ToString>::to_string$|^alloc::string::ToString::to_string$"))]
        # outermost ones only (the walk over the rules sits inside the walk over the statements)
        stmt_loops = [hd for hd in stmt_loops if not any(hd != h2 and hd in natural_loop(icb, h2) for h2 in stmt_loops)]
        noneE, _s, _ = discr_edges(icb, r"core::option::Option<", "None", switches_cache=isw)
        allows = [blk for blk, i, st in icb.assigns() if st["rv"]["k"] == "agg" and st["rv"].get("variant") == "Allow"]
        early = []
        for hd in stmt_loops:
            loop_ = natural_loop(icb, hd)
            for u in loop_:
                for v in icb.succ("n")[u]:
                    if v in loop_ or icb.blocks[v]["cleanup"] or icb.blocks[v]["term"]["k"] == "unreachable":
                        continue
                    if (u, v) in noneE and icb.dominates(hd, u) and not any(u in natural_loop(icb, h2) for h2 in loop_headers(icb) if h2 != hd and h2 in loop_):
                        continue   # the walk is over: its iterator is exhausted
                    if any(a_ in icb.reach([v]) for a_ in allows):
                        early.append((u, v))
        r5.check(bool(stmt_loops) and bool(allows) and not early, "intercept:allow-only-after-every-statement",
                 "Intercept::run reaches Allow only where the walk over the statements of the message is over (%d walk(s), %d Allow site(s))" % (len(stmt_loops), len(allows)),
                 "Intercept::run can leave its walk over the statements of the message early and answer Allow (exit bb%s): one statement that is not a rule lets the whole message through - "
                 "`SELECT 1; <intercepted query>` reaches the server" % sorted({u for u, _ in early}))
    # the configured rows are the rule's rows with ${USER} / ${DATABASE} of the session that asks: the placeholders are filled in per query, on a private
    # copy of the configuration (round 6: filled in once at pool construction on a variable shared by the users of a pool - everybody got the first user's name)
    SUBST = "pgcat::config::Intercept::substitute"
    subs = list(F.all_calls(SUBST))
    if icb is not None:
        here = [c for c in subs if c.body is icb]
        elsewhere = sorted({c.body.name for c in subs if c.body is not icb and "::test::" not in c.body.name})
        ok_s = bool(here) and not elsewhere
        if here:
            thr_ = []
            recv_calls = {o.call.name for o in origins(icb, here[0].args[0], taint=True, through=thr_) if o.kind == "call"} | {t_.name for t_ in thr_}
            arg_calls = {o.call.name for a in here[0].args[1:] for o in origins(icb, a, taint=True) if o.kind == "call"}
            ok_s = ok_s and any(n_.endswith("Clone>::clone") for n_ in recv_calls) and "pgcat::query_router::QueryRouter::pool_settings" in arg_calls
        r5.check(ok_s, "intercept-rows-per-session", "Intercept::run fills ${USER}/${DATABASE} into a clone of the rules from the asking session's pool settings, and nobody else substitutes",
                 "the placeholders of the intercept rules are not filled in per query on a private copy (substitute called in %s): the rows a client gets can carry another user's or pool's name" % (elsewhere or "no clone / not from the session's pool settings"))
    # ---------------- R6 a denied batch leaves no prepared statement behind
    r6 = ctx.rule("C19-R6", "when a batch is denied/intercepted, statements it prepared are forgotten: a later Bind/Execute cannot run a denied statement through the statement cache", floor=2)
    for sw in pend_sw:
        d = sw.discr()
        for variant in ("Deny", "Intercept"):
            if variant not in d[2] or not _consumes(h, d[2][variant], plug_locals, heads):
                continue
            ev = _events(F, h, h.reach([d[2][variant]], avoid_blocks=heads))
            ok = "forget" in ev and ("clear-batch" not in ev or ev.index("forget") < ev.index("clear-batch"))
            why = "a denied Parse stays registered in Client.prepared_statements" if "forget" not in ev else "the batch is cleared before its statements are forgotten (the forget step walks the already empty batch buffer)"
            r6.check(ok, "forget-on-%s@%s" % (variant, "inner" if sw in inner_pend else "outer"),
                     "pending %s removes the batch's entries from the client's prepared-statement map before clearing the batch" % variant,
                     why + ": `Parse(s1, denied) Sync` then `Bind(s1) Execute Sync` makes ensure_prepared_statement_is_on_server send and run the denied statement",
                     "bb%d of handle" % sw.block)

    # what `forgotten` means: the names the batch registered are removed - by the key they were inserted under (the clause is C08-R4's; D63: a look-up by the
    # rewritten name removed nothing, and `Parse(s1 = SELECT * FROM listed) Sync` (refused) followed by `Bind(s1) Execute Sync` ran the refused statement)
    from common import refused_batch_forget_finding
    HM19 = "re:^std::collections::hash::map::HashMap::.*(remove|retain)$"
    nfg = 0
    for c in F.all_calls(HM19):
        if not c.body.name.startswith("pgcat::client::Client::forget_buffered_prepared_statements") or not c.args:
            continue
        if ".prepared_statements" not in {p_ for o in origins(c.body, c.args[0]) if o.kind in ("place", "param") for p_ in o.proj}:
            continue
        nfg += 1
        okf_, okm_, fm_ = refused_batch_forget_finding(F, c, "re:^std::collections::hash::map::HashMap::")
        r6.check(okf_, "forget-removes-what-the-batch-registered", okm_, fm_, c.where())
    r6.check(nfg >= 1, "forget-site", "forget_buffered_prepared_statements removes from the client's name map", "forget_buffered_prepared_statements no longer removes anything from Client.prepared_statements")
    # ... and so is any other discard of a buffered batch (D26): the statements the batch prepared and a verdict pending on it go with it.
    # A batch that was discarded because its Sync could not get a server must not leave an intercepted/denied statement remembered.
    if h:
        po2 = set(h.locals_named("plugin_output"))
        none_drops = []
        for blk, i, st in h.assigns():
            if st["lhs"]["l"] in po2 and not st["lhs"]["p"]:
                if (st["rv"]["k"] == "agg" and st["rv"].get("variant") == "None") or (st["rv"]["k"] == "use" and any(o.kind == "agg" and o.extra.get("variant") == "None" for o in origins(h, st["rv"]["op"]))):
                    none_drops.append(blk)
        nres = 0
        for c in h.calls("pgcat::client::Client::reset_buffered_state"):
            nres += 1
            # events before the discard, inside the same iteration
            pre = [k for k in h.calls("pgcat::client::Client::forget_buffered_prepared_statements") if h.dominates(k.block, c.block)]
            inlined = False
            if not pre:
                ev = _events(F, h, set(h.backreach([c.block], avoid_blocks=heads)) & set(h.reach([hd for hd in heads] or [0], avoid_blocks=[])))
                inlined = "forget" in ev
            after = h.uncrossed_path([c.target] if c.target is not None else [], heads, blocks=none_drops) if none_drops else [0]
            dropped_before = any(h.dominates(b_, c.block) for b_ in none_drops if any(b_ in natural_loop(h, hd) for hd in heads))
            r6.check((bool(pre) or inlined) and (after is None or dropped_before), "discard-forgets-and-drops-verdict@%s" % c.span.split(":")[1],
                     "the discard of the buffered batch at client.rs:%s forgets the batch's statements and drops the pending verdict" % c.span.split(":")[1],
                     "the buffered batch is discarded at client.rs:%s %s: an intercepted (or denied) batch whose Sync could not get a server leaves its named statement remembered and its verdict pending - the next batch is answered with the stale verdict and the one after that forwards the statement"
                     % (c.span.split(":")[1], "without forgetting the statements it prepared" if not (pre or inlined) else "but the pending verdict survives it"), c.where())
        r6.check(nres >= 4, "discard-sites", "%d sites discard the buffered batch" % nres, "expected >= 4 reset_buffered_state sites in handle, found %d" % nres)


def _events(F, body, region, depth=3, _seen=None):
    """ordered list of 'forget' / 'clear-batch' events in a region of `body`, following calls to
    Client:: helper methods (their whole bodies) in RPO order"""
    _seen = _seen or set()
    order = sorted(region)  # block indices follow source order closely enough inside one arm; refine with RPO
    try:
        from c08 import rpo
        idx = rpo(body)
        order = sorted((b for b in region if b in idx), key=lambda b: idx[b])
    except Exception:
        pass
    ev = []
    for b in order:
        c = body.call_at(b)
        if c is None:
            continue
        if re.search(r"HashMap::.*(remove|retain|clear)$", c.name):
            fl = {p_ for a in c.args[:1] for o in origins(body, a) for p_ in o.proj if o.kind in ("place", "param")}
            if ".prepared_statements" in fl:
                ev.append("forget")
        elif re.search(r"VecDeque::.*clear$", c.name):
            fl = {p_ for a in c.args[:1] for o in origins(body, a) for p_ in o.proj if o.kind in ("place", "param")}
            if ".extended_protocol_data_buffer" in fl:
                ev.append("clear-batch")
        elif c.name.startswith("pgcat::client::Client::") and depth > 0 and c.name not in _seen:
            cb = F.body(c.name)
            if cb is not None and cb.kind != "coroutine":
                ev.extend(_events(F, cb, cb.reach([0]), depth - 1, _seen | {c.name}))
    return ev


def _consumes(h, start, plug_locals, heads):
    """the arm entered at `start` clears the pending verdict (assigns None to it) within this iteration"""
    reach = h.reach([start], avoid_blocks=heads)
    for blk, i, st in h.assigns():
        if blk in reach and st["lhs"]["l"] in plug_locals and not st["lhs"]["p"] and h.dominates(start, blk):
            rv = st["rv"]
            if rv["k"] == "agg" and rv.get("variant") == "None":
                return True
            if rv["k"] == "use":
                for o in origins(h, rv["op"]):
                    if o.kind == "agg" and o.extra.get("variant") == "None":
                        return True
    return False


def _vis(body, pl):
    v = set()
    origins(body, pl, visited=v)
    return v


def _removes_prepared(body):
    for c in body.calls("re:HashMap::.*(remove|retain|clear)$"):
        for a in c.args[:1]:
            for o in origins(body, a):
                if o.kind in ("place", "param") and ".prepared_statements" in o.proj:
                    return True
    return False

"""C01 — a server connection serves one client at a time, for a whole transaction."""
from mirlib import *
from common import cancelled_io_findings, release_gate, whole_reply_findings, own_request_findings

H = "pgcat::client::Client::handle::{closure#0}"
ROUND_TRIPS = ("pgcat::client::Client::send_and_receive_loop", "pgcat::client::Client::receive_server_message")
CLEANUP = "pgcat::server::Server::checkin_cleanup"
GET = "pgcat::pool::ConnectionPool::get"


def run(ctx):
    F = ctx.facts
    ctx.explanation = ("value-edge path rules over the transaction loop of Client::handle (every way out of the loop towards the release path, after a server round trip, crosses in_transaction()==false, "
                       "in_copy_mode()==false where the reply may start a COPY, and transaction_mode==true), provenance of every Server receiver in handle, and type/ownership facts about pooled connections")
    ctx.assumptions = ["bb8 hands a connection to one borrower at a time (library, trusted) and Rust's borrow rules make the PooledConnection guard exclusive", "interleavings are not modelled",
                       "the idle-in-transaction timeout leaves the loop without a round trip and goes through checkin_cleanup (ROLLBACK): exempt by construction"]
    h = ctx.body(H)
    r1 = ctx.rule("C01-R1", "after a server round trip, the transaction loop is left towards the release path only where Server::in_transaction() returned false", floor=3)
    r2 = ctx.rule("C01-R2", "after a round trip (any reply may start a COPY: the reply to a Query or Sync, and the reply to CopyDone when the query holds another COPY) the loop is left only where Server::in_copy_mode() returned false", floor=3)
    r3 = ctx.rule("C01-R3", "the server is released after a round trip only in transaction mode (session mode keeps it until the client leaves)", floor=3)
    if h is None:
        r1.missing("body " + H)
        return
    hsw = switches(h)
    ctx.evaluations += h.nblocks
    rm = [c.block for c in h.calls("pgcat::messages::read_message")]
    claim = h.calls("pgcat::server::Server::claim")
    heads = [hd for hd in loop_headers(h) if any(b_ in natural_loop(h, hd) for b_ in rm)]
    if len(heads) < 2 or not claim:
        r1.missing("idle loop / transaction loop / claim in handle")
        return
    outer = min(heads)
    inner_cands = [hd for hd in heads if hd != outer and h.dominates(claim[0].block, hd)]
    if not inner_cands:
        r1.missing("transaction loop header")
        return
    inner = min(inner_cands)
    inner_blocks = natural_loop(h, inner)
    # the release path: checkin_cleanup outside the transaction loop, inside the idle loop
    rel = [c.block for c in h.calls(CLEANUP) if c.block not in inner_blocks and c.block in natural_loop(h, outer)]
    if not rel:
        r1.missing("checkin_cleanup on the release path")
        return
    succ = h.succ("n")
    can_release = h.backreach(rel, avoid_blocks=[inner])
    exits = {(u, v) for u in inner_blocks for v in succ[u] if v not in inner_blocks and v in can_release}
    r1.note("transaction loop header bb%d (%d blocks), %d exit edge(s) towards the release path" % (inner, len(inner_blocks), len(exits)))
    exit_srcs = sorted({u for u, _ in exits})
    T_tx, F_tx, _ = call_bool_edges(h, "pgcat::server::Server::in_transaction", switches_cache=hsw)
    T_cp, F_cp, _ = call_bool_edges(h, "pgcat::server::Server::in_copy_mode", switches_cache=hsw)
    T_tm, F_tm = field_bool_edges(h, "transaction_mode", hsw)
    # a Client predicate that can only answer true when transaction_mode is true is as good as the field test (round 6: `can_release_server`)
    for n_, b_ in F.bodies.items():
        if not n_.startswith("pgcat::client::Client::") or "::{" in n_ or b_.locals[0]["ty"] != "bool":
            continue
        bsw_ = switches(b_)
        Tm_, Fm_ = field_bool_edges(b_, "transaction_mode", bsw_)
        if not Fm_:
            continue
        after_false = b_.reach([d_ for _, d_ in Fm_])
        rets0 = [(blk, st) for blk, i, st in b_.assigns() if st["lhs"]["l"] == 0 and not st["lhs"]["p"]]
        only_false = all(st["rv"]["k"] == "use" and const_int(st["rv"]["op"]) == 0 for blk, st in rets0 if blk in after_false)
        no_bypass = b_.uncrossed_path([0], [blk for blk, st in rets0 if not (st["rv"]["k"] == "use" and const_int(st["rv"]["op"]) == 0)], edges=set(Tm_)) is None
        if only_false and no_bypass and h.calls(n_):
            Th_, _Fh, _ = call_bool_edges(h, n_, switches_cache=hsw)
            T_tm = set(T_tm) | set(Th_)
    rts = [c for c in h.calls(*ROUND_TRIPS) if c.block in inner_blocks]
    if not F_tx:
        r1.missing("branch on Server::in_transaction() in handle")
    if not T_tm:
        r3.missing("branch on Client.transaction_mode in handle")
    n = {}
    for c in rts:
        short = c.name.split("::")[-1]
        n[short] = n.get(short, 0) + 1
        key = "%s#%d" % (short, n[short])
        start = [c.target] if c.target is not None else []

        def esc(edges):
            # reaching the *source* of an exit edge is not enough: the exit edge itself must be taken
            par = h.reach(start, avoid_edges=edges, avoid_blocks=[inner], want_parents=True)
            for (u, v) in sorted(exits):
                if u in par and (u, v) not in edges:
                    return h.path(par, u) + [v]
            return None
        w = esc(F_tx)
        r1.check(w is None, "after:" + key, "after %s the loop is left towards release only on in_transaction()==false" % key,
                 "after %s the server can be released while it still reports an open transaction (another client would run inside it)" % key, c.where(), w and h.describe_path(w))
        # every reply may start a COPY: also the reply to CopyDone, when the simple query holds another COPY behind the first (D37)
        if True:
            w = esc(F_cp)
            r2.check(w is None, "after:" + key, "after %s the loop is left towards release only on in_copy_mode()==false" % key,
                     "after %s the server can be released while a COPY is in progress" % key, c.where(), w and h.describe_path(w))
        w = esc(T_tm)
        r3.check(w is None, "after:" + key, "after %s the server is released only when transaction_mode is true" % key,
                 "after %s a session-mode client gives its server back between transactions" % key, c.where(), w and h.describe_path(w))
    # ... and not only after a round trip of the same iteration: whatever the arm, the loop is left towards the release path only where the server said
    # `not in a transaction` - except by the idle-in-transaction deadline, whose exit goes through the ROLLBACK of checkin_cleanup (round 6: the arm that
    # drops a stray CopyDone released the server of an open transaction)
    idle_arms = set()
    for t_ in h.calls("re:^tokio::time::timeout::timeout$"):
        if t_.block in inner_blocks and any(o.kind == "call" and re.search(r"fill_buf$|read_message$", o.call.name) for o in origins(h, t_.args[1])):
            el_, _, _ = discr_edges(h, r"core::result::Result<.*Elapsed>", "Err", origin_pred=lambda o, t_=t_: o.kind == "call" and o.call.block == t_.block, switches_cache=hsw)
            el2_ = [te for _s, _o, te, _f in bool_value_edges(h, lambda o, t_=t_: o.kind == "call" and o.call.name.endswith("::is_err") and any(oo.kind == "call" and oo.call.block == t_.block for oo in origins(h, o.call.args[0], taint=True)), hsw)]
            idle_arms |= {d_ for _, d_ in el_} | {te[1] for te in el2_}
    par_ = h.reach([inner], avoid_edges=F_tx, avoid_blocks=sorted(idle_arms), want_parents=True)
    w_ = None
    for (u, v) in sorted(exits):
        if u in par_ and (u, v) not in F_tx and v not in idle_arms and not any(h.dominates(a_, u) for a_ in idle_arms):
            w_ = h.path(par_, u) + [v]
            break
    r1.check(bool(idle_arms) and w_ is None, "every-exit-crosses-not-in-transaction", "whatever the message, the transaction loop is left towards the release path only over in_transaction()==false (or through the idle-in-transaction deadline)",
             "an arm of the transaction loop leaves it towards the release path without having seen in_transaction()==false: the server of an open transaction is rolled back and handed to another client in the middle of this client's transaction",
             "", w_ and h.describe_path(w_))
    r1.check(len(rts) >= 3, "round-trip-sites", "%d server round trips in the transaction loop (Q, Sync, CopyDone/Fail arms)" % len(rts), "expected >= 3 round-trip sites in the transaction loop, found %d" % len(rts))

    # ---------------- R4 one statement stream per guard
    # `in session mode for the whole client session`: which of the two modes a client runs in is Client.transaction_mode, set at login from the pool's
    # PoolSettings.pool_mode - and that is the user's own pool_mode when the user has one (a user can ask for session mode inside a transaction-mode pool)
    from common import user_override_findings
    uof = user_override_findings(F)
    if uof is None:
        r3.missing("from_config / config::User / config::Pool")
    else:
        pm = [x for x in uof if x[0] == "pool_mode"]
        r3.check(bool(pm) and pm[0][1], "mode-is-the-users-own", "PoolSettings.pool_mode derives from the user's pool_mode as well as from the pool's (the user's wins)",
                 "the pool mode a client is given derives from the pool section alone (%s): a user configured with `pool_mode = \"session\"` in a transaction-mode pool is pooled per transaction - after each of its "
                 "transactions its server connection is cleaned and handed to the next client, in the middle of its session" % (pm[0][3] if pm else "pool_mode not found"))
    r4 = ctx.rule("C01-R4", "every Server method call and every helper that talks to a server in handle operates on the connection obtained from this iteration's checkout", floor=8)
    k = 0
    for c in h.calls("re:^pgcat::server::Server::[a-z_]+$"):
        if c.name.endswith("::cancel"):
            continue
        src = {o.call.name for o in origins(h, c.args[0]) if o.kind == "call"}
        k += 1
        r4.check(src == {GET}, "recv:%s#%d" % (c.name.split("::")[-1], k), "Server::%s receiver derives from ConnectionPool::get" % c.name.split("::")[-1], "Server::%s is called on a server that does not come from this checkout: %s" % (c.name.split("::")[-1], sorted(src)), c.where())
    for c in h.calls("re:^pgcat::client::Client::(send_and_receive_loop|send_server_message|receive_server_message|ensure_prepared_statement_is_on_server|register_parse_to_server_cache)$"):
        ok = False
        for a in c.args[1:]:
            if "pgcat::server::Server" in (h.locals[op_local(a)]["ty"] if op_local(a) is not None else ""):
                src = {o.call.name for o in origins(h, a) if o.kind == "call"}
                ok = src == {GET}
        k += 1
        r4.check(ok, "arg:%s#%d" % (c.name.split("::")[-1], k), "%s receives the checked-out server" % c.name.split("::")[-1], "%s receives a server that does not come from this checkout" % c.name.split("::")[-1], c.where())
    gets = h.calls(GET)
    r4.check(len(gets) == 1, "one-checkout-site", "handle has one checkout site", "handle has %d checkout sites" % len(gets))

    # ---------------- R5 exclusive ownership by type
    r5 = ctx.rule("C01-R5", "pooled connections cannot be shared: Server is not Clone, no struct field / static stores a PooledConnection or a shared Server, and bb8 checkouts happen only at the three known sites", floor=4)
    r5.check(not F.has_impl("core::clone::Clone", r"^pgcat::server::Server$"), "Server:!Clone", "Server does not implement Clone", "Server implements Clone: two owners could drive one connection")
    bad = []
    for n_, a in F.adts.items():
        if not a.get("local"):
            continue
        for v in a["variants"]:
            for f in v["fields"]:
                t = f["ty"]
                if "PooledConnection" in t or re.search(r"(Arc|Rc)<[^>]*pgcat::server::Server\b", t) or re.search(r"\*(const|mut) pgcat::server::Server", t) or re.search(r"Mutex<[^>]*pgcat::server::Server\b", t):
                    bad.append("%s.%s: %s" % (n_, f["name"], t))
    r5.check(not bad, "no-stored-guards", "no struct field holds a PooledConnection or a shared Server", "a field can hold a borrowed/shared server connection: %s" % bad)
    sbad = [n_ for n_, s_ in F.statics.items() if "PooledConnection" in s_["ty"] or "pgcat::server::Server" in s_["ty"]]
    r5.check(not sbad, "no-static-guards", "no static holds a server connection", "statics holding connections: %s" % sbad)
    sites = sorted({c.body.name for c in F.all_calls("re:^bb8::api::Pool::(get|get_owned|dedicated_connection)$")})
    exp = {"pgcat::pool::ConnectionPool::get::{closure#0}", "pgcat::pool::ConnectionPool::validate::{closure#0}::{closure#0}", "pgcat::mirrors::MirroredClient::start::{closure#0}"}
    r5.check(set(sites) == exp, "bb8-checkout-sites", "bb8 checkouts happen in ConnectionPool::get, validate and the mirror task only", "bb8 checkout sites: %s" % sites)
    owned = sorted({c.name for c in F.all_calls("re:^bb8::api::Pool::(get_owned|dedicated_connection)$")})
    r5.check(not owned, "no-owned-checkouts", "no get_owned/dedicated_connection (guards are lifetime-bound to the pool)", "owned checkouts in use: %s" % owned)
    leaks = sorted({c.body.name for c in F.all_calls("re:^core::mem::forget$", "re:ManuallyDrop.*::new$", "re:Box.*::leak$") if any("PooledConnection" in t or "Server" in t for t in c.targs)})
    r5.check(not leaks, "no-forget", "no mem::forget / ManuallyDrop / Box::leak of a connection", "connection leaked via %s" % leaks)
    # Server values are built in one place
    builders = sorted({b_.name for b_, blk, st in F.aggregates("pgcat::server::Server")})
    r5.check(builders == ["pgcat::server::Server::startup::{closure#0}"], "server-constructor", "Server values are built only by Server::startup", "Server constructed in %s" % builders)

    # ---------------- R6 no unread reply on a connection that changes hands (shared with C02-R4)
    r6 = ctx.rule("C01-R6", "a server whose reply was abandoned by a timeout is marked bad, so no later client reads a reply that belongs to someone else's request", floor=2)
    for fn, ok, where, wit in cancelled_io_findings(F):
        r6.check(ok, "elapsed-arm:" + fn.split("::")[-2], "timeout over server I/O in %s marks the server bad" % fn.split("::")[-2],
                 "a timed-out request in %s leaves its reply unread on a reusable connection: the next client receives it as the result of its own statement" % fn.split("::")[-2], where, wit)

    # ---------------- R7 an abandoned transaction does not change hands
    r7 = ctx.rule("C01-R7", "a connection whose client left inside a transaction is rolled back (or discarded) at check-in: in checkin_cleanup every way from in_transaction()==true to an Ok return crosses a "
                  "successful ROLLBACK query or marks the connection bad, and the release path of handle goes through checkin_cleanup", floor=2)
    from common import rollback_findings
    for key, ok, where, wit in rollback_findings(F):
        if ok is None:
            r7.missing(key)
        else:
            if key == "ROLLBACK-verified":
                r7.check(ok, key, "after the ROLLBACK round trip checkin_cleanup looks at the transaction state again (still in a transaction => bad)",
                         "checkin_cleanup trusts the ROLLBACK blindly: Server::query returns Ok whatever the server answered, and a connection left in copy-in mode inside a transaction consumes the ROLLBACK message as a protocol violation "
                         "(ErrorResponse, ReadyForQuery 'E'); the connection goes back to the pool inside a failed transaction block and the next client's statements all fail (or, after a plain refusal, run inside the old transaction)", where, wit)
                continue
            r7.check(ok, key, "checkin_cleanup rolls an open transaction back before returning Ok", "checkin_cleanup can return Ok with the previous client's transaction still open (the ROLLBACK is built but not sent on some path): "
                     "the next client's statements run inside that transaction and its COMMIT makes the abandoned work durable", where, wit)
    r7.check(bool(rel), "release-through-checkin_cleanup", "the release path of the transaction loop calls checkin_cleanup (%d site(s))" % len(rel), "handle no longer calls checkin_cleanup on the release path")

    # ---------------- R8 the transaction state follows the server's ReadyForQuery
    r8 = ctx.rule("C01-R8", "Server.in_transaction follows the status byte of every ReadyForQuery: 'T' and 'E' (failed transaction block) mean `in a transaction`, 'I' means idle, anything else marks the connection bad; "
                  "nothing else writes the flag", floor=4)
    rv = ctx.body("pgcat::server::Server::recv::{closure#0}", r8)
    if rv:
        rsw = switches(rv)
        st_sw = [sw for sw in rsw if sw.ty in ("char", "u8", "u32") and {v for v, _ in sw.targets} >= {84, 73, 69} and len(sw.targets) <= 4]
        if not st_sw:
            r8.missing("switch on the ReadyForQuery status byte ('T','I','E') in Server::recv")
        else:
            arms = {v: t for v, t in st_sw[0].targets}
            writes = {}
            for blk, i, st in rv.assigns():
                if proj_fields(st["lhs"])[-1:] == ["in_transaction"] and st["rv"]["k"] == "use" and const_int(st["rv"].get("op")) is not None:
                    writes.setdefault(blk, const_int(st["rv"]["op"]))
            for code, want, nm in ((84, 1, "T"), (69, 1, "E"), (73, 0, "I")):
                region = {b for b in range(rv.nblocks) if rv.dominates(arms[code], b)}
                got = {v for b, v in writes.items() if b in region}
                r8.check(got == {want}, "status:" + nm, "ReadyForQuery '%s' sets in_transaction = %s" % (nm, bool(want)),
                         "ReadyForQuery '%s' %s: a transaction opened and failed within one round trip (`BEGIN; <failing statement>` as one simple query, or BEGIN piggy-backed on an extended batch) is only ever reported with 'E' - "
                         "the connection would be released with the failed transaction open and the next client's statements run inside it" % (nm, "does not set in_transaction" if not got else "sets in_transaction to %s" % sorted(got)))
            other = sorted({n_ for n_, b_ in F.bodies.items() if not n_.startswith("bin:") and n_ != rv.name and not n_.endswith("Server::startup::{closure#0}") and any(proj_fields(st["lhs"])[-1:] == ["in_transaction"] for blk, i, st in b_.assigns())})
            r8.check(not other, "flag-writers", "in_transaction is written only by Server::recv", "in_transaction is also written by %s" % other)

    # the flag is the status of the LAST request only if the connection is in step with its server: every reader of a server connection that
    # can enter (or come back to) a pool takes whole replies - a prewarm / health-check / clean-up reply that is read in part answers the next
    # client's BEGIN with `idle`, and the connection is released inside that client's transaction
    for key, ok, okmsg, failmsg in whole_reply_findings(F):
        r8.check(ok, "in-step:" + key, okmsg, failmsg + " - from then on the status byte pgcat sees belongs to the previous request: after a client's BEGIN the connection looks idle and is released inside the open transaction")
    for key, ok, okmsg, failmsg in own_request_findings(F)[0]:
        r8.check(ok, "in-step:" + key, okmsg, failmsg)
    # ... the client path included: a reply to CopyDone taken in one piece (round 11) leaves the rest of `COPY ..; SELECT <many rows>` unread while the COPY's
    # CommandComplete has already cleared in_copy_mode and in_transaction still says idle - the release test fires in the middle of the client's reply
    from common import handle_receive_site_findings
    hrs = handle_receive_site_findings(F)
    if not hrs:
        r8.missing("receive_server_message sites of Client::handle")
    for key, ok, okmsg, failmsg, where in hrs:
        r8.check(ok, "in-step:" + key, okmsg, failmsg + " - released in the middle of its transaction's reply, the connection serves the next client while the first one's statement is still being answered", where)
    # what in_transaction says *is* the status byte: cleared for 'I' only (round 10: 'I' | 'E' folded into one arm)
    from common import ready_for_query_status_findings
    rfq = ready_for_query_status_findings(F)
    if rfq is None:
        r8.missing("the ReadyForQuery status switch of Server::recv")
    for key, ok, okmsg, failmsg in rfq or []:
        r8.check(ok, "in-step:" + key, okmsg, failmsg)
    from common import recv_handout_findings
    for key, ok, okmsg, failmsg in recv_handout_findings(F):
        if ok is not None:
            r8.check(ok, "in-step:" + key, okmsg, failmsg + " - with the status byte of the reply's ReadyForQuery still unread, in_transaction is the previous request's")

    # ---------------- R9 a connection abandoned between claim and check-in is not handed on
    r9 = ctx.rule("C01-R9", "a connection that a client claimed and left without a completed checkin_cleanup (any `?` exit of handle between checkout and check-in, a panic, a dropped future) is discarded by the pool: "
                  "Server::is_bad / ServerPool::has_broken answer true on every path while the field set by Server::claim is set (the conditions for clearing it are C02-R1's)", floor=2)
    gate, why = release_gate(F)
    r9.check(gate is not None, "abandoned=>discarded", "is_bad() is true on every path while Server.%s (set by claim) is set" % gate,
             "%s: a client that leaves handle through an error exit while its transaction is open (Bind of an unknown statement, a failed write to the client) returns the connection to the pool as it is, and the next client's statements run inside that transaction" % why)
    exits = 0
    if h:
        claims = h.calls("pgcat::server::Server::claim")
        rets = [c.block for c in h.calls("re:FromResidual<.*>>::from_residual$")]
        cl = h.calls(CLEANUP)
        if claims and cl:
            after = h.reach([claims[0].target])
            exits = len([b for b in rets if b in after])
    r9.check(exits > 0, "relies-on-gate", "%d `?` exits of handle lie between Server::claim and checkin_cleanup and rely on the gate" % exits, "no claim / `?` exits found in handle")

"""C03 — queries and replies are relayed complete, in order and unmodified.
Byte equality over all sizes/segmentations is a runtime-value property and is NOT decided; decided are the
structural conditions without which it cannot hold."""
from mirlib import *
from common import cancelled_io_findings, whole_reply_findings, own_request_findings, recv_handout_findings

H = "pgcat::client::Client::handle::{closure#0}"
RECV = "pgcat::server::Server::recv::{closure#0}"
SEND = "pgcat::server::Server::send::{closure#0}"
SARL = "pgcat::client::Client::send_and_receive_loop::{closure#0}"
RSM = "pgcat::client::Client::receive_server_message"
# operations that change the content of a bytes buffer other than appending / clearing
DESTRUCTIVE = "re:^bytes::bytes_mut::BytesMut::(truncate|split_to|split_off|split|advance|resize|set_len|unsplit|reserve_exact)$|Buf>::(advance|get_[a-z0-9_]+|copy_to_slice|copy_to_bytes)$|^bytes::buf::buf_impl::Buf::(advance|get_[a-z0-9_]+|copy_to_slice|copy_to_bytes)$|IndexMut<.*index_mut$"
APPEND_OK = "re:BufMut>::(put|put_slice|put_u8|put_i32|put_i16)$|^bytes::buf::buf_mut::BufMut::(put|put_slice)$|^bytes::bytes_mut::BytesMut::(extend_from_slice|clear|clone|len|is_empty|first)$|Clone>::clone$|Deref>::deref$|DerefMut>::deref_mut$"


def fields_of(body, op, taint=False):
    return {p[1:] for o in origins(body, op, taint=taint) if o.kind in ("place", "param") for p in o.proj if p.startswith(".") and not p[1:].isdigit()}


def mutators_of(body, is_target):
    """calls that take (a reborrow of) a target buffer by &mut or by value as receiver"""
    out = []
    for c in body.calls():
        if not c.args:
            continue
        if is_target(body, c.args[0]):
            out.append(c)
    return out


def run(ctx):
    F = ctx.facts
    ctx.explanation = ("relay buffers are only appended to, cleared or cloned (who-may-mutate enumeration by receiver provenance), Server::recv copies each message into the relay buffer before it consumes it, "
                       "what is written to the client is the value returned by the receive helper and what is sent to the server is the client's buffer, the receive loops end only on is_data_available()==false and only ReadyForQuery clears that flag, "
                       "and the Sync arm appends the Sync message before sending and clears the buffer only after")
    ctx.assumptions = ["read_message length arithmetic, TLS, the 8 KiB thresholds, COPY chunking and the byte content of synthesized replies are not decided", "tokio's write_all writes the whole slice or fails (library contract)"]
    # ---------------- R1 relay-buffer purity
    r1 = ctx.rule("C03-R1", "the relay buffers (Client.buffer, Server.buffer, the message read from the client, the reply returned by the receive helper) are only appended to, cleared, cloned or read", floor=4)

    def field_target(name):
        return lambda body, op: name in fields_of(body, op) and not (fields_of(body, op) - {name, "0"} - {"read", "write"}) or fields_of(body, op) == {name}
    total = 0
    for fld, owners in (("buffer", ("pgcat::client::", "pgcat::server::Server::")),):
        bad = []
        seen = set()
        for n, b in F.bodies.items():
            if not n.startswith(owners) or "::test::" in n:
                continue
            for c in b.calls():
                if not c.args:
                    continue
                fl = fields_of(b, c.args[0])
                if fl != {fld}:
                    continue
                total += 1
                seen.add(c.name.split("::")[-1])
                if c.is_(DESTRUCTIVE):
                    bad.append(c.where())
        r1.check(not bad, "field:buffer", "Client.buffer / Server.buffer are touched only by %s" % sorted(seen), "a relay buffer is modified destructively: %s" % bad[:3])
    h = ctx.body(H, r1)
    if h:
        # the `message` locals read from the client: after read_message they are only read / appended elsewhere
        msgs = [l for l in h.locals_named("message") if "BytesMut" in h.locals[l]["ty"]]
        bad = []
        for c in h.calls(DESTRUCTIVE):
            v_ = set()
            origins(h, c.args[0], visited=v_)
            if v_ & set(msgs):
                bad.append(c.where())
        r1.check(bool(msgs) and not bad, "local:message", "the client's message is never consumed or truncated in handle (first() / indexing only)", "handle modifies the client's message before forwarding it: %s" % bad[:3])
        resp = [l for l in h.locals_named("response") if "BytesMut" in h.locals[l]["ty"]]
        bad = [c.where() for c in h.calls(DESTRUCTIVE) if (lambda v_: (origins(h, c.args[0], visited=v_), v_ & set(resp))[1])(set())]
        r1.check(not bad, "local:response(handle)", "the CopyDone/CopyFail reply is forwarded untouched", "handle modifies a server reply before forwarding: %s" % bad[:3])
    sl = ctx.body(SARL, r1)
    if sl:
        resp = [l for l in sl.locals_named("response") if "BytesMut" in sl.locals[l]["ty"]]
        bad = [c.where() for c in sl.calls(DESTRUCTIVE) if (lambda v_: (origins(sl, c.args[0], visited=v_), v_ & set(resp))[1])(set())]
        r1.check(bool(resp) and not bad, "local:response(loop)", "send_and_receive_loop forwards each reply chunk untouched", "send_and_receive_loop modifies a reply chunk: %s" % bad[:3])
    ctx.evaluations += total
    # ---------------- R2 copy before consume
    r2 = ctx.rule("C03-R2", "Server::recv appends every message it reads to the relay buffer before it consumes any byte of it", floor=1)
    rc = ctx.body(RECV, r2)
    if rc:
        msg = [l for l in rc.locals_named("message") if "BytesMut" in rc.locals[l]["ty"]]
        puts = [c for c in rc.calls("re:BufMut>::put$|BufMut::put$|put_slice$|extend_from_slice$") if fields_of(rc, c.args[0]) == {"buffer"} and (lambda v_: (origins(rc, c.args[1], visited=v_), v_ & set(msg))[1])(set())]
        cons = [c for c in rc.calls(DESTRUCTIVE, "re:BytesMutReader>::read_string$") if (lambda v_: (origins(rc, c.args[0], visited=v_), v_ & set(msg))[1])(set())]
        ok = bool(puts) and bool(cons) and all(rc.dominates(puts[0].block, c.block) for c in cons)
        r2.check(ok, "put-before-consume", "self.buffer.put(&message[..]) dominates the %d consuming reads of the message" % len(cons), "recv consumes bytes of a message before copying it to the relay buffer: the client would receive a truncated message", puts[0].where() if puts else "")
        # the whole message is copied
        if puts:
            thr = []
            origins(rc, puts[0].args[1], through=thr)
            rng = [ic for ic in thr if re.search(r"Index<.*::index$", ic.name)]
            whole = all(any(o.kind == "agg" and str(o.what).endswith("RangeFull") for o in origins(rc, ic.args[1])) for ic in rng)
            r2.check(whole, "whole-message", "the copy is message[..] (whole)", "only a part of the message is copied to the relay buffer")
        # what is returned is that buffer (clone) and it is cleared afterwards
        rets = [(blk, st) for blk, i, st in rc.assigns() if st["lhs"]["l"] == 0 and st["rv"]["k"] == "agg" and st["rv"].get("variant") == "Ok"]
        okr = any("buffer" in fields_of(rc, st["rv"]["ops"][0], taint=True) for blk, st in rets)
        r2.check(okr, "returns-buffer", "recv returns the accumulated relay buffer", "recv does not return the relay buffer")
    # ---------------- R3 what is written is what was read
    r3 = ctx.rule("C03-R3", "replies written to the client are exactly the value returned by receive_server_message; requests sent to the server are the client's message or Client.buffer; Server::send writes its argument", floor=4)
    for fn, body in (("send_and_receive_loop", sl), ("handle", h)):
        if not body:
            continue
        for c in body.calls("pgcat::messages::write_all_flush"):
            src = {o.call.name for o in origins(body, c.args[1]) if o.kind == "call"}
            fl = fields_of(body, c.args[1])
            if "response_message_queue_buffer" in fl:
                r3.ok("synthesized@%s" % fn, "pooler-synthesised replies (ParseComplete/CloseComplete/ReadyForQuery queue) — documented exception")
                continue
            thr = []
            origins(body, c.args[1], through=thr)
            sliced = [t for t in thr if re.search(r"Index<.*::index$|split|truncate", t.name)]
            r3.check(src == {RSM} and not sliced, "client-write@%s" % fn, "write_all_flush(client, response) forwards the whole value returned by receive_server_message", "the reply written to the client is not the (whole) value returned by receive_server_message: %s %s" % (sorted(src), [t.name for t in sliced]), c.where())
    if sl:
        ssm = sl.calls("pgcat::client::Client::send_server_message")
        if ssm:
            fl = fields_of(sl, ssm[0].args[2])
            prm = {o.what for o in origins(sl, ssm[0].args[2]) if o.kind == "param"}
            r3.check(("buffer" in fl) or bool(prm), "server-write@loop", "the request sent is the caller's message or Client.buffer", "send_and_receive_loop sends something else than the client's message/buffer")
    sd = ctx.body(SEND, r3)
    if sd:
        w = sd.calls("pgcat::messages::write_all_flush")
        okw = bool(w) and any(o.kind in ("param", "place") and o.what == 1 and o.proj and o.proj[0] == ".1" or (o.kind == "param" and o.what == 2) for o in origins(sd, w[0].args[1]))
        thr = []
        if w:
            origins(sd, w[0].args[1], through=thr)
        r3.check(okw and not [t for t in thr if re.search(r"Index<.*::index$", t.name)], "server-send-writes-arg", "Server::send writes exactly its `messages` argument", "Server::send does not write its whole argument")
    # ... and all of it: the write helpers of messages.rs hand their buffer to AsyncWriteExt::write_all, which loops until every byte is taken. A single
    # `write` / `write_buf` / `write_vectored` returns after one poll_write with however many bytes the socket took - under back-pressure (a client that reads
    # slowly, a server whose buffer is full) the tail of the piece is dropped without an error
    nwh = 0
    for fn in ("pgcat::messages::write_all_flush", "pgcat::messages::write_all", "pgcat::messages::write_all_half"):
        wb = F.body(fn + "::{closure#0}")
        if wb is None:
            continue
        nwh += 1
        wcalls = [c for c in wb.calls("re:AsyncWriteExt::(write|write_all|write_buf|write_all_buf|write_vectored|write_u8|write_i32)$")]
        full = [c for c in wcalls if c.name.endswith(("::write_all", "::write_all_buf"))]
        part = [c for c in wcalls if c not in full]
        arg_ok = bool(full) and all(any(o.kind == "param" for o in origins(wb, c.args[1], taint=True)) for c in full)
        r3.check(bool(full) and not part and arg_ok, "writes-everything:" + fn.split("::")[-1], "%s hands its buffer to write_all" % fn.split("::")[-1],
                 "%s writes with %s: one poll_write, the count of bytes taken is not looked at - what the socket did not take at once is lost (a mangled reply for a slow client, a server left waiting for the rest of a large request)"
                 % (fn.split("::")[-1], sorted({c.name.split("::")[-1] for c in part}) or "no write_all"))
    r3.check(nwh >= 3, "write-helpers", "%d write helpers found" % nwh, "write helpers of messages.rs not found (%d)" % nwh)
    # the documented difference - a renamed statement - changes the name and nothing else: Bind::rename patches the client's bytes (clauses shared with C08-R1)
    from common import bind_rename_findings
    for key_, ok_, okm_, fm_ in bind_rename_findings(F):
        if ok_ is None:
            r3.missing(fm_)
        else:
            r3.check(ok_, key_, okm_, fm_)
    rs = ctx.body(RSM + "::{closure#0}", r3)
    if rs:
        oks = [(blk, st) for blk, i, st in rs.assigns() if st["lhs"]["l"] == 0 and st["rv"]["k"] == "agg" and st["rv"].get("variant") == "Ok"]
        okv = bool(oks) and all(any(o.kind == "call" and o.call.name in ("pgcat::server::Server::recv", "tokio::time::timeout::timeout") for o in origins(rs, st["rv"]["ops"][0], taint=True)) for blk, st in oks)
        r3.check(okv, "receive-returns-recv", "receive_server_message returns what Server::recv produced", "receive_server_message returns something else than Server::recv's result")
    # with the statement cache on, the Parse that reaches the server is the one the pool cache holds under the client's Parse's key: it is the client's Parse (but
    # for the name) only if the key covers every field the encoder writes (round 10: parameter types left out of the key - the server is given another client's types)
    from common import parse_cache_key_gap
    gap3, encf3, hashf3 = parse_cache_key_gap(F)
    if gap3 is None:
        r3.missing("Parse encoder / Parse::get_hash")
    else:
        r3.check(not gap3, "cached-parse-is-the-clients-parse", "the pool cache substitutes a Parse only for one that agrees with it in every field the encoder writes (%s)" % sorted(encf3),
                 "Parse.%s is written into the message sent to the server but is not part of the cache key: a client's Parse is replaced by a cached one that differs in it - the server does not receive the bytes "
                 "the client sent (and the Bind that follows is bound to the other statement)" % sorted(gap3))
    # ---------------- R4 read until ReadyForQuery
    r4 = ctx.rule("C03-R4", "a request's reply is forwarded until the server says it is complete: the receive loops are left only on is_data_available()==false, and only ReadyForQuery clears that flag", floor=5)
    for key, ok, okmsg, failmsg in whole_reply_findings(F):
        r4.check(ok, key, okmsg, failmsg)
    orf, n_own = own_request_findings(F)
    r4.check(n_own >= 4, "own-requests", "%d places send a request of pgcat's own and wait for its reply" % n_own, "only %d own-request sites found (4 known)" % n_own)
    for key, ok, okmsg, failmsg in orf:
        r4.check(ok, key, okmsg, failmsg)
    for key, ok, okmsg, failmsg in recv_handout_findings(F):
        if ok is None:
            r4.missing(failmsg)
        else:
            r4.check(ok, key, okmsg, failmsg)
    # every place of Client::handle that takes a reply from the server takes all of it (shared with C01-R8)
    from common import handle_receive_site_findings
    for key, ok_loop, okmsg, failmsg, where in handle_receive_site_findings(F):
        r4.check(ok_loop, key, okmsg, failmsg, where)

    # ---------------- R5 flush point forwards everything buffered
    r5 = ctx.rule("C03-R5", "at Sync the buffered batch plus the Sync message is sent, and Client.buffer is cleared only after the send", floor=2)
    if h:
        hsw = switches(h)
        code_sw = [sw for sw in hsw if sw.ty in ("char", "u32") and any(v == 83 for v, _ in sw.targets) and any(v == 81 for v, _ in sw.targets) and any(v == 100 for v, _ in sw.targets)]
        if not code_sw:
            r5.missing("message-code switch of the transaction loop")
        else:
            starm = [t for v, t in code_sw[0].targets if v == 83][0]
            sends = [c for c in h.calls("pgcat::client::Client::send_and_receive_loop") if h.dominates(starm, c.block)]
            puts = [c for c in h.calls("re:BufMut>::put$|BufMut::put$") if h.dominates(starm, c.block) and fields_of(h, c.args[0]) == {"buffer"}]
            msgput = [c for c in puts if (lambda v_: (origins(h, c.args[1], visited=v_), any("message" in h.varnames.get(l, []) for l in v_))[1])(set())]
            clears = [c for c in h.calls("re:^bytes::bytes_mut::BytesMut::clear$") if h.dominates(starm, c.block) and fields_of(h, c.args[0]) == {"buffer"}]
            if not sends or not msgput:
                r5.fail("sync-appended", "the Sync arm no longer appends the Sync message to Client.buffer before sending")
            else:
                r5.check(all(h.dominates(msgput[0].block, s_.block) for s_ in sends), "sync-appended", "the Sync message is appended before the send", "the send happens before the Sync message is appended")
                rmb = [c.block for c in h.calls("pgcat::messages::read_message")]
                mheads = [hd for hd in loop_headers(h) if any(b_ in natural_loop(h, hd) for b_ in rmb)]
                after_put = h.reach([msgput[0].target], avoid_blocks=mheads)
                okc = bool(clears) and not any(c.block in after_put and any(s_.block in h.reach([c.target], avoid_blocks=mheads) for s_ in sends) for c in clears)
                r5.check(okc, "clear-after-send", "Client.buffer is cleared only after the send", "Client.buffer is cleared between appending and sending (the batch would be lost)")
                # what was appended for this batch does not outlive it: every way from the append of Sync to the next client message passes the clear
                # (round 6: the clear moved under `if should_send_to_server`, a batch pgcat answers itself left its Sync in the buffer and every later
                # batch of the client started with it - nothing was sent to the server any more)
                w5 = h.uncrossed_path([msgput[0].target], mheads, blocks=[c.block for c in clears])
                r5.check(bool(clears) and w5 is None, "buffer-empty-before-next-message", "after the Sync arm Client.buffer is empty on every path to the next client message",
                         "the Sync arm can go on to the next client message with its batch still in Client.buffer (when it answered the batch itself): the next batch is appended behind a stale Sync, "
                         "the first-byte test takes it for `nothing to send` and the server receives nothing for it", "", w5 and h.describe_path(w5))
                # the loop that drains the buffered batch precedes the append of Sync
                drain = [c for c in h.calls("re:VecDeque::.*pop_front$") if h.dominates(starm, c.block)]
                r5.check(bool(drain) and all(c.block in h.backreach([msgput[0].block]) for c in drain), "drain-before-sync", "the buffered extended-protocol messages are drained into the buffer before Sync is appended", "the buffered batch is not drained before Sync is appended")
            # order: an arm of the transaction loop that appends to Client.buffer forwards only Client.buffer. A message kind that is
            # buffered must never overtake what is already pending (same bytes, different order, is a different stream)
            arms_ = sorted({t for v, t in code_sw[0].targets})
            n_arm = 0
            for arm in arms_:
                codes = sorted(chr(v) for v, t in code_sw[0].targets if t == arm)
                appends = [c for c in h.calls("re:BufMut>::put$|BufMut::put$|put_slice$|extend_from_slice$") if h.dominates(arm, c.block) and fields_of(h, c.args[0]) == {"buffer"}]
                if not appends:
                    continue
                n_arm += 1
                direct = []
                for c in h.calls("pgcat::client::Client::send_server_message", "pgcat::client::Client::send_and_receive_loop", "pgcat::server::Server::send"):
                    if not h.dominates(arm, c.block):
                        continue
                    payload = c.args[2] if c.name.endswith(("send_server_message", "send_and_receive_loop")) else c.args[1]
                    if c.name.endswith("send_and_receive_loop"):
                        # Option<&BytesMut>: None means "Client.buffer"
                        ag = [o for o in origins(h, payload) if o.kind == "agg"]
                        is_none = any(o.kind == "agg" and (o.extra or {}).get("variant") == "None" for o in origins(h, payload)) or any(o.kind == "const" for o in origins(h, payload))
                        fl = fields_of(h, payload, taint=True)
                        if is_none or fl == {"buffer"}:
                            continue
                        direct.append(c)
                    elif fields_of(h, payload) != {"buffer"}:
                        direct.append(c)
                r5.check(not direct, "arm-forwards-buffer:" + "".join(codes), "the %s arm appends to Client.buffer and forwards only Client.buffer" % "/".join(codes),
                         "the %s arm appends to Client.buffer but also forwards something else directly: bytes already pending in the buffer are overtaken and reach the server out of order" % "/".join(codes),
                         direct[0].where() if direct else "")
            # ... and the same holds between the two places pending requests wait in: Parse / Bind / Describe / Execute / Close wait in the batch buffer
            # (extended_protocol_data_buffer) for their Sync. A request that is sent at once - a simple Query - must not go out while that buffer holds
            # messages the client sent before it: every way from the Query arm to its send finds the batch buffer empty or passes its replay (D84: it does not)
            qarm = [t for v, t in code_sw[0].targets if v == 81]
            if not qarm:
                r5.missing("Query arm of the transaction loop")
            else:
                qsends = [c for c in h.calls("pgcat::client::Client::send_and_receive_loop", "pgcat::client::Client::send_server_message") if h.dominates(qarm[0], c.block)]
                emptyT = set()
                for sw_, o_, te_, fe_ in bool_value_edges(h, lambda o: o.kind == "call" and re.search(r"VecDeque.*::is_empty$", o.call.name) is not None
                                                              and "extended_protocol_data_buffer" in fields_of(h, o.call.args[0]), hsw):
                    emptyT.add(te_)
                replay = [c.block for c in h.calls("re:VecDeque.*::(pop_front|drain)$") if "extended_protocol_data_buffer" in fields_of(h, c.args[0]) and h.dominates(qarm[0], c.block)]
                wq = h.uncrossed_path([qarm[0]], [c.block for c in qsends], edges=emptyT, blocks=replay) if qsends else [0]
                r5.check(bool(qsends) and wq is None, "query-does-not-overtake-a-pending-batch", "the Query arm sends only when no extended-protocol message is pending in the batch buffer (or after replaying it)",
                         "the Query arm sends its message without looking at the batch buffer: `Parse, Bind, Execute, Query, Sync` reaches the server as `Query, Parse, Bind, Execute, Sync` - the same bytes in another order "
                         "(PostgreSQL runs P B E before the Query; here the statement of the batch runs after the query that was meant to see it, in transaction mode on whichever connection the Sync gets)",
                         qsends[0].where() if qsends else "")
            r5.check(n_arm >= 3, "buffering-arms", "%d arms of the transaction loop append to Client.buffer (Sync, CopyData, CopyDone/CopyFail)" % n_arm, "expected >= 3 buffering arms, found %d" % n_arm)

    # ---------------- R6 a framed message is read whole
    r6 = ctx.rule("C03-R6", "read_message returns a message of exactly the announced length: after the header every path to an Ok return passes an exact read (read_exact) of a buffer sized from the length field; "
                  "partial-read loops with a hand-written termination test are not accepted", floor=2)
    rmb = ctx.body("pgcat::messages::read_message::{closure#0}", r6)
    if rmb:
        oks = [blk for blk, i, st in rmb.assigns() if st["lhs"]["l"] == 0 and not st["lhs"]["p"] and st["rv"]["k"] == "agg" and st["rv"].get("variant") == "Ok"]
        rex = [c for c in rmb.calls("re:AsyncReadExt::read_exact$|read_exact$")]
        partial = [c for c in rmb.calls("re:AsyncReadExt::(read_buf|read|read_to_end|take)$")]
        w = rmb.uncrossed_path([0], oks, blocks=[c.block for c in rex]) if rex else [0]
        r6.check(bool(rex) and bool(oks) and w is None, "body-read-exact", "every Ok return of read_message follows a read_exact of the body", "read_message can return Ok without an exact read of the body (a short message with a length field that claims more: the rest is then framed as the next message)",
                 "", w and rmb.describe_path(w))
        r6.check(not partial, "no-partial-read-loop", "read_message uses no partial reads", "read_message reads the body with partial reads (%s): the termination test is hand-written and not checked here" % sorted({c.name.split("::")[-1] for c in partial}),
                 partial[0].where() if partial else "")
        # the buffer handed to read_exact is sized from the length field: resize(.. len ..) precedes it
        rs = [c for c in rmb.calls("re:BytesMut::resize$")]
        okr = bool(rs) and bool(rex) and all(rmb.dominates(rs[0].block, c.block) for c in rex) and any(o.kind == "call" and re.search(r"read_i32$", o.call.name) for o in origins(rmb, rs[0].args[1], taint=True))
        r6.check(okr, "body-sized-from-length", "the body buffer is sized from the length field before it is read", "the buffer read into is not sized from the message's length field")

    # ---------------- R7 a reply whose read was cancelled is never resumed
    r7 = ctx.rule("C03-R7", "Server::recv is not cancel-safe (the code byte, the length and the part of the body already taken off the socket live in the cancelled future): "
                  "wherever a timeout is put around a server read on the relay path, the elapsed arm marks the connection bad before the connection is read again or the function returns - "
                  "a resumed read would frame the rest of the body as a new message and relay a well-formed but different reply", floor=1)
    n = 0
    for fn, ok, where, wit in cancelled_io_findings(F, scope=lambda n_: n_.startswith("pgcat::client::")):
        n += 1
        short = fn.split("::")[-2] if fn.endswith("{closure#0}") else fn.split("::")[-1]
        r7.check(ok, "cancelled-read=>bad:" + short, "the elapsed arm of the timeout around the server read marks the connection bad before any further use", "after the timeout cancelled a server read mid-message the connection is read again (or handed on) without being marked bad", where, wit)
    if n == 0:
        r7.missing("timeout around Server::recv on the client path")

    # ---------------- R8 a client read that was cancelled mid-message ends the client (D40)
    r8 = ctx.rule("C03-R8", "read_message is not cancel-safe either (code byte, length and the part of the body already read live in the cancelled future): wherever Client::handle puts a timeout around it, "
                  "the elapsed arm leaves handle without reading from that client again - otherwise the rest of the interrupted message is framed as new messages and forwarded to a server as requests the client never sent", floor=1)
    hh8 = ctx.body("pgcat::client::Client::handle::{closure#0}", r8)
    if hh8:
        sw8 = switches(hh8)
        reads8 = [c.block for c in hh8.calls("pgcat::messages::read_message", "re:AsyncBufReadExt::fill_buf$|AsyncReadExt::read(_exact|_u8|_i32|_buf)?$")]
        n8 = 0
        for t in hh8.calls("re:^tokio::time::timeout::timeout$"):
            if not any(o.kind == "call" and o.call.name == "pgcat::messages::read_message" for o in origins(hh8, t.args[1])):
                continue
            n8 += 1
            el, _, _ = discr_edges(hh8, r"core::result::Result<.*Elapsed>", "Err", origin_pred=lambda o, t=t: o.kind == "call" and o.call.block == t.block, switches_cache=sw8)
            if not el:
                r8.fail("cancelled-client-read=>gone#%d" % n8, "cannot find the elapsed arm of the timeout around read_message", t.where())
                continue
            w8 = hh8.uncrossed_path([d for _, d in el], reads8)
            r8.check(w8 is None, "cancelled-client-read=>gone#%d" % n8, "after the deadline cancelled read_message the client is not read again (handle returns)",
                     "after the deadline cancelled read_message (possibly in the middle of a message) handle goes on reading the same client: the unread rest of the message is taken for new messages", t.where(), w8 and hh8.describe_path(w8))
        if n8 == 0:
            r8.missing("timeout around read_message in Client::handle")
        # a select! cancels its losing branches just the same (D85: the shutdown branch of the idle loop goes on reading an admin's socket)
        from common import select_cancelled_read_findings
        for key_, ok_, good_, bad_, where_ in select_cancelled_read_findings(F) or []:
            r8.check(ok_, key_, good_, bad_, where_)

    # ---------------- R9 the end of a COPY is awaited the way it was begun (D41)
    r9 = ctx.rule("C03-R9", "a COPY .. FROM STDIN started by Execute in an extended batch is answered, after CopyDone, with CommandComplete only - ReadyForQuery comes after the Sync that libpq sends next; "
                  "a COPY started by a simple Query is answered up to ReadyForQuery at once. The CopyDone/CopyFail arm of the transaction loop must therefore know how the COPY began "
                  "(a value written in the Sync arm and tested before the arm waits for the server) - waiting for ReadyForQuery in both cases deadlocks the extended case: the Sync that would produce it is never read", floor=1)
    if hh8:
        code_sw = [sw for sw in sw8 if sw.ty in ("char", "u32") and {v for v, _ in sw.targets} >= {81, 83, 100, 99}]
        if not code_sw:
            r9.missing("message-code switch in Client::handle")
        else:
            arms = {v: t for v, t in code_sw[0].targets}
            s_arm, c_arm = arms.get(83), arms.get(99)
            waits = [c for c in hh8.calls("pgcat::client::Client::receive_server_message", "pgcat::client::Client::send_and_receive_loop", "pgcat::server::Server::recv") if hh8.dominates(c_arm, c.block)]
            s_region = {b_ for b_ in range(hh8.nblocks) if hh8.dominates(s_arm, b_)}
            written = set()
            for b_, i, st in hh8.assigns():
                if b_ in s_region:
                    if not st["lhs"]["p"]:
                        written |= {("local", "_%d %s" % (st["lhs"]["l"], "/".join(hh8.varnames.get(st["lhs"]["l"], ())))) for _ in [0] if hh8.varnames.get(st["lhs"]["l"])}
                    else:
                        fs = proj_fields(st["lhs"])
                        if fs:
                            written.add(("field", fs[-1]))
            tested = set()
            for sw in sw8:
                if not hh8.dominates(c_arm, sw.block) or not any(w.block in hh8.reach([sw.block]) for w in waits):
                    continue
                vis = set()
                for o in origins(hh8, hh8.blocks[sw.block]["term"]["op"], visited=vis, taint=True):
                    if o.kind in ("place", "param"):
                        tested |= {("field", p_[1:]) for p_ in o.proj if p_.startswith(".") and not p_[1:].isdigit()}
                tested |= {("local", "_%d %s" % (l, "/".join(hh8.varnames.get(l, ())))) for l in vis if isinstance(l, int) and hh8.varnames.get(l)}
            shared = sorted(x for x in (written & tested) if x[1] not in ("buffer", "message", "code", "server", "self", "stats"))
            if not waits:
                r9.missing("wait for the server in the CopyDone arm")
            else:
                r9.check(bool(shared), "copy-end-knows-how-the-copy-began", "the CopyDone arm tests %s, written by the Sync arm, before it waits for the server" % shared,
                         "the CopyDone/CopyFail arm waits for the server's ReadyForQuery whatever started the COPY (nothing the Sync arm records is tested in it): for a COPY started through the extended protocol "
                         "(libpq: Parse/Bind/Execute/Sync, data, CopyDone, Sync) the server answers CommandComplete and waits for the Sync, pgcat waits for ReadyForQuery and never reads that Sync - both sides hang", waits[0].where())

    # ---------------- R10 every kind of request has a handler
    r10 = ctx.rule("C03-R10", "`for every client request ...`: the frontend messages of the protocol that ask the server for something each have an arm in the transaction loop of Client::handle - "
                   "Query, Parse, Bind, Describe, Execute, Close, Sync, Flush, FunctionCall, CopyData, CopyDone, CopyFail, Terminate; a kind without an arm falls into `_ =>`, is not forwarded and never answered", floor=10)
    hh10 = F.body(H)
    if hh10 is None:
        r10.missing("Client::handle")
    else:
        claim10 = hh10.calls("pgcat::server::Server::claim")
        codesw = [sw for sw in switches(hh10) if sw.ty in ("char", "u8", "u32") and len(sw.targets) >= 6 and claim10 and hh10.dominates(claim10[0].block, sw.block)]
        if not codesw:
            r10.missing("switch on the message code in the transaction loop")
        else:
            have = {chr(v) for v, _ in max(codesw, key=lambda sw: len(sw.targets)).targets if 0 < v < 128}
            NAMES = {"Q": "Query", "P": "Parse", "B": "Bind", "D": "Describe", "E": "Execute", "C": "Close", "S": "Sync", "H": "Flush", "F": "FunctionCall", "d": "CopyData", "c": "CopyDone", "f": "CopyFail", "X": "Terminate"}
            for code_, nm_ in sorted(NAMES.items()):
                r10.check(code_ in have, "frontend-message-arm:" + code_, "%s ('%s') has an arm in the transaction loop" % (nm_, code_),
                          "%s ('%s') has no arm in the transaction loop of Client::handle: the message checks a server out, reaches `_ => error!(\"Unexpected code\")`, nothing is sent to the server and the client "
                          "is never answered%s" % (nm_, code_, " - `Parse, Describe, Flush` (prepare a statement and look at it before binding) waits for ever, holding a server connection" if code_ == "H" else ""))

"""C12 — a client's session parameters follow it across server connections."""
from mirlib import *
from c08 import decode_template

H = "pgcat::client::Client::handle::{closure#0}"
SYNC = "pgcat::server::Server::sync_parameters"
SYNCC = SYNC + "::{closure#0}"
RECV = "pgcat::server::Server::recv"
RECVC = RECV + "::{closure#0}"
SET_PARAM = "pgcat::server::ServerParameters::set_param"
STARTUP = "pgcat::client::Client::startup::{closure#0}"
FIVE = {"client_encoding", "DateStyle", "TimeZone", "standard_conforming_strings", "application_name"}
SERVER_IO = ("pgcat::client::Client::send_and_receive_loop", "pgcat::client::Client::send_server_message", "pgcat::client::Client::receive_server_message",
             "pgcat::client::Client::ensure_prepared_statement_is_on_server", "pgcat::client::Client::register_parse_to_server_cache",
             "pgcat::server::Server::send", "pgcat::server::Server::recv", "pgcat::server::Server::query")


def quoting_clauses(ctx, r2, F):
    """the SET statements sync_parameters builds from a client's start-up parameters: how each value is placed into the SQL text
    (shared by C12-R2: values arrive as written, and C11-R14: a value cannot end its constant and run as SQL)"""
    F = ctx.facts
    sc = ctx.body(SYNCC, r2)
    if sc:
        fmts = sc.calls("re:^core::fmt::Arguments::.*new")
        found = False
        for fc in fmts:
            tb = None
            for o in origins(sc, fc.args[0]):
                if o.kind == "const" and o.extra and "bytes" in o.extra:
                    tb = bytes(o.extra["bytes"])
            if tb is None or b"SET" not in tb.upper():
                continue
            found = True
            tmpl = decode_template(tb)
            # the array of Argument values, in order
            arg_ops = []
            for o in origins(sc, fc.args[1]):
                if o.kind == "agg" and o.extra.get("agg") == "array":
                    arg_ops = o.extra["ops"]
            k = -1
            prev = b""
            for kind, lit in tmpl:
                if kind == "lit":
                    prev = lit
                    continue
                k += 1
                quoted = prev.endswith(b"'")
                prev_full = prev
                prev = b""
                if k >= len(arg_ops):
                    r2.fail("template-args", "cannot pair placeholders with arguments")
                    break
                disp = [o.call for o in origins(sc, arg_ops[k]) if o.kind == "call" and "Argument" in o.call.name]
                src_calls = set()
                raw = False
                for dc in disp:
                    for o in origins(sc, dc.args[0]):
                        if o.kind == "call":
                            src_calls.add(o.call.name)
                            if re.search(r"(IntoIter|Iter|IterMut).*::next$|HashMap::.*get$|Iterator::next$", o.call.name):
                                raw = True
                if quoted:
                    # which characters are escaped on the way: follow the chain of str::replace calls
                    escaped = {}
                    todo, seen_c = list(disp), set()
                    while todo:
                        dc = todo.pop()
                        for o in origins(sc, dc.args[0]):
                            if o.kind == "call" and o.call.block not in seen_c:
                                seen_c.add(o.call.block)
                                if re.search(r"str::<impl str>::replace$|str>::replacen?$", o.call.name):
                                    pat = const_int(o.call.args[1])
                                    pat = chr(pat) if isinstance(pat, int) and 0 < pat < 0x110000 else (arg_strs(sc, o.call) or [None])[0]
                                    rep = [x for x in arg_strs(sc, o.call) if x != pat]
                                    for oo in origins(sc, o.call.args[2]):
                                        if oo.kind == "const" and isinstance(oo.what, str):
                                            rep.append(oo.what)
                                    escaped[pat] = rep[0] if rep else None
                                    todo.append(o.call)
                    estring = prev_full.upper().endswith(b"E'")
                    if estring:
                        okq = escaped.get("'") in ("''", "\\'") and escaped.get("\\") == "\\\\"
                        r2.check(okq, "escape-string-constant#%d" % k, "E'...' constant with backslash and quote escaped (%s)" % sorted(escaped.items(), key=str),
                                 "the value is placed in an E'...' constant without escaping both the backslash and the quote (escaped: %s)" % sorted(escaped.items(), key=str), fc.where())
                    else:
                        r2.check(False, "escape-string-constant#%d" % k, "",
                                 "the client-supplied value is placed in a plain '...' constant: how the server reads a backslash there depends on the session's standard_conforming_strings, one of the very parameters pgcat "
                                 "tracks and sets per client - on a connection left with `off` a value like `x\\'; SET statement_timeout TO 1; --` ends the constant early and its tail runs as SQL for the next clients", fc.where())
                    r2.check(not raw and bool(src_calls), "quoted-placeholder#%d" % k, "the value inside '...' passes through %s before being formatted" % sorted(x.split("::")[-1] for x in src_calls),
                             "a tracked parameter value flows straight from the parameter map into `SET .. TO '<value>'`: a value containing a quote (application_name = O'Reilly) yields a syntax error that query() swallows, and the server keeps the previous client's value", fc.where())
                else:
                    r2.ok("placeholder#%d" % k, "unquoted placeholder (parameter name from the tracked set)")
        if not found:
            r2.missing("format!(\"SET .. TO ..\") in sync_parameters")
    return sc


def sync_result_clauses(ctx, r1, F):
    """Server::sync_parameters tells its caller the truth about what the server answered to pgcat's own SETs (shared by C12-R1: the client's statements
    run under the client's values, and C02: the session the previous client left is not handed on under a new name)"""
    scb = ctx.body(SYNCC, r1)
    rvb = F.body("pgcat::server::Server::recv::{closure#0}")
    if scb and rvb:
        rsw_ = switches(rvb)
        code_sw_ = [sw for sw in rsw_ if sw.ty in ("char", "u8", "u32") and {v for v, _ in sw.targets} >= {90, 69, 67}]
        flags = set()
        if code_sw_:
            earm = dict(code_sw_[0].targets)[69]
            for blk, i, st in rvb.assigns():
                if rvb.dominates(earm, blk) and st["rv"]["k"] == "use" and const_int(st["rv"].get("op")) == 1:
                    f = proj_fields(st["lhs"])[-1:]
                    if f and f[0] not in ("bad", "data_available", "in_copy_mode", "in_transaction"):
                        flags.add(f[0])
        qc = scb.calls("pgcat::server::Server::query")
        oks = [blk for blk, i, st in scb.assigns() if st["lhs"]["l"] == 0 and not st["lhs"]["p"] and (st["rv"]["k"] == "agg" and st["rv"].get("variant") == "Ok" or st["rv"]["k"] == "use")]
        ssw_ = switches(scb)
        okE = set()
        for f in flags:
            t_, f_ = field_bool_edges(scb, f, ssw_)
            okE |= {e for e in f_ if any(e[0] in scb.reach([q.target]) for q in qc if q.target is not None)}
        marks_ = [c.block for c in scb.calls("pgcat::server::Server::mark_bad")]
        # the query itself failed (I/O): its Err is what is returned
        _t, isok_f, _ = call_bool_edges(scb, "core::result::Result::is_ok", switches_cache=ssw_)
        iserr_t, _f, _ = call_bool_edges(scb, "core::result::Result::is_err", switches_cache=ssw_)
        errE_, _o, _ = discr_edges(scb, r"core::result::Result<\(\), pgcat::errors::Error>", "Err", switches_cache=ssw_)
        okE |= set(isok_f) | set(iserr_t) | set(errE_)
        if qc:
            rets_ = [bb for bb, blk in enumerate(scb.blocks) if blk["term"]["k"] == "return"]
            # returns reached after the query without having seen "no ErrorResponse" and without giving the connection up
            w_ = scb.uncrossed_path([q.target for q in qc if q.target is not None], rets_, edges=okE, blocks=marks_)
            # ... nor go on to a further query of its own: Server::query() starts by clearing the flag, what an earlier statement was answered is gone with it
            flagE = okE - (set(isok_f) | set(iserr_t) | set(errE_))
            w2_ = scb.uncrossed_path([q.target for q in qc if q.target is not None], [q.block for q in qc], edges=flagE, blocks=marks_ + rets_)
            r1.check(w2_ is None, "sync-each-statement-verified", "no further query of sync_parameters is sent before the answer to the previous one was looked at",
                     "sync_parameters sends a further query without having looked at Server.%s after the previous one: query() clears the flag when it starts, so only the last SET's answer is ever seen - a value the server "
                     "refuses (TimeZone=Mars/Phobos) followed by an accepted one is reported as success, and the client's statements run under the previous client's value" % sorted(flags), qc[0].where(), w2_ and scb.describe_path(w2_))
            r1.check(bool(flags) and bool(okE) and w_ is None, "sync-result-verified", "sync_parameters returns after its query only where the server sent no ErrorResponse (Server.%s), or gives the connection up" % sorted(flags),
                     "sync_parameters reports success whatever the server answered: a tracked parameter value the server refuses (a client that announced DateStyle=bogus) rolls the whole multi-statement SET back, "
                     "and the client's statements run under the previous client's application_name / TimeZone / ...", qc[0].where(), w_ and scb.describe_path(w_))


def run(ctx):
    F = ctx.facts
    ctx.explanation = ("ordering of sync_parameters before any client byte is sent to a freshly borrowed server, direct-flow taint of parameter values into the quoted SQL literal "
                       "(format_args template decoded from the compiled constant), ParameterStatus handling updating both maps, startup merge, and agreement of the tracked set")
    ctx.assumptions = ["which values PostgreSQL reports back in ParameterStatus is not modelled", "an intervening call between the map entry and the SQL literal is taken to be an escaper (its correctness is not evaluated)"]
    # ---------------- R1
    r1 = ctx.rule("C12-R1", "after a checkout, Server::sync_parameters(client's parameters) runs before anything of the client is sent to that server", floor=2)
    h = ctx.body(H, r1)
    if h:
        syncs = h.calls(SYNC)
        claim = h.calls("pgcat::server::Server::claim")
        gets = h.calls("pgcat::pool::ConnectionPool::get")
        if not syncs or not claim or not gets:
            r1.missing("sync_parameters / claim / get in handle")
        else:
            io = [c.block for c in h.calls(*SERVER_IO)]
            rm = [c.block for c in h.calls("pgcat::messages::read_message")]
            wit = h.uncrossed_path([gets[0].block], io, blocks=[syncs[0].block])
            r1.check(wit is None, "sync-before-io", "every path from the checkout to a server send/receive passes sync_parameters", "client traffic can reach a freshly borrowed server before its parameters are synchronised", "", wit and h.describe_path(wit))
            fl = {p for o in origins(h, syncs[0].args[1]) if o.kind in ("place", "param") for p in o.proj if p.startswith(".")}
            r1.check(".server_parameters" in fl, "sync-arg", "sync_parameters receives the client's server_parameters", "sync_parameters does not receive Client.server_parameters (%s)" % sorted(fl))
            recv_ = {o.call.name for o in origins(h, syncs[0].args[0]) if o.kind == "call"}
            r1.check("pgcat::pool::ConnectionPool::get" in recv_, "sync-receiver", "sync_parameters is called on the server just checked out", "sync_parameters receiver does not derive from the checkout")
            # its error is propagated (a failed sync must not be followed by client traffic)
            contE, brkE, _ = discr_edges(h, r"ControlFlow<", "Continue", origin_pred=lambda o: o.kind == "call" and o.call.name == SYNC)
            wit = h.uncrossed_path([syncs[0].block], io, edges=contE)
            r1.check(bool(contE) and wit is None, "sync-ok-before-io", "client traffic follows only a successful sync", "client traffic can follow a failed sync_parameters")
    # ---------------- R2
    # "successful" means the server took the values: Server::query returns Ok whatever the server answered, and the SETs are one
    # multi-statement query (one implicit transaction: a refused value rolls the others back, the connection keeps the previous client's)
    sync_result_clauses(ctx, r1, F)

    r2 = ctx.rule("C12-R2", "in sync_parameters a parameter value is not interpolated raw into a quoted SQL literal", floor=2)
    sc = quoting_clauses(ctx, r2, F)
    if sc:
        # keys come from the tracked set only
        cp = F.body("pgcat::server::ServerParameters::compare_params")
        if cp:
            st = {o.what for c in cp.calls("re:HashSet.*::iter$") for o in origins(cp, c.args[0]) if o.kind == "static"}
            r2.check("pgcat::server::TRACKED_PARAMETERS" in st, "keys-from-tracked-set", "the SET statements are generated for keys of TRACKED_PARAMETERS only", "compare_params no longer iterates TRACKED_PARAMETERS")
    # ---------------- R3
    r3 = ctx.rule("C12-R3", "a ParameterStatus from the server updates the server's map and, for client traffic, the client's map; only client traffic passes the client's map", floor=4)
    rc = ctx.body(RECVC, r3)
    if rc:
        sps = rc.calls(SET_PARAM)
        recvs_self = [c for c in sps if any(o.kind in ("place", "param") and ".server_parameters" in o.proj for o in origins(rc, c.args[0]))]
        recvs_client = [c for c in sps if c not in recvs_self]
        r3.check(len(recvs_self) >= 1 and len(recvs_client) >= 1, "both-maps", "recv calls set_param on self.server_parameters and on the caller's map", "recv updates %d server-side and %d client-side map(s) on ParameterStatus" % (len(recvs_self), len(recvs_client)))
        # both under the 'S' (83) arm of the message-code switch
        code_sw = [sw for sw in switches(rc) if sw.ty in ("char", "u8", "u32") and any(v == 83 for v, _ in sw.targets) and any(v == 90 for v, _ in sw.targets)]
        if not code_sw:
            r3.missing("message-code switch in recv")
        else:
            tgt = [t for v, t in code_sw[0].targets if v == 83][0]
            r3.check(all(rc.dominates(tgt, c.block) for c in sps), "under-S-arm", "both updates are in the ParameterStatus ('S') arm", "parameter updates outside the 'S' arm")
            # key and value come from the message
            ok = all({o.call.name.split("::")[-1] for a in c.args[1:3] for o in origins(rc, a, taint=True) if o.kind == "call"} >= {"read_string"} for c in sps)
            r3.check(ok, "from-message", "key and value are read from the ParameterStatus message", "set_param arguments do not come from the message")
            # client map update is on the Some edge of the optional argument, startup=false
            # the server connection's own record is updated on every ParameterStatus (sync_parameters diffs against it)
            heads_ = loop_headers(rc)
            lh_ = [hd for hd in heads_ if tgt in natural_loop(rc, hd)]
            rets_ = [bb for bb, blk in enumerate(rc.blocks) if blk["term"]["k"] == "return"]
            wit_ = rc.uncrossed_path([tgt], lh_ + rets_, blocks=[c.block for c in recvs_self])
            r3.check(bool(recvs_self) and wit_ is None, "server-record-always-updated", "every ParameterStatus updates the server connection's own parameter record",
                     "a ParameterStatus can be applied to the client's map only: the server connection's record goes stale, sync_parameters then sees no difference for the next client and its statements run with another client's value", "", wit_ and rc.describe_path(wit_))
            r3.check(all(const_int(c.args[3]) == 0 for c in sps), "not-startup", "ParameterStatus updates use startup=false (tracked parameters only)", "ParameterStatus updates are applied with startup=true")
    # the record is what the server last reported, nothing else: apart from the ParameterStatus arm it is never rewritten - not wholesale either. (round 10: `back
    # to the startup values` at check-in, also after a clean-up that sent no RESET ALL - the SETs sync_parameters left on the session stay in force, the record says
    # they are gone, and the next client's sync sees nothing to do.) A whole-record write is accepted only where the clean-up for SET is known to have run
    whole = []
    for w_, blk_, st_ in F.field_writes(lambda ff, bb, ss: ff == "server_parameters"):
        if not w_.name.startswith("pgcat::server::Server::") or w_.name.startswith("pgcat::server::Server::startup"):
            continue
        sT, _sF = field_bool_edges(w_, "needs_cleanup_set", switches(w_))
        under_set = bool(sT) and w_.uncrossed_path([0], [blk_], edges=sT) is None
        whole.append((w_.name.replace("pgcat::server::Server::", "").replace("::{closure#0}", ""), under_set))
    badw = sorted(n_ for n_, ok_ in whole if not ok_)
    r3.check(not badw, "record-rewritten-only-by-reports", "Server.server_parameters is assigned as a whole only when the connection is opened%s" % (" (and where needs_cleanup_set was found true: %s)" % [n_ for n_, ok_ in whole if ok_] if whole else ""),
             "Server.server_parameters is overwritten in %s, not under `the session was reset (needs_cleanup_set)`: the record no longer says what the session's values are - values sync_parameters set for the "
             "previous client stay in force while the record shows the defaults, the next client's sync sends no SET for them and its statements run under the previous client's TimeZone / DateStyle / ..." % badw)
    # who passes Some / None
    for fn, want in (("pgcat::client::Client::receive_server_message::{closure#0}", "Some"), ("pgcat::server::Server::query::{closure#0}", "None"),
                     ("pgcat::server::Server::register_prepared_statement::{closure#0}", "None")):
        b = ctx.body(fn, r3)
        if not b:
            continue
        for c in b.calls(RECV):
            variants = {o.extra.get("variant") for o in origins(b, c.args[1]) if o.kind == "agg" and "option::Option" in str(o.what)}
            okv = variants == {want}
            extra = ""
            if want == "Some":
                fl = {p for o in origins(b, c.args[1]) if o.kind in ("place", "param") for p in o.proj if p.startswith(".")}
                okv = okv and ".server_parameters" in fl
            r3.check(okv, "recv-arg:%s" % fn.split("::")[-2], "%s passes %s to recv" % (fn.split("::")[-2], "Some(&mut self.server_parameters)" if want == "Some" else "None"),
                     "%s passes %s to recv (expected %s)" % (fn.split("::")[-2], sorted(variants), want), c.where())
    # ---------------- R4
    r4 = ctx.rule("C12-R4", "at login the client is told the pool's server parameters merged with its own startup parameters, and keeps exactly that map", floor=3)
    s = ctx.body(STARTUP, r4)
    if s:
        sfh = s.calls("pgcat::server::ServerParameters::set_from_hashmap")
        wa = []
        for c in s.calls("pgcat::messages::write_all"):
            v_ = set()
            origins(s, c.args[1], visited=v_)
            if any(s.locals[l]["ty"] == "pgcat::server::ServerParameters" for l in v_):
                wa.append(c)
        if not sfh or not wa:
            r4.missing("set_from_hashmap / write_all(server_parameters) in startup")
        else:
            r4.check(s.dominates(sfh[0].block, wa[0].block), "merge-before-tell", "set_from_hashmap(startup parameters) precedes writing the ParameterStatus block", "the client is told its parameters before the startup parameters are merged")
            src = {o.call.name for o in origins(s, sfh[0].args[0], taint=True) if o.kind == "call"}
            r4.check("pgcat::pool::ConnectionPool::server_parameters" in src, "from-pool", "the base map is the pool's server parameters", "the base map does not come from ConnectionPool::server_parameters()")
            psrc = {o.call.name for o in origins(s, sfh[0].args[1], taint=True) if o.kind == "call"}
            r4.check("pgcat::messages::parse_startup" in psrc, "from-startup-packet", "the merged map is the client's startup packet", "set_from_hashmap does not receive the startup parameters")
            v1, v2 = set(), set()
            origins(s, sfh[0].args[0], visited=v1)
            for b_, blk, st in F.aggregates("pgcat::client::Client"):
                if b_ is s:
                    origins(s, st["rv"]["ops"][st["rv"]["fields"].index("server_parameters")], visited=v2)
            r4.check(bool({l for l in v1 & v2 if s.varnames.get(l)}), "kept", "the Client keeps the merged map", "the Client is built with a different parameter map than the one sent to it")
    # ... and the pool's map is the servers' own: ConnectionPool::validate fills it from what a server reported when its connection was opened - a record no client's
    # SET ever touches - not from the connection's live record, which follows the clients (a pool rebuilt by a reload is used, unvalidated, by the clients connected
    # before it; the next new client's validate() finds a used connection). And nothing sets `validated` back to false (D79)
    vt = [b_ for n_, b_ in F.bodies.items() if n_.startswith("pgcat::pool::ConnectionPool::validate::{closure#0}")]
    tmpl_ok, tmpl_why = False, "the store into original_server_parameters was not found in ConnectionPool::validate"
    for b_ in vt:
        for blk, i, st in b_.assigns():
            # `*guard = server_parameters` : the guard comes from original_server_parameters.write()
            lhs_guard = st["lhs"]["p"] == ["*"] and b_.locals[st["lhs"]["l"]]["ty"] == "&mut pgcat::server::ServerParameters" and bool(b_.calls("re:RwLock(<.*>)?::write$"))
            if not lhs_guard or st["rv"]["k"] != "use":
                continue
            srcs = {o.call.name for o in origins(b_, st["rv"]["op"], taint=True) if o.kind == "call" and o.call.name.startswith("pgcat::server::Server::")}
            getters = sorted(srcs)
            if not getters:
                continue
            tmpl_ok = True
            for g in getters:
                gb = F.body(g)
                flds = {p_[1:] for o in (origins(gb, 0, taint=True) if gb is not None else []) if o.kind in ("place", "param") for p_ in o.proj if isinstance(p_, str) and p_.startswith(".") and not p_[1:].isdigit()}
                # the field(s) the getter returns must have no writer outside the construction of Server
                for f_ in flds:
                    writers = sorted({w_.name for w_, blk2, st2 in F.field_writes(lambda ff, bb, ss, f_=f_: ff == f_) if "pgcat::server::" in w_.name})
                    mut_calls = sorted({c.body.name for c in F.all_calls("pgcat::server::ServerParameters::set_param", "pgcat::server::ServerParameters::set_from_hashmap")
                                        if c.body.name.startswith("pgcat::server::Server::") and any(("." + f_) in o.proj for o in origins(c.body, c.args[0]) if o.kind in ("place", "param"))})
                    if writers or mut_calls:
                        tmpl_ok = False
                        tmpl_why = "ConnectionPool::validate takes the pool's template from Server.%s (%s), which %s update(s) with what clients set on the connection" % (f_, g.split("::")[-1], (writers + mut_calls)[:2])
    r4.check(tmpl_ok, "template-from-startup-record", "the pool's parameter template is what a server reported when its connection was opened (a field nothing updates afterwards)",
             tmpl_why + ": validate() on a connection that has served a client makes that client's TimeZone / DateStyle / application_name the defaults every later client is told and runs under")
    # (a clause `nothing stores false into ConnectionPool.validated` was removed: with the template taken from the startup record a repeated validate() tells nothing
    # about earlier clients - the clause would report an edit that changes no behaviour)
    # ---------------- R5
    r5 = ctx.rule("C12-R5", "the tracked set, the defaults and the property's five parameters agree", floor=2)
    tp = [b for n, b in F.bodies.items() if n.startswith("pgcat::server::TRACKED_PARAMETERS")]
    names = set()
    for b in tp:
        for c in b.calls("re:HashSet.*::insert$"):
            names |= arg_strs(b, c)
    r5.check(names == FIVE, "tracked-set", "TRACKED_PARAMETERS = %s" % sorted(names), "TRACKED_PARAMETERS is %s, expected %s" % (sorted(names), sorted(FIVE)))
    nb = ctx.body("pgcat::server::ServerParameters::new", r5)
    if nb:
        dn = set()
        for c in nb.calls(SET_PARAM):
            for o in origins(nb, c.args[1], taint=True):
                if o.kind == "const" and isinstance(o.what, str):
                    dn.add(o.what)
        r5.check(FIVE <= dn, "defaults", "ServerParameters::new sets a default for each tracked parameter", "defaults missing for %s" % sorted(FIVE - dn))
    spb = ctx.body(SET_PARAM, r5)
    if spb:
        st = {o.what for c in spb.calls("re:HashSet.*::contains$") for o in origins(spb, c.args[0]) if o.kind == "static"}
        r5.check("pgcat::server::TRACKED_PARAMETERS" in st, "set_param-filters", "set_param admits non-startup updates only for tracked parameters", "set_param no longer filters by TRACKED_PARAMETERS")

        # a client's startup packet spells two of the tracked names in lower case (libpq: PGTZ -> `timezone`, PGDATESTYLE -> `datestyle`); the packet is fed in with
        # startup == false (only tracked keys are kept), so the spelling has to be mapped before the tracked-set test on every way there - whatever `startup` says
        cont_ = spb.calls("re:HashSet.*::contains$")
        for low_, cap_ in (("timezone", "TimeZone"), ("datestyle", "DateStyle")):
            eqs_ = [c for c in spb.calls("re:PartialEq.*::(eq|ne)$") if low_ in {x for x in arg_strs(spb, c) if isinstance(x, str)}]
            # the first comparison of the else-if chain dominates the test; a later link is reached over the `not equal` edge of the one before
            chain_ok = bool(eqs_) and bool(cont_)
            if chain_ok:
                e0 = eqs_[0]
                doms = all(spb.dominates(e0.block, c.block) for c in cont_)
                if not doms:
                    # allowed: control-dependent only on comparisons of the same chain (other lower-case spellings)
                    deps = spb.control_deps(e0.block, depth=4)
                    chain_blocks = {c.block for c in spb.calls("re:PartialEq.*::(eq|ne)$") if {x for x in arg_strs(spb, c) if isinstance(x, str)} & {"timezone", "datestyle"}}
                    def dep_is_chain(sb):
                        return any(o.kind == "call" and o.call.block in chain_blocks for o in origins(spb, spb.blocks[sb]["term"]["op"]))
                    chain_ok = bool(deps) and all(dep_is_chain(sb) for sb, t in deps) and all(any(spb.dominates(cb_, c.block) for cb_ in chain_blocks) for c in cont_)
            r5.check(chain_ok, "startup-spelling-mapped:" + low_, "`%s` is mapped to `%s` before the tracked-set test on every way there" % (low_, cap_),
                     "set_param maps `%s` to `%s` only on some ways to the tracked-set test (e.g. only when `startup` is true - and the client's startup packet is fed in with false): a client that announces %s in lower case, "
                     "as libpq does, loses the value; it is told the pool's default and its statements run under it" % (low_, cap_, low_))

    # ---------------- R6 what a client SET stays marked until it has been reset (round 5)
    r6 = ctx.rule("C12-R6", "values set by one client are never visible to another: the mark a client's SET (or PREPARE) leaves on the server connection is cleared only by CleanupState::reset(), "
                  "and reset() runs only after the clean-up statement of checkin_cleanup was sent (and after pgcat's own SETs in sync_parameters, before any client statement)", floor=2)
    from common import cleanup_mark_findings
    for key, ok, good, bad in cleanup_mark_findings(F):
        r6.check(ok, key, good, bad + " (the next client runs under the previous client's search_path / role / statement_timeout)")

    # ---------------- R7 startup parameters are taken as the client sent them (D45)
    r7 = ctx.rule("C12-R7", "the values a client establishes at startup are the bytes it sent: messages::parse_params turns the packet's C strings into text with a UTF-8 decoder (not one character per byte, "
                  "which reads UTF-8 as Latin-1 and hands the server a double-encoded value), and drops an empty string only where a name is expected (the list terminator) - an empty value keeps its place", floor=2)
    pp = ctx.body("pgcat::messages::parse_params", r7)
    if pp:
        casts = [(b_, st["span"]) for b_, i, st in pp.assigns() if st["rv"]["k"] == "cast" and st["rv"].get("ty") == "char"]
        dec = pp.calls("re:^alloc::string::String::from_utf8(_lossy)?$|^core::str::converts::from_utf8$|^alloc::str::<impl str>::to_owned$")
        utf8 = [c for c in dec if re.search(r"from_utf8", c.name)]
        r7.check(not casts and bool(utf8), "startup-bytes-decoded-as-utf8", "the C strings of the startup packet are decoded with %s" % sorted({c.name.split("::")[-1] for c in utf8}),
                 "parse_params builds the strings one `u8 as char` at a time (%s): a non-ASCII application_name / user / database is remembered as mojibake, SET on the server and told back to the client that way" % [sp for _, sp in casts] if casts else "parse_params has no UTF-8 decoding of the packet's strings")
        # the empty-token test
        psw = switches(pp)
        emp = list(bool_value_edges(pp, lambda o: o.kind == "call" and o.call.name.endswith("::is_empty"), psw))
        ok_e = True
        why_e = "no is_empty() test: nothing is dropped"
        pushes = [c.block for c in pp.calls("re:^alloc::vec::Vec.*::push$")]
        for sw_, o_, te, fe in emp:
            # from the `empty` edge, skipping the push of the token must be decided by the token's position as well
            rems = [b_ for b_, i, st in pp.assigns() if st["rv"]["k"] == "bin" and st["rv"].get("op") == "Rem"]
            region = pp.reach([te[1]], avoid_blocks=pushes)
            dominated = [b_ for b_ in rems if pp.dominates(te[1], b_)]
            skips = any(h_ in region for h_ in loop_headers(pp)) or any(pp.blocks[b_]["term"]["k"] == "return" for b_ in region)
            if skips and not dominated:
                ok_e = False
                why_e = "an empty string is skipped wherever it stands (%s)" % pp.blocks[sw_.block]["term"].get("span", "")
            elif skips:
                why_e = "an empty string is skipped only depending on its position (name slot)"
        r7.check(ok_e, "empty-value-keeps-its-place", why_e, "%s: `options=''` (or any empty value) shifts the pairing of every parameter after it - the startup is refused or the names and values are mixed up" % why_e)

    # ---------------- R8 `the connection's value equals the client's` is decided by byte equality (round 6)
    r8 = ctx.rule("C12-R8", "whether a tracked parameter has to be SET again on a server connection is decided by exact equality of the connection's recorded value and the client's: "
                  "the only comparison in ServerParameters::compare_params that guards the insertion into the diff is ==/!= on the two strings (application_name, DateStyle, TimeZone are case-sensitive or server-normalised - "
                  "a looser comparison leaves a client running under another client's value)", floor=1)
    cp = ctx.body("pgcat::server::ServerParameters::compare_params", r8)
    if cp:
        ins = cp.calls("re:^std::collections::hash::map::HashMap::.*insert$")
        if not ins:
            r8.missing("insert into the diff map in compare_params")
        for k_ in ins:
            cmpf = set()
            for sb, t in cp.control_deps(k_.block, depth=4):
                for o in origins(cp, cp.blocks[sb]["term"]["op"], taint=True):
                    if o.kind == "call" and not re.search(r"HashMap::get$|Iterator>::next$|into_iter$|::iter$|Deref>::deref$", o.call.name):
                        cmpf.add(strip_generics(o.call.name))
            exact = {n_ for n_ in cmpf if re.search(r"PartialEq.*::(eq|ne)$", n_)}
            loose = sorted(n_.split("::")[-1] for n_ in cmpf - exact)
            r8.check(bool(exact) and not loose, "diff-by-exact-equality", "a parameter enters the diff iff the two values differ (%s)" % sorted(n_.split("::")[-1] for n_ in exact),
                     "the insertion into the diff is guarded by %s: values that differ only in what that ignores (letter case: application_name `billing` / `Billing`) are taken for equal, no SET is sent, "
                     "and the client's statements run under the previous client's value" % (loose or "no equality test"), k_.where())

"""C09 — no access without valid credentials.
Must-pass-through rules over the CFG of Client::startup's coroutine."""
from mirlib import *

S = "pgcat::client::Client::startup::{closure#0}"
SP = "pgcat::client::Client::startup"
H = "pgcat::client::Client::handle::{closure#0}"
AUTH_OK = "pgcat::messages::auth_ok"
HASHES = ("pgcat::messages::md5_hash_password", "pgcat::messages::md5_hash_second_pass")
VEC_EQ = "re:^alloc::vec::partial_eq::<impl core::cmp::PartialEq<.*> for alloc::vec::Vec<.*>>::(eq|ne)$"
SERVER_PRIMS = (
    "pgcat::server::Server::startup", "re:^tokio::net::tcp::stream::TcpStream::connect$",
    "re:^bb8::api::Pool::.*(get|dedicated_connection|get_owned)$", "pgcat::server::Server::send",
    "pgcat::server::Server::cancel", "pgcat::pool::ConnectionPool::get",
)


def upvar_index(parent, coroutine_name, param_local):
    for b, i, st in parent.assigns():
        rv = st["rv"]
        if rv["k"] == "agg" and rv.get("agg") in ("coroutine", "closure") and strip_generics(rv["def"]) == coroutine_name:
            for idx, op in enumerate(rv["ops"]):
                if op_local(op) == param_local:
                    return idx
    return None


def run(ctx):
    F = ctx.facts
    ctx.explanation = ("every path of Client::startup's coroutine CFG from entry to the AuthenticationOk write is shown to cross an "
                       "authenticated edge (trust arm, or the equal edge of hash==response with this connection's salt), the pool-found arm and the admin-only gate; "
                       "Client values are constructed only behind it")
    ctx.assumptions = ["MD5 and Vec<u8> equality are correct", "normal (non-unwinding) control flow; a panic aborts the login",
                       "rustc MIR/instance resolution are faithful to the compiled program"]
    r1 = ctx.rule("C09-R1", "every path to auth_ok crosses the Trust arm or the equal edge of a (computed hash == client response) comparison", floor=1)
    s = ctx.body(S, r1)
    if s is None:
        return
    sws = switches(s)
    auth_calls = s.calls(AUTH_OK)
    if not auth_calls:
        r1.missing("call " + AUTH_OK)
        return
    auth_blocks = [c.block for c in auth_calls]
    ctx.evaluations += s.nblocks

    # (a) Trust arms
    trust_edges, _, trust_sw = discr_edges(s, r"pgcat::config::AuthType$", "Trust", switches_cache=sws)
    # (b) equality edges of hash comparisons
    r2 = ctx.rule("C09-R2", "the compared hash is computed from configured secrets and the salt issued on this connection; the other side is the buffer read from the client", floor=3)
    eq_edges = set()
    cmp_sites = []
    for c in s.calls(VEC_EQ):
        is_ne = c.name.endswith("::ne")
        T, Fa, _ = call_bool_edges(s, VEC_EQ, switches_cache=sws)
        # restrict to this call
        my = [(sw, o, te, fe) for (sw, o, te, fe) in bool_value_edges(s, lambda o: o.kind == "call" and o.call.block == c.block, sws)]
        if not my:
            r2.fail("cmp@%s:unresolved" % c.span.split(":")[0], "result of Vec<u8> comparison is not tested by a resolvable branch", c.where())
            continue
        class _HC:
            """a hash helper call as seen from startup: the call itself, or the one inside a closure of startup that was invoked (its arguments mapped back to
            the invocation's arguments and the closure's captures)"""
            def __init__(self, name, args, where):
                self.name, self.args, self._w = name, args, where

            def where(self):
                return self._w

        def expand(call):
            if call.is_(*HASHES):
                return [_HC(call.name, list(call.args), call.where())]
            cb = F.body(call.name)
            if cb is None or cb.kind != "closure" or len(call.args) < 2:
                return []
            caps, targs_ = [], []
            for o in origins(s, call.args[0]):
                if o.kind == "agg" and o.extra.get("agg") == "closure":
                    caps = o.extra.get("ops", [])
            for o in origins(s, call.args[1]):
                if o.kind == "agg" and o.extra.get("agg") == "tuple":
                    targs_ = o.extra.get("ops", [])
            out_ = []
            for hc2 in cb.calls(*HASHES):
                if not any(o.kind == "call" and o.call.block == hc2.block for o in origins(cb, {"c": "move", "pl": {"l": 0, "p": []}})):
                    continue
                mapped = []
                for a2 in hc2.args:
                    m_ = None
                    for o in origins(cb, a2, taint=True):
                        if o.kind in ("param", "place") and o.what == 1 and o.proj:
                            idx = [p_[1:] for p_ in o.proj if isinstance(p_, str) and p_.startswith(".") and p_[1:].isdigit()]
                            if idx and int(idx[0]) < len(caps):
                                m_ = caps[int(idx[0])]
                        elif o.kind == "param" and isinstance(o.what, int) and o.what >= 2 and o.what - 2 < len(targs_):
                            m_ = targs_[o.what - 2]
                    mapped.append(m_ if m_ is not None else a2)
                out_.append(_HC(hc2.name, mapped, hc2.where()))
            return out_
        sides = []
        for a in c.args[:2]:
            vis = set()
            os_ = origins(s, a, visited=vis)
            hashes = [h_ for o in os_ if o.kind == "call" for h_ in expand(o.call)]
            sides.append((hashes, vis, os_))
        hs = [i for i, (h, _, _) in enumerate(sides) if h]
        if len(hs) != 1:
            # not a credential comparison
            continue
        hi = hs[0]
        oi = 1 - hi
        hash_calls = sides[hi][0]
        # other side must be a buffer filled by read_exact on the client stream
        other_vis = sides[oi][1]
        filled = False
        for rc in s.calls("re:AsyncReadExt::read_exact$"):
            v2 = set()
            origins(s, rc.args[1], visited=v2)
            if other_vis & v2 & {l for l in s.varnames}:
                # receiver must be the client stream `read` (coroutine upvar / param), not something else
                filled = True
        key = "cmp:%s" % ("ne" if is_ne else "eq")
        ok = True
        for hc in hash_calls:
            salt_arg = hc.args[-1]
            so = origins(s, salt_arg)
            salt_calls = {o.call.name for o in so if o.kind == "call"}
            salt_consts = [o for o in so if o.kind == "const"]
            good_salt = salt_calls == {"pgcat::messages::md5_challenge"} and not salt_consts
            r2.check(good_salt, "salt-of:%s@bb-order-%d" % (hc.name.split("::")[-1], hash_calls.index(hc)),
                     "salt argument of %s derives only from md5_challenge() awaited in this body" % hc.name,
                     "salt argument of %s has origins %s (expected only md5_challenge of this connection)" % (hc.name, sorted(salt_calls) + [str(o.what) for o in salt_consts]),
                     hc.where())
            ok = ok and good_salt
            # secret arguments: config / pool fields or refetch_auth_hash
            sec_fields = set()
            sec_calls = set()
            for a in hc.args[:-1]:
                for o in origins(s, a):
                    if o.kind in ("place", "param"):
                        sec_fields.update(p[1:] for p in o.proj if p.startswith("."))
                    if o.kind == "call":
                        sec_calls.add(o.call.name)
            if hc.name.endswith("md5_hash_password"):
                good = ({"admin_username", "admin_password"} <= sec_fields) or ("password" in sec_fields and "user" in sec_fields)
            else:
                good = "auth_hash" in sec_fields or "pgcat::auth_passthrough::refetch_auth_hash" in sec_calls
            r2.check(good, "secret-of:%s#%d" % (hc.name.split("::")[-1], len(cmp_sites)),
                     "secret arguments of %s come from configuration/pool (%s %s)" % (hc.name.split("::")[-1], sorted(sec_fields & {"admin_username", "admin_password", "password", "user", "auth_hash"}), sorted(x.split("::")[-1] for x in sec_calls if "refetch" in x)),
                     "secret arguments of %s do not come from configured credentials: fields=%s calls=%s" % (hc.name, sorted(sec_fields), sorted(sec_calls)), hc.where())
            ok = ok and good
        r2.check(filled, "response-buffer#%d" % len(cmp_sites), "compared buffer is the one filled by read_exact", "compared value is not a buffer filled by read_exact on the client stream", c.where())
        if ok and filled:
            for sw, o, te, fe in my:
                eq_edges.add(fe if is_ne else te)
        cmp_sites.append(c)
        ctx.sample({"rule": "C09-R1/R2", "comparison": c.where(), "hash": [h.where() for h in hash_calls]})

    accepted = set(trust_edges) | eq_edges
    wit = s.uncrossed_path([0], auth_blocks, edges=accepted)
    r1.check(wit is None, "startup->auth_ok", "all paths to auth_ok cross one of %d trust edge(s) / %d hash-equal edge(s) (%d comparison sites)" % (len(trust_edges), len(eq_edges), len(cmp_sites)),
             "a path reaches auth_ok without crossing a trust arm or a successful hash comparison", auth_calls[0].where(), wit and s.describe_path(wit))
    r1.check(len(cmp_sites) >= 3, "comparison-sites", "%d credential comparison sites (admin, user, user-after-refetch)" % len(cmp_sites), "expected >=3 credential comparison sites, found %d" % len(cmp_sites))
    r1.check(len(trust_sw) >= 2, "trust-switches", "%d AuthType switches" % len(trust_sw), "expected 2 AuthType switches, found %d" % len(trust_sw))
    # each AuthType switch must have MD5 as its only other arm (a new variant would silently fall to otherwise)
    for sw in trust_sw:
        d = sw.discr()
        r1.check(set(d[2]) | set(d[4]) == {"Trust", "MD5"}, "authtype-variants", "AuthType has exactly {Trust, MD5}", "AuthType variants changed: %s" % (sorted(set(d[2]) | set(d[4]))))

    # secrets fetched from the server with auth_query: only a stored md5 hash is a usable secret (an empty or otherwise shaped value would make
    # the expected response computable from the public salt alone)
    fh = ctx.body("pgcat::auth_passthrough::AuthPassthrough::fetch_hash::{closure#0}", r2)
    if fh:
        fsw = switches(fh)
        sp = [c for c in fh.calls("re:^core::str::<impl str>::strip_prefix$") if "md5" in arg_strs(fh, c)]
        oks = [blk for blk, i, st in fh.assigns() if st["lhs"]["l"] == 0 and not st["lhs"]["p"] and st["rv"]["k"] == "agg" and st["rv"].get("variant") == "Ok"]
        someE = set()
        for c in sp:
            sE, nE, _ = discr_edges(fh, r"core::option::Option<&str>", "Some", origin_pred=lambda o, c=c: o.kind == "call" and o.call.block == c.block, switches_cache=fsw)
            someE |= set(sE)
        w = fh.uncrossed_path([0], oks, edges=someE) if someE else [0]
        r2.check(bool(sp) and bool(oks) and w is None, "auth_query-secret-is-md5", "fetch_hash returns Ok only over the Some edge of strip_prefix(\"md5\") on the fetched value",
                 "fetch_hash can return Ok for a value that is not an md5 hash (NULL/empty/unprefixed): the pool's auth_hash then lets anybody compute the expected response from the salt", "", w and fh.describe_path(w))
        if sp and oks:
            okv = all(any(o.kind == "call" and o.call.block in [c.block for c in sp] for o in origins(fh, st["rv"]["ops"][0], taint=True)) for blk, i, st in fh.assigns() if blk in oks and st["lhs"]["l"] == 0 and st["rv"]["k"] == "agg" and st["rv"].get("variant") == "Ok")
            r2.check(okv, "auth_query-secret-value", "the returned secret is the stripped hash", "fetch_hash returns something else than the stripped hash")

    # logins are judged from the pool's snapshot of the user (pool.settings.user), so a reload that changes credentials must rebuild the pool:
    # the definition hash that decides `unchanged => keep the old pool` has to cover the credential fields on every path
    uh = ctx.body("<pgcat::config::User as core::hash::Hash>::hash", r2)
    if uh:
        rets_ = [bb for bb, blk in enumerate(uh.blocks) if blk["term"]["k"] == "return"]
        for fld in ("password", "auth_type", "username"):
            hb = [c.block for c in uh.calls("re:Hash>::hash$|Hash for .*>::hash$|::hash$") if fld in {p_[1:] for o in origins(uh, c.args[0]) if o.kind in ("place", "param") for p_ in o.proj if p_.startswith(".")}]
            w = uh.uncrossed_path([0], rets_, blocks=hb) if hb else [0]
            r2.check(bool(hb) and w is None, "credential-in-pool-hash:" + fld, "User.%s is hashed on every path of the pool definition hash" % fld,
                     "User.%s is not (always) part of the pool definition hash: a reload that changes only this field keeps the old pool, whose snapshot keeps admitting the revoked password / skipping the new challenge" % fld)

    # ---------------- R3 pool must exist; R4 admin-only gate
    # the challenge is worth something only if its salt cannot be foreseen or met again: the four bytes md5_challenge sends and returns come from the
    # process-wide CSPRNG (rand::random / a rand Rng), not from a counter, a clock, a pid or a generator seeded with any of those - with a repeating
    # salt a sniffed (salt, PasswordMessage) pair is a credential
    mc = F.body("pgcat::messages::md5_challenge::{closure#0}")
    if mc is None:
        r2.missing("messages::md5_challenge")
    else:
        okv = [st["rv"]["ops"][0] for blk, i, st in mc.assigns() if st["lhs"]["l"] == 0 and st["rv"]["k"] == "agg" and st["rv"].get("variant") == "Ok" and st["rv"].get("ops")]

        def value_sources(body, ops, depth=0):
            out = set()
            for op in ops:
                for o in origins(body, op, taint=True):
                    if o.kind == "call":
                        cb = F.body(o.call.name) if o.call.name.startswith("pgcat::") else None
                        if cb is not None and depth < 2:
                            # a helper of pgcat's own: what it returns
                            rv_ops = [st["rv"].get("op") or (st["rv"].get("ops") or [None])[0] for blk, i, st in cb.assigns() if st["lhs"]["l"] == 0 and not st["lhs"]["p"]]
                            rv_ops = [x for x in rv_ops if x is not None] or [0]
                            out |= value_sources(cb, rv_ops, depth + 1) | {x for c_ in cb.calls("re:thread::local|LocalKey") for x in ["static:thread-local state"]}
                        else:
                            out.add(o.call.name)
                    elif o.kind in ("static", "bin", "param"):
                        out.add("%s:%s" % (o.kind, o.what))
                    elif o.kind == "const" and not isinstance(o.what, (int, type(None))):
                        out.add("const:%s" % (o.what,))
            return out
        srcs = value_sources(mc, okv)
        rnd = {x for x in srcs if re.search(r"^rand::(random|rngs::|Rng::|RngCore::)|::(gen|fill|fill_bytes|next_u32|next_u64)$", x) and "rand" in x}
        other = sorted(x for x in srcs - rnd if not re.search(r"^core::(convert|ops::deref)|::into$|::from$|::clone$", x))
        r2.check(bool(okv) and bool(rnd) and not other, "salt-from-the-csprng", "the salt md5_challenge issues comes from %s only" % sorted(x.split("::")[-1] for x in rnd),
                 "the salt md5_challenge issues does not (only) come from the CSPRNG (%s): a salt sequence that can be foreseen or that repeats - per thread, after a restart with the same pid - turns one observed "
                 "login into a reusable credential, for pool users and for the admin database" % (other or "no random source found"))
    # the cell the fetched secret is kept in (and compared from) belongs to one (database, user) pool: allocated per user in from_config
    from common import pool_cell_findings
    pcf = pool_cell_findings(F, {"auth_hash"})
    r2.check(len(pcf) == 1, "secret-cell", "ConnectionPool.auth_hash is filled in from_config", "construction of ConnectionPool with auth_hash not found in from_config")
    for f_, ok_, al_ in pcf:
        r2.check(ok_, "secret-cell-per-user", "the auth_hash cell is allocated (%s) inside the per-user loop that builds the pool" % ", ".join(al_),
                 "the auth_hash cell is allocated outside the per-user loop: every user of a [pools.X] section shares one cell, which holds whichever user's secret was fetched last - a client that claims to be bob and "
                 "answers the salt with alice's secret is admitted as bob")
    r3 = ctx.rule("C09-R3", "non-admin logins reach auth_ok only through the Some arm of get_pool(database, user)", floor=1)
    r4 = ctx.rule("C09-R4", "auth_ok is reached only if admin==true or admin_only==false; admin <=> database in {pgcat, pgbouncer}", floor=2)
    # the local stored into Client.admin
    admin_ops = [st["rv"]["ops"][st["rv"]["fields"].index("admin")] for b_, blk, st in F.aggregates("pgcat::client::Client") if b_ is s]
    if not admin_ops:
        r3.missing("Client aggregate in startup")
        return
    admin_orig = {o.key()[:3] for o in origins(s, admin_ops[0]) if o.kind in ("bin", "call")}
    adm = bool_value_edges(s, lambda o: o.key()[:3] in admin_orig, sws)
    admin_true = {te for _, _, te, _ in adm}
    admin_false = {fe for _, _, _, fe in adm}
    if not adm:
        r4.missing("branch on the value stored in Client.admin")
        return
    # admin value: Eq(count, 1) over ["pgcat","pgbouncer"].iter().filter(..)
    lits = set()
    for b_, i, st in s.assigns():
        rv = st["rv"]
        if rv["k"] == "agg" and rv.get("agg") == "array":
            for op in rv["ops"]:
                for o in origins(s, op):
                    if o.kind == "const" and isinstance(o.what, str):
                        lits.add(o.what)
    r4.check({"pgcat", "pgbouncer"} <= lits, "admin-db-literals", "admin database literals present: pgcat, pgbouncer", "admin database literal set is %s" % sorted(lits))
    # get_pool Some arm
    gp = s.calls("pgcat::pool::get_pool")
    if not gp:
        r3.missing("call pgcat::pool::get_pool in startup")
    else:
        some_e, none_e, gsw = discr_edges(s, r"core::option::Option<pgcat::pool::ConnectionPool>", "Some",
                                          origin_pred=lambda o: o.kind == "call" and o.call.name == "pgcat::pool::get_pool", switches_cache=sws)
        wit = s.uncrossed_path([0], auth_blocks, edges=set(some_e) | admin_true)
        r3.check(bool(some_e) and wit is None, "startup->auth_ok:pool", "every non-admin path to auth_ok crosses get_pool()==Some",
                 "a non-admin path reaches auth_ok without a configured (database,user) pool", gp[0].where(), wit and s.describe_path(wit))
        # pool key = (database, user) from the startup packet
        a0 = {str(o.what) for a in gp[0].args for o in origins(s, a) if o.kind == "const"}
        po = [o for a in gp[0].args for o in origins(s, a) if o.kind == "call"]
        r3.check(any(o.call.name.endswith("HashMap::get") for o in po), "pool-key", "get_pool key derives from the startup parameters map", "get_pool arguments do not derive from the startup parameters", gp[0].where())
    sp = ctx.body(SP, r4)
    idx = upvar_index(sp, S, sp.argc) if sp else None
    if idx is None:
        r4.missing("admin_only upvar of startup coroutine")
    else:
        ao = bool_value_edges(s, lambda o: o.kind in ("place", "param") and o.proj == (".%d" % idx,) and o.what == 1, sws)
        ao_false = {fe for _, _, _, fe in ao}
        wit = s.uncrossed_path([0], auth_blocks, edges=admin_true | ao_false)
        r4.check(bool(ao) and wit is None, "startup->auth_ok:admin_only", "every path to auth_ok crosses admin==true or admin_only==false",
                 "a path reaches auth_ok for a non-admin client while admin_only is set", "", wit and s.describe_path(wit))

    # ---------------- R5 nothing reaches a server before auth
    r5 = ctx.rule("C09-R5", "before auth_ok only refetch_auth_hash / ConnectionPool::validate may contact a server, with arguments not derived from post-startup client bytes", floor=1)
    pre = s.backreach(auth_blocks)
    allowed = {"pgcat::auth_passthrough::refetch_auth_hash", "pgcat::pool::ConnectionPool::validate"}
    prim_pats = SERVER_PRIMS
    seen_callees = set()
    for c in s.calls():
        if c.block not in pre or not c.name.startswith("pgcat::") or c.name.endswith("{closure#0}"):
            continue
        if c.name in seen_callees:
            continue
        seen_callees.add(c.name)
        reach = F.reachable_fns([c.name])
        hits = [n for n in reach if any(match_name(n, p) for p in prim_pats)]
        # calls made by reachable bodies
        for n in reach:
            b = F.body(n)
            if b:
                for cc in b.calls(*prim_pats):
                    hits.append(cc.name)
        if hits:
            if c.name in allowed:
                # arguments must not derive from bytes read after the startup packet
                bad = []
                for a in c.args:
                    for o in origins(s, a):
                        if o.kind == "call" and re.search(r"AsyncReadExt::read_", o.call.name):
                            bad.append(o.call.name)
                r5.check(not bad, "server-reaching:" + c.name, "%s may contact a server; its arguments derive only from pool/config" % c.name,
                         "%s receives data read from the unauthenticated client: %s" % (c.name, bad), c.where())
            else:
                r5.fail("server-reaching:" + c.name, "%s (reaches %s) is called before authentication" % (c.name, sorted(set(hits))[:3]), c.where())
    r5.note("pgcat callees before auth_ok: %s" % sorted(seen_callees))

    # ---------------- R6 a Client exists only after auth
    r6 = ctx.rule("C09-R6", "Client{} is constructed only after auth_ok (startup) or with cancel_mode=true (cancel); cancel mode never reaches a pool", floor=3)
    okc = [c for c in s.calls(AUTH_OK)]
    cont_edges, _, _ = discr_edges(s, r"ControlFlow<", "Continue", origin_pred=lambda o: o.kind == "call" and o.call.name == AUTH_OK, switches_cache=sws)
    for b_, blk, st in F.aggregates("pgcat::client::Client"):
        rv = st["rv"]
        cm = rv["ops"][rv["fields"].index("cancel_mode")]
        if b_.name == S:
            wit = s.uncrossed_path([0], [blk], edges=cont_edges)
            r6.check(bool(cont_edges) and wit is None, "construct:startup", "Client constructed in startup only after auth_ok succeeded", "Client constructed on a path that has not passed auth_ok", st["span"], wit and s.describe_path(wit))
            r6.check(const_int(cm) == 0, "construct:startup:cancel_mode", "startup builds cancel_mode=false", "startup builds a client with cancel_mode != false")
        elif b_.name == "pgcat::client::Client::cancel::{closure#0}":
            r6.check(const_int(cm) == 1, "construct:cancel", "cancel() builds cancel_mode=true", "cancel() builds a Client with cancel_mode != true (unauthenticated client could reach pools)", st["span"])
        else:
            r6.fail("construct:" + b_.name, "Client constructed outside startup/cancel", st["span"])
    callers = F.callers_of(AUTH_OK)
    r6.check(callers == [S], "auth_ok-callers", "auth_ok has exactly one caller (startup)", "auth_ok callers: %s" % callers)
    h = ctx.body(H, r6)
    if h:
        hsw = switches(h)
        T, Fa = field_bool_edges(h, "cancel_mode", hsw)
        if not T:
            r6.missing("branch on Client.cancel_mode in handle")
        else:
            reach = h.reach_from_edges(T)
            badc = [c for c in h.calls("pgcat::pool::get_pool", "pgcat::pool::ConnectionPool::get", "pgcat::client::Client::get_pool", "pgcat::server::Server::send", "pgcat::admin::handle_admin") if c.block in reach]
            r6.check(not badc, "cancel-mode-region", "cancel-mode branch of handle reaches no pool/server/admin call (only Server::cancel and return)",
                     "cancel-mode branch reaches %s" % [c.name for c in badc], badc[0].where() if badc else "")
            # the non-cancel part is only entered on cancel_mode == false
            gp_blocks = [c.block for c in h.calls("pgcat::client::Client::get_pool", "pgcat::pool::ConnectionPool::get", "pgcat::admin::handle_admin")]
            wit = h.uncrossed_path([0], gp_blocks, edges=Fa)
            r6.check(wit is None, "non-cancel-region", "pool/admin access in handle only on cancel_mode==false", "pool/admin access reachable without testing cancel_mode", "", wit and h.describe_path(wit))

    # ---------------- R7 the hash helpers are functions of their arguments only (round 5)
    r7 = ctx.rule("C09-R7", "the expected answer depends on nothing but the secret, the user name and the salt handed to the hash helpers: md5_hash_password / md5_hash_second_pass (and every pgcat function they call) "
                  "touch no static and no shared state, so one login (or one pool's secret) cannot influence what another login is compared against", floor=2)

    def statics_in(body):
        found = set()

        def walk(x):
            if isinstance(x, dict):
                c = x.get("const")
                if isinstance(c, dict) and "static" in c:
                    found.add(strip_generics(c["static"]))
                for v in x.values():
                    walk(v)
            elif isinstance(x, list):
                for v in x:
                    walk(v)
        walk(body.blocks)
        return found
    for root in ("pgcat::messages::md5_hash_password", "pgcat::messages::md5_hash_second_pass"):
        rb = ctx.body(root, r7)
        if not rb:
            continue
        bad = []
        nfn = 0
        for n in sorted(set(F.reachable_fns([root])) | {root}):
            b = F.body(n)
            if b is None or not n.startswith("pgcat::"):
                continue
            nfn += 1
            st = statics_in(b)
            if st:
                bad.append("%s uses %s" % (n.split("::")[-1], sorted(st)))
        r7.check(not bad, "pure:" + root.split("::")[-1], "%s and the %d pgcat function(s) it reaches use no static" % (root.split("::")[-1], nfn - 1),
                 "%s: the hash a client's answer is compared with can depend on an earlier call (another pool's or the admin's secret for the same user name, a rotated password, a failed login that primed the state)" % "; ".join(bad))
        rets = [st for b_, i, st in rb.assigns() if st["lhs"]["l"] == 0 and not st["lhs"]["p"]]
        r7.check(bool(rets) or any(blk["term"]["k"] == "call" and blk["term"]["dest"]["l"] == 0 for blk in rb.blocks), "returns:" + root.split("::")[-1], "%s returns a computed value" % root.split("::")[-1], "%s has no return value assignment" % root)

"""C14 — live reload is safe: valid configs take effect, invalid ones change nothing."""
from mirlib import *
from common import definition_identity_findings

PARSE = "pgcat::config::parse::{closure#0}"
RELOAD = "pgcat::config::reload_config::{closure#0}"
FROM_CONFIG = "pgcat::pool::ConnectionPool::from_config::{closure#0}"
H = "pgcat::client::Client::handle::{closure#0}"
STORE = "re:^arc_swap::ArcSwapAny.*::(store|swap|rcu|compare_and_swap)$"
VALIDATE = "pgcat::config::Config::validate"


def static_of(body, op):
    return {o.what for o in origins(body, op) if o.kind == "static"}


def run(ctx):
    F = ctx.facts
    ctx.explanation = ("who-may-write enumeration of the CONFIG and POOLS statics over the whole program (lib+bin), dominance of the publication points by successful validation/parse, "
                       "the unchanged-pool reuse path of from_config, and the pool re-resolution discipline of Client::handle before every checkout")
    ctx.assumptions = ["arc_swap's store is atomic (trusted library)", "the moment of the reload relative to clients is not modelled; in-flight work keeps its pool through ownership (type fact)",
                       "C15 discharges panics inside from_config (which runs inside main's select loop on SIGHUP)"]
    # ---------------- R1
    r1 = ctx.rule("C14-R1", "CONFIG is published only by config::parse, after Config::validate succeeded; parse is called only at startup and by reload_config", floor=3)
    stores = list(F.all_calls(STORE))
    cfg_st = [c for c in stores if "pgcat::config::CONFIG" in static_of(c.body, c.args[0])]
    pools_st = [c for c in stores if "pgcat::pool::POOLS" in static_of(c.body, c.args[0])]
    ctx.evaluations += len(stores)
    r1.check(len(cfg_st) >= 1 and all(c.body.name in (PARSE, RELOAD) for c in cfg_st) and any(c.body.name == PARSE for c in cfg_st), "CONFIG-writers", "CONFIG is stored only in config::parse (and put back by reload_config when the rebuild failed): %d site(s)" % len(cfg_st), "CONFIG is written in %s" % sorted({c.body.name for c in cfg_st}))
    # a store in reload_config is the restore of the configuration the running pools were built from (D44): the value loaded before parse(), on the Err edge of from_config only
    rl1 = F.body(RELOAD)
    for c in cfg_st:
        if c.body is not rl1:
            continue
        rsw1 = switches(rl1)
        errF, _okF, _ = discr_edges(rl1, r"core::result::Result<\(\), pgcat::errors::Error>", "Err", origin_pred=lambda o: o.kind == "call" and o.call.name == "pgcat::pool::ConnectionPool::from_config", switches_cache=rsw1)
        brkF, _c, _ = discr_edges(rl1, r"ControlFlow<", "Break", origin_pred=lambda o: o.kind == "call" and o.call.name == "pgcat::pool::ConnectionPool::from_config", switches_cache=rsw1)
        errF = set(errF) | set(brkF)
        w = rl1.uncrossed_path([0], [c.block], edges=errF)
        pc1 = rl1.calls("pgcat::config::parse")
        gc1 = [k for k in rl1.calls("pgcat::config::get_config") if pc1 and rl1.dominates(k.block, pc1[0].block)]
        vis = set()
        origins(rl1, c.args[1], visited=vis, taint=True)
        from_old = bool(gc1) and any(o.kind == "call" and o.call.block == gc1[0].block for o in origins(rl1, c.args[1], taint=True))
        r1.check(bool(errF) and w is None and from_old, "restore-only-after-failed-rebuild", "reload_config stores CONFIG only after from_config failed, and stores the configuration it loaded before parsing",
                 "reload_config writes CONFIG %s" % ("on a path where from_config did not fail" if w is not None or not errF else "with a value that is not the configuration loaded before parse()"), c.where())
    p = ctx.body(PARSE, r1)
    if p and cfg_st:
        psw = switches(p)
        cont, brk, _ = discr_edges(p, r"ControlFlow<", "Continue", origin_pred=lambda o: o.kind == "call" and o.call.name == VALIDATE, switches_cache=psw)
        if not cont:
            r1.missing("`validate()?` in config::parse")
        for c in cfg_st:
            if c.body is not p:
                continue
            wit = p.uncrossed_path([0], [c.block], edges=cont)
            r1.check(wit is None, "store-after-validate", "CONFIG.store is reached only over the Ok edge of Config::validate", "CONFIG.store can be reached without a successful validate(): an invalid file would replace the running configuration", c.where(), wit and p.describe_path(wit))
            # what is stored is the validated value
            vis = set()
            origins(p, c.args[1], visited=vis)
            vcalls = p.calls(VALIDATE)
            v2 = set()
            if vcalls:
                origins(p, vcalls[0].args[0], visited=v2)
            common = {l for l in vis & v2 if p.varnames.get(l)}
            r1.check(bool(common), "stored==validated", "the stored value is the validated local (%s)" % sorted(p.local_name(l) for l in common), "the stored configuration is not the value that was validated")
    # `validate() succeeded` has to mean that everything was looked at: every way to a non-error return of Config::validate passes the loop that validates
    # the pools (round 6: the TLS block returned the result of loading the key - Ok - and skipped the general checks and every Pool::validate)
    vb = ctx.body(VALIDATE, r1)
    if vb:
        pv = vb.calls("pgcat::config::Pool::validate")
        vheads = [hd for hd in loop_headers(vb) if any(c.block in natural_loop(vb, hd) for c in pv)]
        if not pv or not vheads:
            r1.missing("loop calling Pool::validate in Config::validate")
        else:
            good = []
            for blk, i, st in vb.assigns():
                if st["lhs"]["l"] == 0 and not st["lhs"]["p"] and not (st["rv"]["k"] == "agg" and st["rv"].get("variant") == "Err"):
                    good.append(blk)
            good += [c.block for c in vb.calls() if c.dest["l"] == 0 and not c.dest["p"] and not re.search(r"from_residual$", c.name)]
            wv = vb.uncrossed_path([0], good, blocks=vheads)
            r1.check(bool(good) and wv is None, "validate-ok-only-after-the-pools", "Config::validate can only return a non-error result after the loop over the pools (Pool::validate for each)",
                     "Config::validate can return something other than an error without having validated the pools: with that condition met (e.g. TLS configured) a semantically invalid file is accepted, stored and applied by a reload",
                     "", wv and vb.describe_path(wv))
    callers = F.callers_of("pgcat::config::parse")
    r1.check(set(callers) <= {"bin:pgcat::main::{closure#0}", RELOAD} and RELOAD in callers, "parse-callers", "config::parse is called from main (startup) and reload_config only", "config::parse callers: %s" % callers)

    # ---------------- R2
    r2 = ctx.rule("C14-R2", "POOLS is swapped exactly once per from_config, outside the configuration loops; from_config runs only at startup and from reload_config after parse succeeded", floor=4)
    fc = ctx.body(FROM_CONFIG, r2)
    r2.check(len(pools_st) == 1 and pools_st[0].body.name == FROM_CONFIG, "POOLS-writers", "POOLS is stored at exactly one site, in from_config", "POOLS stores: %s" % [c.where() for c in pools_st])
    if fc and pools_st:
        st = pools_st[0]
        heads = loop_headers(fc)
        inloop = [hd for hd in heads if st.block in natural_loop(fc, hd)]
        r2.check(not inloop, "store-outside-loops", "POOLS.store is outside every loop of from_config (%d loops)" % len(heads), "POOLS.store is inside a loop: pools would be published one by one while the new set is incomplete")
        # every successful return passes the store; error returns do not
        ok_rets = [blk for blk, i, s_ in fc.assigns() if s_["lhs"]["l"] == 0 and s_["rv"]["k"] == "agg" and s_["rv"].get("variant") == "Ok"]
        wit = fc.uncrossed_path([0], ok_rets, blocks=[st.block]) if ok_rets else [0]
        r2.check(bool(ok_rets) and wit is None, "ok=>stored", "Ok(()) is returned only after the swap", "from_config can return Ok without publishing the new pools")
        errs = [c.block for c in fc.calls("re:FromResidual<.*>>::from_residual$")]
        after = fc.reach([st.block])
        r2.check(not [e for e in errs if e in after], "no-error-after-store", "no error exit after the swap", "an error exit exists after POOLS.store")
        # the published map holds nothing but what this call made of the new configuration: it starts empty and
        # only gains entries keyed by PoolIdentifier::new(..) inside the configuration loops (round 5: a map
        # seeded with the live pools kept a removed user's pool in service)
        vis = set()
        os_ = origins(fc, st.args[1], visited=vis, taint=True)
        src = sorted({strip_generics(o.call.name) for o in os_ if o.kind == "call"})
        maps = {l for l in vis if isinstance(l, int) and re.match(r"^std::collections::(hash::map::)?HashMap<pgcat::pool::PoolIdentifier", fc.locals[l]["ty"])}
        alien = [n for n in src if not re.search(r"HashMap::new$|::clone$|Arc::new$|HashMap::with_capacity$", n)]
        r2.check(bool(maps) and not alien, "published-map-starts-empty", "the map stored into POOLS is created empty in from_config", "the map stored into POOLS is derived from %s: entries of the previous configuration (a removed pool or user) survive the reload and keep serving clients" % (alien or "nothing recognisable"))
        muts = []
        for b_, i, s_ in fc.assigns():
            rv = s_["rv"]
            if rv["k"] == "ref" and rv.get("mut") and rv["pl"]["l"] in maps and not rv["pl"]["p"]:
                tl = s_["lhs"]["l"]
                for c in fc.calls():
                    if c.args and op_local(c.args[0]) == tl and c not in muts:
                        muts.append(c)
        other = [c for c in muts if not re.search(r"HashMap::insert$", strip_generics(c.name))]
        r2.check(bool(muts) and not other, "published-map-only-inserted", "the new map is only ever inserted into (%d sites)" % len(muts), "the new map is also modified by %s" % [c.where() for c in other] if muts else "no insert into the new pool map found")
        cfg_loops = [hd for hd in heads if any(c.block in natural_loop(fc, hd) for c in muts)]
        for c in muts:
            if c in other:
                continue
            ks = {strip_generics(o.call.name) for o in origins(fc, c.args[1], taint=True) if o.kind == "call"}
            inl = any(c.block in natural_loop(fc, hd) for hd in heads)
            r2.check("pgcat::pool::PoolIdentifier::new" in ks and inl, "insert-keyed-by-config-entry", "the entry is keyed by PoolIdentifier::new(pool, user) of the configuration entry being processed", "an entry of the new pool map is not keyed by the (pool, user) being processed", c.where())
        # ... and it holds all of it: every turn of the per-user loop (the innermost loop that holds an insert) ends with an insert, or from_config fails as a
        # whole - a turn that gives up on its pool and goes on publishes a map without a pool the accepted configuration lists, half of a reload applied
        ins_ = [c for c in muts if c not in other]
        if ins_:
            uh = None
            for hd in sorted(heads, key=lambda x: len(natural_loop(fc, x))):
                if all(c.block in natural_loop(fc, hd) for c in ins_):
                    uh = hd
                    break
            if uh is None:
                r2.fail("every-configured-pool-published", "the inserts into the new pool map do not share a loop")
            else:
                lp = natural_loop(fc, uh)
                # back edges of the per-user loop, reached from the header without an insert
                latches = [u for u in lp if uh in fc.succ("n")[u]]
                w = None
                for la in latches:
                    pth = fc.uncrossed_path([uh], [la], blocks=[c.block for c in ins_])
                    # a path that leaves the loop's body through inner loops is still inside lp; the header itself as a start is fine
                    if pth is not None and all(b_ in lp for b_ in pth):
                        w = pth
                        break
                r2.check(w is None, "every-configured-pool-published", "every turn of the per-user loop of from_config ends with an insert into the new map (or from_config returns an error)",
                         "a turn of the per-user loop of from_config can go on to the next user without inserting a pool: the map is published without a pool that CONFIG lists - its clients get `No pool configured` although the previous "
                         "pool's servers are healthy, the rest of the file is applied (a half-applied reload), and the next reload sees `no change`", "", w and fc.describe_path(w))
        # `clients of a removed pool get an error`: also those PAUSE holds at the removed pool's gate. RESUME walks the pools of the current map; a pool that left
        # the map can be reached by nothing - from_config itself opens the gate of every pool of the previous map that is not in the new one (after the swap, so
        # that the clients it lets go find their pool gone)
        rs_ = [c for c in fc.calls("pgcat::pool::ConnectionPool::resume")]
        fsw_ = switches(fc)
        ckT, ckF, _ = call_bool_edges(fc, "re:^std::collections::hash::map::HashMap<.*>::contains_key$|^std::collections::hash::map::HashMap::contains_key$", switches_cache=fsw_)
        ok_rm = False
        why_rm = "from_config never calls resume() on a pool of the previous map"
        for c in rs_:
            from_prev = any(o.kind == "call" and o.call.name == "pgcat::pool::get_all_pools" for o in origins(fc, c.args[0], taint=True))
            gated = bool(ckF) and fc.uncrossed_path([0], [c.block], edges=set(ckF)) is None
            after_store = fc.dominates(st.block, c.block)
            if from_prev and gated and after_store:
                ok_rm = True
            else:
                why_rm = "the resume() in from_config is %s" % ", ".join(x for x, y in (("not applied to the pools of the previous map", from_prev), ("not restricted to pools missing from the new map", gated), ("not after the swap", after_store)) if not y)
        r2.check(ok_rm, "removed-pool-lets-its-clients-go", "from_config opens the pause gate of every pool of the previous map that is missing from the new one, after the swap",
                 why_rm + ": clients held by PAUSE on a pool that the reload removes wait on a gate no RESUME can reach any more - they never get `No pool configured`, their tasks leak")
        # the tables that are indexed by shard and server position (databases, addresses, banlist) are built by this call, for the shards of the new definition:
        # none of them is taken over from the live pool - its tables have the old definition's shape (a ban list with one slot per *old* shard makes the first
        # checkout on a shard the reload added index out of bounds). What is taken over on purpose is the pause gate and the servers' totals.
        for b_, blk, st_ in F.aggregates("pgcat::pool::ConnectionPool"):
            if b_ is not fc:
                continue
            for fld in ("databases", "addresses", "banlist"):
                if fld not in st_["rv"]["fields"]:
                    continue
                src_ = {o.call.name for o in origins(fc, st_["rv"]["ops"][st_["rv"]["fields"].index(fld)], taint=False) if o.kind == "call"}
                src_t = {o.call.name for o in origins(fc, st_["rv"]["ops"][st_["rv"]["fields"].index(fld)], taint=True) if o.kind == "call"}
                live = "pgcat::pool::get_pool" in src_ or any(o.kind in ("place", "param") and ("." + fld) in o.proj for o in origins(fc, st_["rv"]["ops"][st_["rv"]["fields"].index(fld)], taint=True))
                r2.check(not live, "per-shard-table-built-anew:" + fld, "ConnectionPool.%s of a pool from_config builds is built by this call" % fld,
                         "ConnectionPool.%s of a rebuilt pool is taken over from the live pool: it has one slot per shard / server of the *previous* definition - after a reload that adds a shard the first checkout on "
                         "the new shard indexes past its end and the client's task panics; the added shard never serves a transaction" % fld)
    callers = F.callers_of("pgcat::pool::ConnectionPool::from_config")
    r2.check(set(callers) == {"bin:pgcat::main::{closure#1}", RELOAD}, "from_config-callers", "from_config is called from main (startup) and reload_config only", "from_config callers: %s" % callers)
    rl = ctx.body(RELOAD, r2)
    if rl:
        rsw = switches(rl)
        okE, errE, _ = discr_edges(rl, r"core::result::Result<\(\), pgcat::errors::Error>", "Ok", origin_pred=lambda o: o.kind == "call" and o.call.name == "pgcat::config::parse", switches_cache=rsw)
        fcc = rl.calls("pgcat::pool::ConnectionPool::from_config")
        if not okE or not fcc:
            r2.missing("parse result switch / from_config call in reload_config")
        else:
            wit = rl.uncrossed_path([0], [c.block for c in fcc], edges=okE)
            r2.check(wit is None, "reload:from_config-after-parse-ok", "reload_config rebuilds pools only after parse() returned Ok", "reload_config can rebuild pools although parse failed", "", wit and rl.describe_path(wit))
            # a valid file that differs from the configuration in force is *applied*: after parse() the only way past from_config is `nothing changed`, decided by
            # comparing the whole configurations - a shortcut that compares some sections (general, pools) lets a change of the others (the top-level [plugins] every
            # pool without a section of its own inherits) be stored, reported as reloaded and never reach the pools (round 11)
            def _is_config(op_):
                pl = op_place(op_)
                return pl is not None and "pgcat::config::Config" in str(rl.local_ty(pl["l"])) and "Option" not in str(rl.local_ty(pl["l"]))
            cmp_calls = [c_ for c_ in rl.calls("re:^<pgcat::config::Config as core::cmp::PartialEq>::(eq|ne)$", "re:^core::cmp::PartialEq::(eq|ne)$") if len(c_.args) == 2 and all(_is_config(a_) for a_ in c_.args)]
            if not cmp_calls:
                r2.missing("the comparison of the old with the new Config in reload_config")
            else:
                eqE = set()
                for c_ in cmp_calls:
                    for sw, o, te, fe in bool_value_edges(rl, lambda o, c_=c_: o.kind == "call" and o.call.block == c_.block, rsw):
                        eqE.add(te if c_.name.endswith("::eq") else fe)
                rets_ = [bb for bb, blk in enumerate(rl.blocks) if blk["term"]["k"] == "return"]
                okT = {e[1] for e in okE}
                w_ = rl.uncrossed_path(sorted(okT), rets_, edges=eqE, blocks=[c.block for c in fcc])
                # error exits in between (none today) would be `?` edges; a path that reaches a return without the rebuild and without `equal` is a shortcut
                r2.check(bool(eqE) and w_ is None, "reload:changed=>rebuilt", "after a successful parse() reload_config returns without from_config only over `old configuration == new configuration` (whole Configs compared)",
                         "reload_config can return after a successful parse() without rebuilding the pools although the configurations differ (%s): a valid file whose only change lies outside what the shortcut compares - "
                         "the top-level [plugins] section the pools inherit - is stored and reported as reloaded while every pool keeps its old settings, for good (the next reload sees no difference)" % (rl.describe_path(w_)[-200:] if w_ else ""))
            # the Err arm returns an error without touching pools
            reach = rl.reach([d for _, d in errE])
            r2.check(not [c for c in fcc if c.block in reach], "reload:err-arm-inert", "the parse-error arm never reaches from_config", "the parse-error arm reaches from_config")
    if rl and rl.calls("pgcat::pool::ConnectionPool::from_config"):
        # a rebuild that failed leaves POOLS as they were; CONFIG has to be put back too, or the next reload compares the file with itself,
        # finds no change and never builds the pools of a valid file (D44)
        rsw2 = switches(rl)
        fpred = lambda o: o.kind == "call" and o.call.name == "pgcat::pool::ConnectionPool::from_config"
        errF, _o, _ = discr_edges(rl, r"core::result::Result<\(\), pgcat::errors::Error>", "Err", origin_pred=fpred, switches_cache=rsw2)
        brkF, _c, _ = discr_edges(rl, r"ControlFlow<", "Break", origin_pred=fpred, switches_cache=rsw2)
        fails = [d for _, d in set(errF) | set(brkF)]
        cfg_stores = [c.block for c in cfg_st if c.body is rl]
        rets2 = [bb for bb, blk in enumerate(rl.blocks) if blk["term"]["k"] == "return"]
        w = rl.uncrossed_path(fails, rets2, blocks=cfg_stores) if fails else [0]
        r2.check(bool(fails) and w is None, "reload:failed-rebuild=>config-restored", "when from_config fails, reload_config puts the previous configuration back before it returns",
                 "when from_config fails (a server of a new pool is down while validate_config / min_pool_size make the build connect), reload_config returns with CONFIG = the new file and POOLS = the old pools: "
                 "every later reload of that file sees `no change` and the valid configuration never takes effect", "", w and rl.describe_path(w))
    if rl:
        # whether a file takes effect is decided by reading it: reload_config parses on every call, no return comes earlier
        pc = rl.calls("pgcat::config::parse")
        rets = [bb for bb, blk in enumerate(rl.blocks) if blk["term"]["k"] == "return"]
        w = rl.uncrossed_path([0], rets, blocks=[c.block for c in pc]) if pc else [0]
        r2.check(bool(pc) and w is None, "reload:always-parses", "reload_config returns only after having parsed the file",
                 "reload_config can return without reading the file (a shortcut on something other than its content, e.g. the modification time): a valid, changed file that a rollback or `cp -p` put in place is silently ignored, "
                 "RELOAD answers as if done while CONFIG and POOLS stay stale", "", w and rl.describe_path(w))
    # the admin RELOAD is acknowledged only after this very command has read the file: in admin::reload every way to the CommandComplete
    # passes reload_config and its Ok edge (a reply built on a shortcut - "one is running anyway", "nothing to do" - tells the operator the file is in force when it was never read)
    ar = F.body("pgcat::admin::reload::{closure#0}")
    if ar is None:
        r2.missing("admin::reload")
    else:
        asw = switches(ar)
        rc_ = ar.calls("pgcat::config::reload_config")
        cc_ = ar.calls("pgcat::messages::command_complete") + ar.calls("pgcat::messages::write_all_half", "pgcat::messages::write_all")
        okE_, _e, _ = discr_edges(ar, r"ControlFlow<", "Continue", origin_pred=lambda o: o.kind == "call" and o.call.name == "pgcat::config::reload_config", switches_cache=asw)
        if not okE_:
            okE_, _e, _ = discr_edges(ar, r"core::result::Result<bool, pgcat::errors::Error>", "Ok", switches_cache=asw)
        w = ar.uncrossed_path([0], [c.block for c in cc_], edges=set(okE_)) if rc_ and cc_ and okE_ else [0]
        r2.check(bool(rc_) and bool(cc_) and w is None, "admin-reload:acknowledged-only-after-reload_config", "admin RELOAD is answered only over the Ok edge of reload_config",
                 "admin RELOAD can be acknowledged (CommandComplete `RELOAD`) without reload_config having run and succeeded for this command: the operator is told the file is in force while CONFIG, POOLS and the server "
                 "connections are those of the old one", "", w and w != [0] and ar.describe_path(w))
    # reload_config is called from places that do not know of each other (SIGHUP arm, autoreload task, any admin client's RELOAD). It publishes CONFIG
    # when it has parsed and POOLS when it has built, from a snapshot taken when the build starts: of two calls that overlap, the one that read the older
    # file can publish its pools last. One call at a time: a lock of a static async mutex is taken before parse and held until the return (D72)
    if rl:
        lk_ = [c for c in rl.calls("re:^tokio::sync::mutex::Mutex(<.*>)?::lock$") if any(o.kind == "static" for o in origins(rl, c.args[0], taint=True))]
        pc_ = rl.calls("pgcat::config::parse")
        fc_ = rl.calls("pgcat::pool::ConnectionPool::from_config")
        ok_l = bool(lk_) and bool(pc_) and bool(fc_) and any(rl.dominates(c.block, pc_[0].block) and rl.dominates(c.block, fc_[0].block) for c in lk_)
        held = False
        if ok_l:
            for l_, d_ in enumerate(rl.locals):
                if re.match(r"^tokio::sync::mutex::MutexGuard<", d_["ty"]) and rl.varnames.get(l_):
                    drops_ = [bb for bb, blk in enumerate(rl.blocks) if blk["term"]["k"] == "drop" and blk["term"]["pl"]["l"] == l_ and not blk["term"]["pl"]["p"] and not blk["cleanup"]]
                    moved_ = [c.block for c in rl.calls("core::mem::drop") if any(op_local(a) == l_ for a in c.args)]
                    if not any(fc_[0].block in rl.reach([d]) or pc_[0].block in rl.reach([d]) for d in drops_ + moved_):
                        held = True
        r2.check(ok_l and held, "reload:one-at-a-time", "reload_config takes a static async mutex before it parses and holds it until it returns",
                 "reload_config is not serialised (%s): two reloads that overlap - the autoreload task and an admin RELOAD, two admin clients - can publish in the wrong order: CONFIG is the newer file, POOLS are the pools of the older "
                 "one, and every later reload of the newer file sees `no change`" % ("no lock of a static tokio Mutex dominates parse and from_config" if not ok_l else "the guard is dropped before the pools are built"))
    rcallers = F.callers_of("pgcat::config::reload_config")
    # (main's accept loop, or a task it spawns - which closure of main a task is, is numbering, not meaning)
    r2.check(all(re.match(r"^bin:pgcat::main::\{closure#1\}(::\{closure#\d+\})?$", n_) or n_ == "pgcat::admin::reload::{closure#0}" for n_ in rcallers) and bool(rcallers), "reload-callers", "reload_config is called by SIGHUP, autoreload and admin RELOAD only", "reload_config callers: %s" % rcallers)

    # ---------------- R3
    r3 = ctx.rule("C14-R3", "a pool whose definition hash is unchanged is carried over (clone of the live pool) and is never rebuilt in that reload", floor=2)
    if fc:
        fsw = switches(fc)
        gp = fc.calls("pgcat::pool::get_pool")
        hv = fc.calls("pgcat::config::Pool::hash_value")
        if not gp or not hv:
            r3.missing("get_pool / hash_value in from_config")
        else:
            # equality edges of a u64 comparison between .config_hash of the old pool and hash_value()
            eqE = set()
            for sw in fsw:
                if not sw.is_bool():
                    continue
                for o in sw.origins():
                    if o.kind == "bin" and o.what in ("Eq", "Ne"):
                        def feeders(op_):
                            """calls the value comes from; for the finish() of a hasher also the calls whose results were hashed into it
                            (the identity may combine Pool::hash_value with the inherited settings, D66)"""
                            names = {oo.call.name for oo in origins(fc, op_) if oo.kind == "call"}
                            for fin in [oo.call for oo in origins(fc, op_) if oo.kind == "call" and oo.call.name.endswith("::finish")]:
                                hl = set()
                                origins(fc, fin.args[0], visited=hl)
                                for hc in fc.calls("re:Hash(<.*>)?>::hash$|^core::hash::Hash::hash$|impl core::hash::Hash for .*>::hash$"):
                                    sl = set()
                                    if len(hc.args) >= 2:
                                        origins(fc, hc.args[1], visited=sl)
                                    if sl & hl:
                                        names |= {oo.call.name for oo in origins(fc, hc.args[0], taint=True) if oo.kind == "call"}
                            return names
                        a_f = {pp for oo in origins(fc, o.extra["a"]) for pp in oo.proj if oo.kind == "place"}
                        b_c = feeders(o.extra["b"])
                        a_c = feeders(o.extra["a"])
                        b_f = {pp for oo in origins(fc, o.extra["b"]) for pp in oo.proj if oo.kind == "place"}
                        if (".config_hash" in a_f and "pgcat::config::Pool::hash_value" in b_c) or (".config_hash" in b_f and "pgcat::config::Pool::hash_value" in a_c):
                            te, fe = sw.bool_edges()
                            if o.neg:
                                te, fe = fe, te
                            eqE.add(te if o.what == "Eq" else fe)
            if not eqE:
                r3.fail("hash-compare", "from_config no longer compares the live pool's config_hash with Pool::hash_value(): every reload would rebuild every pool (dropping their server connections)")
            else:
                ins = fc.calls("re:^std::collections::hash::map::HashMap::.*insert$")
                reuse_ins = []
                for c in ins:
                    if not any(fc.dominates(e[1], c.block) for e in eqE):
                        continue
                    vals = {o.call.name for o in origins(fc, c.args[2]) if o.kind == "call"}
                    if "pgcat::pool::get_pool" in vals:
                        reuse_ins.append(c)
                r3.check(bool(reuse_ins), "reuse-insert", "on the equal edge the live pool (from get_pool) is inserted into the new map", "the equal-hash branch does not carry the live pool over")
                builders = [c.block for c in fc.calls("pgcat::pool::ServerPool::new", "re:^bb8::api::Builder::.*build(_unchecked)?$")]
                heads = loop_headers(fc)
                for c in reuse_ins:
                    # the innermost loop that contains the reuse insert is the users loop
                    inner = sorted((len(natural_loop(fc, hd)), hd) for hd in heads if c.block in natural_loop(fc, hd))
                    users_head = [inner[0][1]] if inner else []
                    reach = fc.reach([c.block], avoid_blocks=users_head)
                    hit = [b_ for b_ in builders if b_ in reach]
                    r3.check(not hit, "reuse=>no-rebuild", "after the reuse insert the iteration ends without building a new pool", "after carrying the pool over, the same iteration still builds a new bb8 pool (the reused pool is replaced / connections dropped)", c.where())
                for key_, ok_, okm_, fm_ in definition_identity_findings(F):
                    r3.check(ok_, key_, okm_, fm_)

    # ... and the identity covers what else the pool is built from: the [general] values and the global [plugins] section from_config reads while building (D66)
    from common import pool_identity_gap
    pig = pool_identity_gap(F)
    if pig is None:
        r3.missing("from_config / ConnectionPool.config_hash")
    else:
        used_, hashed_, exempt_ = pig
        gap_ = sorted(used_ - hashed_ - exempt_)
        r3.check(len(used_) >= 5 and not gap_, "identity-covers-inherited-settings", "every value of the rest of the configuration that from_config builds a pool from (%s) is part of the identity compared with config_hash" % ", ".join(sorted(used_ - exempt_)),
                 "from_config builds a pool from %s, which are not part of the identity it compares (Pool::hash_value of the pool's own section): a valid file that changes only those is accepted, shown as the configuration in force - "
                 "and every pool is kept as it was, with the old values" % gap_)

    # ---------------- R4
    r4 = ctx.rule("C14-R4", "Client::handle re-resolves its pool (by database,user) after reading the client's message and before every checkout; a removed pool yields an error return, never another pool", floor=4)
    h = ctx.body(H, r4)
    if h:
        hsw = switches(h)
        gets = h.calls("pgcat::pool::ConnectionPool::get")
        gps = h.calls("pgcat::client::Client::get_pool")
        if not gets or not gps:
            r4.missing("ConnectionPool::get / Client::get_pool in handle")
        else:
            heads = [x for x in loop_headers(h) if h.dominates(x, gets[0].block)]
            outer = min(heads)
            reads = [c.block for c in h.calls("pgcat::messages::read_message")]
            # from each read of a client message (outer loop) to the checkout, get_pool is passed
            gp_blocks = [c.block for c in gps]
            claim = h.calls("pgcat::server::Server::claim")
            outer_reads = [b_ for b_ in reads if not (claim and h.dominates(claim[0].block, b_))]
            wit = h.uncrossed_path(outer_reads, [gets[0].block], blocks=gp_blocks)
            r4.check(wit is None, "get_pool-between-read-and-checkout", "every path from reading a client message to the checkout passes Client::get_pool", "a checkout can happen with a pool resolved before the message was read (stale after reload)", "", wit and h.describe_path(wit))
            # ... and before the message is looked at at all: the routing commands, the parser, the plugins and the pause gate are those of the configuration
            # in force when the message arrives, not of the one the client's previous transaction ran under (D61)
            uses = [c.block for c in h.calls("pgcat::client::Client::handle_custom_protocol", "pgcat::query_router::QueryRouter::parse", "pgcat::query_router::QueryRouter::execute_plugins",
                                             "pgcat::query_router::QueryRouter::infer", "pgcat::query_router::QueryRouter::infer_for_batch", "pgcat::query_router::QueryRouter::infer_shard_from_bind",
                                             "pgcat::pool::ConnectionPool::wait_paused") if not (claim and h.dominates(claim[0].block, c.block))]
            wit = h.uncrossed_path(outer_reads, uses, blocks=gp_blocks)
            r4.check(bool(uses) and wit is None, "get_pool-before-the-message-is-used", "between reading a client message and the first use of it (commands, parser, plugins, pause gate: %d sites) the pool is re-resolved" % len(uses),
                     "a message read in the idle loop is handled by handle_custom_protocol / parsed / routed / passed through the pause gate before the pool is re-resolved: after a RELOAD the first message is "
                     "treated with the previous configuration (e.g. a sharding key hashed for the old shard count selects a shard of the new pool)", "", wit and h.describe_path(wit))
            # the client can be held at the pause gate for any length of time: a reload during that wait must still be in effect for the transaction that starts after RESUME
            gates = [c.block for c in h.calls("pgcat::pool::ConnectionPool::wait_paused") if not (claim and h.dominates(claim[0].block, c.block))]
            wit = h.uncrossed_path(gates, [gets[0].block], blocks=gp_blocks)
            r4.check(bool(gates) and wit is None, "get_pool-after-the-pause-gate", "between the pause gate (where a client can wait across a RELOAD) and the checkout the pool is re-resolved",
                     "the checkout follows wait_paused() without Client::get_pool in between: a transaction held by PAUSE across a RELOAD starts on the pool of the previous configuration", "", wit and h.describe_path(wit))
            wit = h.uncrossed_path([outer], [gets[0].block], blocks=gp_blocks)
            r4.check(wit is None, "get_pool-every-iteration", "every iteration of the idle loop that checks out resolves the pool again", "an idle-loop iteration can reach the checkout without get_pool")
            # the receiver of ConnectionPool::get is the local assigned from that get_pool
            vis = set()
            origins(h, gets[0].args[0], visited=vis)
            pool_locals = {l for l in vis if "pool" in h.varnames.get(l, [])}
            src = {o.call.name for l in pool_locals for o in origins(h, l) if o.kind == "call"}
            r4.check("pgcat::client::Client::get_pool" in src, "checkout-on-resolved-pool", "the checkout is made on the pool returned by get_pool", "the checkout receiver does not come from get_pool (%s)" % sorted(src))
            r4.check(any(h.locals[l]["ty"] == "pgcat::pool::ConnectionPool" for l in pool_locals), "pool-owned", "handle owns its ConnectionPool (a running transaction keeps the Arcs of the pool it started on)", "handle's pool is not an owned ConnectionPool")
            ups = h.calls("pgcat::query_router::QueryRouter::update_pool_settings")
            wit = h.uncrossed_path([gps[-1].block], [gets[0].block], blocks=[c.block for c in ups])
            r4.check(wit is None, "settings-refreshed", "update_pool_settings follows get_pool before the checkout", "router settings are not refreshed after re-resolving the pool")
        cgp = ctx.body("pgcat::client::Client::get_pool::{closure#0}", r4)
        if cgp:
            csw = switches(cgp)
            noneE, someE, _ = discr_edges(cgp, r"core::option::Option<pgcat::pool::ConnectionPool>", "None", switches_cache=csw)
            if not noneE:
                r4.missing("None arm of pool lookup in Client::get_pool")
            else:
                reach = cgp.reach([d for _, d in noneE])
                oks = [blk for blk, i, s_ in cgp.assigns() if blk in reach and s_["rv"]["k"] == "agg" and s_["rv"].get("variant") == "Ok" and "result::Result" in s_["rv"].get("adt", "")]
                errs = [blk for blk, i, s_ in cgp.assigns() if blk in reach and s_["rv"]["k"] == "agg" and s_["rv"].get("variant") == "Err"]
                r4.check(not oks and bool(errs), "removed-pool=>Err", "a missing pool makes Client::get_pool return Err", "a missing pool does not produce an error")
                lk = cgp.calls("pgcat::pool::get_pool")
                flds = {p_ for c in lk for a in c.args for o in origins(cgp, a) for p_ in o.proj if o.kind in ("place", "param")}
                r4.check({".pool_name", ".username"} <= flds, "lookup-key", "the lookup key is the client's own (pool_name, username)", "the lookup key is not (pool_name, username): %s" % sorted(flds))
        gpf = ctx.body("pgcat::pool::get_pool", r4)
        if gpf:
            r4.check("pgcat::pool::POOLS" in {o.what for c in gpf.calls("re:ArcSwapAny.*::load$") for o in origins(gpf, c.args[0]) if o.kind == "static"}, "get_pool-reads-POOLS", "pool::get_pool reads the POOLS static", "pool::get_pool does not read POOLS")
    # ---------------- R5 cross reference
    r5 = ctx.rule("C14-R5", "reload_config runs in tasks of its own (SIGHUP arm, autoreload; since D74 never inside main's select loop): configuration-derived panics in from_config are C15 obligations", floor=1, armed=False)
    m = F.body("bin:pgcat::main::{closure#1}")
    if m:
        r5.check(bool([n_ for n_ in rcallers if n_.startswith("bin:pgcat::main::{closure#1}::")]), "reload-in-tasks", "main spawns tasks that call reload_config (see C15 for the panic obligations)", "no task of main calls reload_config")

"""Mutant recipes for engine/selftest.py: one-hunk edits of /repo (applied to a scratch worktree
only) that break one property while still compiling; `expect` is the rule id the check must name."""

MUTANTS = [
    # ------------------------------------------------------------------ C09
    dict(id="c09-fallthrough-after-wrong-password", prop="C09", file="src/client.rs", expect="C09-R1",
         what="user-side refetch branch falls through after wrong_password (no return)",
         old='''                        } else {
                            wrong_password(&mut write, username).await?;
                            return Err(Error::ClientGeneralError(
                                "Invalid password".into(),
                                client_identifier,
                            ));
                        }''',
         new='''                        } else {
                            wrong_password(&mut write, username).await?;
                        }'''),
    dict(id="c09-constant-salt", prop="C09", file="src/client.rs", expect="C09-R2",
         what="second-pass hash computed with a constant salt",
         old="Some(md5_hash_second_pass(&hash.unwrap(), &salt))", new="Some(md5_hash_second_pass(&hash.unwrap(), &[0u8; 4]))"),
    dict(id="c09-admin-only-ignored", prop="C09", file="src/client.rs", expect="C09-R4",
         what="admin_only gate removed", old="        if !admin && admin_only {", new="        if !admin && admin_only && false {"),
    dict(id="c09-inverted-compare", prop="C09", file="src/client.rs", expect="C09-R1",
         what="admin password comparison inverted", old="                    if password_hash != password_response {", new="                    if password_hash == password_response {"),
    # ------------------------------------------------------------------ C02
    dict(id="c02-gate-not-consulted", prop="C02", file="src/server.rs", expect="C02-R2",
         what="is_bad no longer reports connections that skipped check-in cleanup",
         old='''        if self.needs_checkin_cleanup {
            return true;
        }''', new='''        if self.needs_checkin_cleanup {
            debug!("not cleaned");
        }'''),
    dict(id="c02-gate-cleared-early", prop="C02", file="src/server.rs", expect="C02-R",
         what="gate cleared before the ROLLBACK",
         old='''        if self.in_transaction() {
            warn!(target: "pgcat::server::cleanup", "Server returned while still in transaction, rolling back transaction");''',
         new='''        self.needs_checkin_cleanup = false;
        if self.in_transaction() {
            warn!(target: "pgcat::server::cleanup", "Server returned while still in transaction, rolling back transaction");'''),
    dict(id="c02-healthcheck-timeout-not-bad", prop="C02", file="src/pool.rs", expect="C02-R4",
         what="mark_bad removed after failed health check",
         old='''        server.mark_bad("failed health check");''', new='''        debug!("failed health check");'''),
    dict(id="c02-drop-reset-role", prop="C02", file="src/server.rs", expect="C02-R5",
         what="RESET ROLE dropped from the reset statement",
         old='''let mut reset_string = String::from("RESET ROLE;");''', new='''let mut reset_string = String::from("");'''),
    dict(id="c02-prepare-not-dirty", prop="C02", file="src/server.rs", expect="C02-R5",
         what="PREPARE no longer marks the connection dirty",
         old='''                                "PREPARE" => {
                                    debug!("Server connection marked for clean up");
                                    self.cleanup_state.needs_cleanup_prepare = true;''',
         new='''                                "PREPARE" => {
                                    debug!("Server connection marked for clean up");'''),
    dict(id="c02-copy-mode-reused", prop="C02", file="src/server.rs", expect="C02-R6",
         what="copy mode at check-in only warns again",
         old='''            self.mark_bad("returned while still in copy-mode");
            return Ok(());''', new='''            debug!("returned while still in copy-mode");
            return Ok(());'''),
    # ------------------------------------------------------------------ C05
    dict(id="c05-catchall-replica", prop="C05", file="src/query_router.rs", expect="C05-R1",
         what="write arm routes to the replica",
         old='''                    // Decide the role before anything below can bail out.
                    visited_write_statement = true;
                    self.active_role = Some(Role::Primary);''',
         new='''                    // Decide the role before anything below can bail out.
                    visited_write_statement = true;
                    self.active_role = Some(Role::Replica);'''),
    dict(id="c05-locks-ignored", prop="C05", file="src/query_router.rs", expect="C05-R2",
         what="row locks no longer inspected by the classifier",
         old='''                if !q.locks.is_empty() || body_writes(q.body.as_ref()) {''', new='''                if body_writes(q.body.as_ref()) {'''),
    dict(id="c05-into-ignored", prop="C05", file="src/query_router.rs", expect="C05-R2",
         what="SELECT INTO no longer inspected",
         old='''                SetExpr::Select(select) => {
                    let Select { into, .. } = select.as_ref();
                    into.is_some()
                }
''', new=''''''),
    dict(id="c05-flag-not-set", prop="C05", file="src/query_router.rs", expect="C05-R3",
         what="classifier verdict no longer sticky",
         old='''                        // The rest of the message must not move it off the primary.
                        visited_write_statement = true;
''', new='''                        // The rest of the message must not move it off the primary.
'''),
    dict(id="c05-filter-or-primary", prop="C05", file="src/pool.rs", expect="C05-R5",
         what="role filter also admits the primary",
         old='''            .filter(|address| address.role == role)''', new='''            .filter(|address| address.role == role || address.role == Role::Primary)'''),
    dict(id="c05-swap-replica-arm", prop="C05", file="src/query_router.rs", expect="C05-R6",
         what="SET SERVER ROLE TO 'replica' selects the primary",
         old='''                    "replica" => {
                        self.query_parser_enabled = Some(false);
                        Some(Role::Replica)''',
         new='''                    "replica" => {
                        self.query_parser_enabled = Some(false);
                        Some(Role::Primary)'''),
    dict(id="c05-get-default-role", prop="C05", file="src/client.rs", expect="C05-R4",
         what="checkout ignores the router's role",
         old='''                .get(query_router.shard(), query_router.role(), &self.stats)''', new='''                .get(query_router.shard(), None, &self.stats)'''),
    # ------------------------------------------------------------------ C13
    dict(id="c13-drop-anchor", prop="C13", file="src/query_router.rs", expect="C13-R1",
         what="SHOW SHARD regex loses its start anchor",
         old='''    r"(?i-u)^ *SHOW SHARD *;? *$",''', new='''    r"(?i-u) *SHOW SHARD *;? *$",'''),
    dict(id="c13-reorder-regexes", prop="C13", file="src/query_router.rs", expect="C13-R1",
         what="two regexes swapped (index no longer matches the command)",
         old='''    r"(?i-u)^ *SHOW SERVER ROLE *;? *$",
    r"(?i-u)^ *SET PRIMARY READS TO (?:'(on|off|default)'|(on|off|default)) *;? *$",''',
         new='''    r"(?i-u)^ *SET PRIMARY READS TO (?:'(on|off|default)'|(on|off|default)) *;? *$",
    r"(?i-u)^ *SHOW SERVER ROLE *;? *$",'''),
    dict(id="c13-no-reply", prop="C13", file="src/client.rs", expect="C13-R2",
         what="SET PRIMARY READS acknowledged without a reply",
         old='''                        custom_protocol_response_ok(&mut self.write, "SET PRIMARY READS").await?;''', new='''                        debug!("SET PRIMARY READS");'''),
    dict(id="c13-handled-falls-through", prop="C13", file="src/client.rs", expect="C13-R3",
         what="handled command falls through to the checkout",
         old='''                .handle_custom_protocol(&mut query_router, &message, &pool)
                .await?
            {
                continue;
            }''', new='''                .handle_custom_protocol(&mut query_router, &message, &pool)
                .await?
            {
                debug!("handled");
            }'''),
    dict(id="c13-unwrap-parse", prop="C13", file="src/query_router.rs", expect="C13-R5",
         what="oversized shard number panics again",
         old='''_ => Some(value.parse::<usize>().unwrap_or(usize::MAX)),''', new='''_ => Some(value.parse::<usize>().unwrap()),'''),
    # ------------------------------------------------------------------ C15
    dict(id="c15-no-contiguity", prop="C15", file="src/config.rs", expect="C15-V",
         what="contiguity validator disabled",
         old='''        if shard_ids.len() != self.shards.len()
            || shard_ids.iter().next_back() != Some(&(self.shards.len() - 1))
        {''', new='''        if false && (shard_ids.len() != self.shards.len()
            || shard_ids.iter().next_back() != Some(&(self.shards.len() - 1)))
        {'''),
    dict(id="c15-no-servers-check", prop="C15", file="src/config.rs", expect="C15-V",
         what="empty server list accepted",
         old='''        if self.servers.is_empty() {
            error!("Shard {} has no servers configured", self.database);
            return Err(Error::BadConfig);
        }''', new=''''''),
    dict(id="c15-new-unwrap", prop="C15", file="src/pool.rs", expect="C15-O",
         what="new unwrap on an unvalidated config value (checkout_failure_limit)",
         old='''                        checkout_failure_limit: pool_config.checkout_failure_limit,''',
         new='''                        checkout_failure_limit: Some(pool_config.checkout_failure_limit.unwrap()),'''),
    dict(id="c15-pool-size-zero", prop="C15", file="src/config.rs", expect="C15-V",
         what="pool_size = 0 accepted again",
         old='''        if self.pool_size == 0 {''', new='''        if self.pool_size == 0 && false {'''),
    # ------------------------------------------------------------------ C14
    dict(id="c14-store-before-validate", prop="C14", file="src/config.rs", expect="C14-R1",
         what="CONFIG published before validation",
         old='''    config.fill_up_auth_query_config();
    config.validate()?;

    config.path = path.to_string();

    // Update the configuration globally.
    CONFIG.store(Arc::new(config.clone()));
''', new='''    config.fill_up_auth_query_config();
    config.path = path.to_string();

    // Update the configuration globally.
    CONFIG.store(Arc::new(config.clone()));
    config.validate()?;
'''),
    dict(id="c14-store-in-loop", prop="C14", file="src/pool.rs", expect="C14-R2",
         what="POOLS published inside the users loop",
         old='''                new_pools.insert(PoolIdentifier::new(pool_name, &user.username), pool);
            }''', new='''                new_pools.insert(PoolIdentifier::new(pool_name, &user.username), pool);
                POOLS.store(Arc::new(new_pools.clone()));
            }'''),
    dict(id="c14-reuse-then-rebuild", prop="C14", file="src/pool.rs", expect="C14-R3",
         what="unchanged pool is carried over but then rebuilt anyway",
         old='''                        new_pools.insert(identifier.clone(), pool.clone());
                        continue;''', new='''                        new_pools.insert(identifier.clone(), pool.clone());'''),
    dict(id="c14-stale-pool", prop="C14", file="src/client.rs", expect="C14-R4",
         what="pool no longer re-resolved before checkout",
         old='''            // Refresh pool information, something might have changed.
            pool = self.get_pool().await?;
            query_router.update_pool_settings(&pool.settings);''', new='''            // Refresh pool information, something might have changed.
            query_router.update_pool_settings(&pool.settings);'''),
    dict(id="c14-reload-ignores-parse-error", prop="C14", file="src/config.rs", expect="C14-R2",
         what="reload continues to rebuild pools when parse failed",
         old='''        Err(err) => {
            error!("Config reload error: {:?}", err);
            return Err(Error::BadConfig);
        }
    };

    let new_config = get_config();''', new='''        Err(err) => {
            error!("Config reload error: {:?}", err);
        }
    };

    let new_config = get_config();'''),
    # ------------------------------------------------------------------ C19
    dict(id="c19-deny-swallowed-q", prop="C19", file="src/client.rs", expect="C19-R1",
         what="Deny in the transaction loop's Q arm no longer stops the query",
         old='''                                    Ok(PluginOutput::Deny(error)) => {
                                        error_response(&mut self.write, &error).await?;

                                        if self.transaction_mode
                                            && !server.in_transaction()
                                            && !server.in_copy_mode()
                                        {
                                            break;
                                        }

                                        continue;
                                    }

                                    Ok(PluginOutput::Intercept(result)) => {''',
         new='''                                    Ok(PluginOutput::Deny(error)) => {
                                        error_response(&mut self.write, &error).await?;
                                    }

                                    Ok(PluginOutput::Intercept(result)) => {'''),
    dict(id="c19-no-buffer-reset", prop="C19", file="src/client.rs", expect="C19-R1",
         what="pending Deny at Sync does not clear the buffered batch",
         old='''                                error_response(&mut self.write, &error).await?;
                                plugin_output = None;
                                self.forget_buffered_prepared_statements();
                                self.reset_buffered_state();
''',
         new='''                                error_response(&mut self.write, &error).await?;
                                plugin_output = None;
                                self.forget_buffered_prepared_statements();
'''),
    dict(id="c19-overwrite-again", prop="C19", file="src/client.rs", expect="C19-R2",
         what="idle-loop Parse arm overwrites the pending verdict again",
         old='''                                    let _ = query_router
                                        .infer_for_batch(&ast, earlier_statement_in_batch);
                                }
                            }
                            Err(error) => {''',
         new='''                                    let _ = query_router
                                        .infer_for_batch(&ast, earlier_statement_in_batch);
                                }
                                if let Ok(o) = query_router.execute_plugins(&ast).await { plugin_output = Some(o); }
                            }
                            Err(error) => {'''),
    dict(id="c19-no-case-fold", prop="C19", file="src/plugins/table_access.rs", expect="C19-R4",
         what="unquoted names no longer folded",
         old='''                Some(ident) => ident.value.to_lowercase(),''', new='''                Some(ident) => ident.value.clone(),'''),
    dict(id="c19-tablecheck-before-intercept-removed", prop="C19", file="src/query_router.rs", expect="C19-R5",
         what="table_access no longer dispatched",
         old='''            let result = table_access.run(self, ast).await;''', new='''            let result: Result<PluginOutput, Error> = { let _ = &mut table_access; Ok(PluginOutput::Allow) };'''),
    dict(id="c19-keep-denied-statement", prop="C19", file="src/client.rs", expect="C19-R6",
         what="denied batch keeps its prepared statements (idle-loop Deny)",
         old='''            if let Some(PluginOutput::Deny(error)) = plugin_output {
                self.forget_buffered_prepared_statements();''',
         new='''            if let Some(PluginOutput::Deny(error)) = plugin_output {'''),
    # ------------------------------------------------------------------ C10
    dict(id="c10-no-release", prop="C10", file="src/client.rs", expect="C10-R3",
         what="release() dropped from the normal release path",
         old='''            self.connected_to_server = false;

            self.release();
            self.stats.idle();''', new='''            self.connected_to_server = false;

            self.stats.idle();'''),
    dict(id="c10-cancel-with-client-key", prop="C10", file="src/client.rs", expect="C10-R4",
         what="cancel sent with the client's key instead of the server's",
         old='''            return Server::cancel(&address, port, process_id, secret_key).await;''',
         new='''            let _ = (process_id, secret_key);
            return Server::cancel(&address, port, self.process_id, self.secret_key).await;'''),
    dict(id="c10-insert-in-release", prop="C10", file="src/client.rs", expect="C10-R1",
         what="a second writer of the cancel map",
         old='''        guard.remove(&(self.process_id, self.secret_key));
    }

    async fn send_and_receive_loop(''',
         new='''        guard.remove(&(self.process_id, self.secret_key));
        guard.insert((self.process_id, 0), (0, 0, String::new(), 0));
    }

    async fn send_and_receive_loop('''),
    dict(id="c10-claim-stores-client-pid", prop="C10", file="src/server.rs", expect="C10-R2",
         what="claim stores the client's pid as the server pid",
         old='''            (
                self.process_id,
                self.secret_key,
                self.address.host.clone(),''',
         new='''            (
                process_id,
                self.secret_key,
                self.address.host.clone(),'''),
    dict(id="c10-cancel-on-miss", prop="C10", file="src/client.rs", expect="C10-R4",
         what="unknown key still contacts a server",
         old='''                    None => return Ok(()),
                }
            };''',
         new='''                    None => (0, 0, String::from("127.0.0.1"), 5432u16),
                }
            };'''),
    dict(id="c10-key-by-pid-only", prop="C10", file="src/client.rs", expect="C10-R",
         what="Drop removes a different key",
         old='''            let mut guard = self.client_server_map.lock();
            guard.remove(&(self.process_id, self.secret_key));
        }

        // Dirty shutdown''',
         new='''            let mut guard = self.client_server_map.lock();
            guard.remove(&(self.process_id, 0));
        }

        // Dirty shutdown'''),
    # ------------------------------------------------------------------ C08
    dict(id="c08-encoder-field-order", prop="C08", file="src/messages.rs", expect="C08-R1",
         what="Parse encoder writes the parameter count as i32",
         old='''        bytes.put_i16(parse.num_params);
        for param in parse.param_types {''', new='''        bytes.put_i32(parse.num_params as i32);
        for param in parse.param_types {'''),
    dict(id="c08-hash-includes-name", prop="C08", file="src/messages.rs", expect="C08-R2",
         what="cache key depends on the client's statement name",
         old='''        self.query.hash(&mut hasher);''', new='''        self.name.hash(&mut hasher);
        self.query.hash(&mut hasher);'''),
    dict(id="c08-hash-ignores-types", prop="C08", file="src/messages.rs", expect="C08-R2",
         what="cache key ignores parameter types",
         old='''        self.param_types.hash(&mut hasher);''', new=''''''),
    dict(id="c08-bind-before-ensure", prop="C08", file="src/client.rs", expect="C08-R3",
         what="Bind appended before the statement is ensured on the server",
         old='''                                ExtendedProtocolData::Bind { data, metadata } => {
                                    // This is using a prepared statement
                                    if let Some((parse, hash)) = metadata {''',
         new='''                                ExtendedProtocolData::Bind { data, metadata } => {
                                    self.buffer.put(&data[..]);
                                    // This is using a prepared statement
                                    if let Some((parse, hash)) = metadata {'''),
    dict(id="c08-evicted-not-recorded", prop="C08", file="src/server.rs", expect="C08-R5",
         what="evicted statement is neither closed nor recorded for closing",
         old='''                self.remove_prepared_statement_from_cache(&evicted_name);
                self.evicted_prepared_statements.push(evicted_name);''', new='''                self.remove_prepared_statement_from_cache(&evicted_name);'''),
    dict(id="c08-eager-close-again", prop="C08", file="src/server.rs", expect="C08-R7",
         what="D12 again: the eviction Close is sent from inside batch assembly",
         old='''                self.remove_prepared_statement_from_cache(&evicted_name);
                self.evicted_prepared_statements.push(evicted_name);''',
         new='''                self.remove_prepared_statement_from_cache(&evicted_name);
                let close_bytes: BytesMut = Close::new(&evicted_name).try_into()?;
                bytes.extend_from_slice(&close_bytes);'''),
    dict(id="c08-flush-after-assembly", prop="C08", file="src/client.rs", expect="C08-R7",
         what="recorded statements are closed after the batch was assembled but before it is sent",
         old='''                        // Add the sync message
                        self.buffer.put(&message[..]);

                        let mut should_send_to_server = true;''',
         new='''                        server.close_evicted_prepared_statements().await?;

                        // Add the sync message
                        self.buffer.put(&message[..]);

                        let mut should_send_to_server = true;'''),
    dict(id="c08-no-take-back", prop="C08", file="src/server.rs", expect="C08-R7",
         what="a statement recorded for closing (still on the server) is prepared again under the same name",
         old='''        if !has_it {
            if let Some(position) = self''', new='''        if false {
            if let Some(position) = self'''),
    dict(id="c08-flush-drops-names", prop="C08", file="src/server.rs", expect="C08-R5",
         what="the flush forgets the recorded names without closing them",
         old='''        if self.evicted_prepared_statements.is_empty() {
            return Ok(());
        }
''', new='''        if self.evicted_prepared_statements.len() < 64 {
            self.evicted_prepared_statements.clear();
            return Ok(());
        }
'''),
    dict(id="c08-flush-never-called", prop="C08", file="src/client.rs", expect="C08-R5",
         what="nobody closes the recorded statements",
         old='''                        server.close_evicted_prepared_statements().await?;
''', new=''''''),
    dict(id="c08-take-back-forgets-evicted", prop="C08", file="src/server.rs", expect="C08-R5",
         what="taking a statement back evicts another one which is then forgotten",
         old='''                if let Some(evicted_name) = self.add_prepared_statement_to_cache(name) {
                    self.evicted_prepared_statements.push(evicted_name);
                }
                has_it = true;''', new='''                self.add_prepared_statement_to_cache(name);
                has_it = true;'''),
    dict(id="c08-z-keeps-waiting", prop="C08", file="src/server.rs", expect="C08-R8",
         what="D13 again: names still waiting at ReadyForQuery stay in the cache",
         old='''                    while let Some(prepared_stmt_name) =
                        self.registering_prepared_statement.pop_front()
                    {
                        if let Some(ref mut cache) = self.prepared_statement_cache {
                            cache.pop(&prepared_stmt_name);
                        }
                    }
''', new=''''''),
    dict(id="c08-z-pops-without-uncache", prop="C08", file="src/server.rs", expect="C08-R8",
         what="the waiting queue is emptied at ReadyForQuery but the cache keeps the names",
         old='''                        if let Some(ref mut cache) = self.prepared_statement_cache {
                            cache.pop(&prepared_stmt_name);
                        }
                    }

                    // There is no more data available from the server.''',
         new='''                        debug!("Prepared statement {} was skipped", prepared_stmt_name);
                    }

                    // There is no more data available from the server.'''),
    dict(id="c08-immediate-not-set-aside", prop="C08", file="src/server.rs", expect="C08-R8",
         what="a Parse sent on the spot is answered with the batch's names waiting in front of it",
         old='''            if should_send_parse_to_server {
                std::mem::swap(
                    &mut registered_for_batch,
                    &mut self.registering_prepared_statement,
                );
            }
''', new=''''''),
    dict(id="c08-immediate-not-put-back", prop="C08", file="src/server.rs", expect="C08-R8",
         what="the names registered for the batch are lost after an on-the-spot Parse",
         old='''            if should_send_parse_to_server {
                self.registering_prepared_statement = registered_for_batch;
            }
''', new='''            drop(registered_for_batch);
'''),
    dict(id="c08-error-keeps-cache", prop="C08", file="src/server.rs", expect="C08-R8",
         what="ErrorResponse no longer drops the waiting statement from the cache",
         old='''                            if let Some(_removed) = cache.pop(&prepared_stmt_name) {''',
         new='''                            if let Some(_removed) = cache.peek(&prepared_stmt_name) {'''),
    dict(id="c08-parse-query-lossy", prop="C08", file="src/messages.rs", expect="C08-R9",
         what="D19 again: the query text of a Parse is decoded lossily before it is re-encoded",
         old='''        let name = cursor.read_string()?;
        let query = read_cstring_bytes(&mut cursor)?;''', new='''        let name = cursor.read_string()?;
        let query = cursor.read_string()?.into_bytes();'''),
    dict(id="c08-bind-rename-lossy-length", prop="C08", file="src/messages.rs", expect="C08-R9",
         what="D19 again: Bind::rename measures the lossily decoded statement name",
         old='''        let prepared_statement = read_cstring_bytes(&mut cursor)?;

        // Calculate new length''', new='''        let prepared_statement = cursor.read_string()?;

        // Calculate new length'''),
    dict(id="c08-close-applied-at-replay", prop="C08", file="src/client.rs", expect="C08-R4",
         what="D33 again: the Close is applied to the name map when the batch is replayed",
         old='''                                        // The name was forgotten when the Close was read, in its place among the
                                        // Parse messages of the batch.''',
         new='''                                        self.prepared_statements.remove(&close.name);'''),
    dict(id="c08-rewrite-changes-query", prop="C08", file="src/messages.rs", expect="C08-R6",
         what="rewrite touches more than the name",
         old='''            PREPARED_STATEMENT_COUNTER.fetch_add(1, Ordering::SeqCst)
        );
        self''', new='''            PREPARED_STATEMENT_COUNTER.fetch_add(1, Ordering::SeqCst)
        );
        self.query = self.query.trim_ascii().to_vec();
        self'''),
    dict(id="c08-insert-under-rewritten-name", prop="C08", file="src/client.rs", expect="C08-R4",
         what="client map keyed by the rewritten name",
         old='''            .insert(client_given_name.clone(), (new_parse.clone(), hash));''', new='''            .insert(new_parse.name.clone(), (new_parse.clone(), hash));'''),
    dict(id="c15-guard-skips-auth-query", prop="C15", file="src/config.rs", expect="C15-S",
         what="D15 again: is_auth_query_configured does not test auth_query",
         old='''        self.auth_query.is_some()
            && self.auth_query_user.is_some()''', new='''        self.auth_query_user.is_some()'''),
    dict(id="c02-rollback-not-verified", prop="C02", file="src/server.rs", expect="C02-R5",
         what="D14 again: the transaction state is not re-read after the check-in ROLLBACK",
         old='''            if self.in_transaction() {
                self.mark_bad("still in a transaction after ROLLBACK");
            }
''', new=''''''),
    dict(id="c01-rollback-not-verified", prop="C01", file="src/server.rs", expect="C01-R7",
         what="D14 again (seen from C01): a connection still in a transaction after ROLLBACK is reused",
         old='''            if self.in_transaction() {
                self.mark_bad("still in a transaction after ROLLBACK");
            }
''', new='''            if self.in_transaction() {
                warn!("still in a transaction after ROLLBACK");
            }
'''),
    dict(id="c13-primary-reads-value-as-written", prop="C13", file="src/query_router.rs", expect="C13-R4",
         what="D18 again: the SET PRIMARY READS keyword is compared as written",
         old='''                // The command is recognized whatever its case, so is its value.
                match value.to_ascii_lowercase().as_ref() {''', new='''                match value.as_ref() {'''),
    dict(id="c11-parse-length-from-count", prop="C11", file="src/messages.rs", expect="C11-R7",
         what="D21 again: frame length of a re-encoded Parse computed from the client's count",
         old='''            + 4 * parse.param_types.len(); // what is written below, whatever count the client announced''',
         new='''            + 4 * parse.num_params as usize;'''),
    dict(id="c11-parser-recursion-raised", prop="C11", file="src/query_router.rs", expect="C11-R6",
         what="the SQL parser's recursion limit is raised",
         old='''        match Parser::parse_sql(&PostgreSqlDialect {}, &query) {''',
         new='''        match Parser::new(&PostgreSqlDialect {}).with_recursion_limit(512).try_with_sql(&query).and_then(|mut p| p.parse_statements()) {'''),
    dict(id="c05-last-parse-wins", prop="C05", file="src/client.rs", expect="C05-R7",
         what="D22 again: the role is inferred anew at every buffered Parse",
         old='''                                    let _ = query_router
                                        .infer_for_batch(&ast, earlier_statement_in_batch);''',
         new='''                                    let _ = earlier_statement_in_batch;
                                    let _ = query_router.infer(&ast);'''),
    dict(id="c05-batch-primary-not-restored", prop="C05", file="src/query_router.rs", expect="C05-R7",
         what="infer_for_batch no longer re-establishes the earlier primary decision",
         old='''        if primary_needed_so_far && self.pool_settings.query_parser_read_write_splitting {
            self.active_role = Some(Role::Primary);
        }
''', new='''        if primary_needed_so_far && self.pool_settings.query_parser_read_write_splitting {
            debug!("An earlier Parse of this batch needs the primary");
        }
'''),
    dict(id="c06-bind-non-key-not-skipped", prop="C06", file="src/query_router.rs", expect="C06-R5",
         what="D23 again: parameters that are not the key are not stepped over",
         old='''            } else {
                // Not a sharding key, the next parameter starts after it.
                message_cursor.advance(len);
            }''', new='''            }'''),
    dict(id="c06-placeholder-without-found", prop="C06", file="src/query_router.rs", expect="C06-R5",
         what="D24 again: every placeholder on the right of a comparison is a sharding key placeholder",
         old='''                Expr::Value(Value::Placeholder(placeholder)) => {
                    if found {''', new='''                Expr::Value(Value::Placeholder(placeholder)) => {
                    if found || true {'''),
    dict(id="c06-binary-unsigned", prop="C06", file="src/query_router.rs", expect="C06-R5",
         what="binary int4 key decoded without its sign",
         old='''                        4 => message_cursor.get_i32() as i64,''', new='''                        4 => message_cursor.get_u32() as i64,'''),
    dict(id="c02-copy-mode-tested-last", prop="C02", file="src/server.rs", expect="C02-R6",
         what="D25 again: check-in sends its queries before looking at COPY mode",
         old='''        if self.in_copy_mode() {
            warn!(target: "pgcat::server::cleanup", "Server returned while still in copy-mode");
            self.mark_bad("returned while still in copy-mode");
            return Ok(());
        }

''', new=''''''),
    dict(id="c19-failed-sync-keeps-verdict", prop="C19", file="src/client.rs", expect="C19-R6",
         what="D26 again: the checkout-failure arm discards the batch but keeps the statements and the verdict",
         old='''                        self.forget_buffered_prepared_statements();
                        self.reset_buffered_state();
                        plugin_output = None;
                    }
''', new='''                        self.reset_buffered_state();
                    }
'''),
    dict(id="c10-cancel-object-removes-target", prop="C10", file="src/client.rs", expect="C10-R2",
         what="D27 again: the cancel-request object removes the target's entry when dropped",
         old='''        if !self.cancel_mode {
            let mut guard = self.client_server_map.lock();
            guard.remove(&(self.process_id, self.secret_key));
        }''', new='''        {
            let mut guard = self.client_server_map.lock();
            guard.remove(&(self.process_id, self.secret_key));
        }'''),
    dict(id="c03-copydone-reply-read-once", prop="C03", file="src/client.rs", expect="C03-R4",
         what="D28 again: the reply to CopyDone is read once",
         old='''                            if !server.is_data_available() {
                                break;
                            }
                        }

                        // The reply can also open the next COPY of the same query''',
         new='''                            break;
                        }

                        // The reply can also open the next COPY of the same query'''),
    dict(id="c11-stray-message-in-copy-mode", prop="C11", file="src/client.rs", expect="C11-R9",
         what="D29 again: a Query is forwarded while the server is in COPY mode",
         old='''                if server.in_copy_mode() && !matches!(code, 'd' | 'c' | 'f' | 'H') {''',
         new='''                if server.in_copy_mode() && matches!(code, 'X') {'''),
    dict(id="c03-copyin-keeps-data-available", prop="C03", file="src/server.rs", expect="C03-R4",
         what="D30 again: CopyInResponse leaves data_available set",
         old='''                    // The server waits for the client now, whatever came before in this reply.
                    self.data_available = false;
''', new=''''''),
    dict(id="c18-copy-start-counted", prop="C18", file="src/client.rs", expect="C18-R5",
         what="D32 again: a round trip that only started a COPY counts a transaction",
         old='''                        // A COPY that has only started is counted, and the server released, when it ends.
                        if !server.in_transaction() && !server.in_copy_mode() {
                            // Report transaction executed statistics.''',
         new='''                        if !server.in_transaction() {
                            // Report transaction executed statistics.'''),
    dict(id="c12-sync-error-ignored", prop="C12", file="src/server.rs", expect="C12-R1",
         what="D31 again: an ErrorResponse to the parameter sync is ignored",
         old='''        if res.is_ok() && self.query_failed {
            self.mark_bad("the server refused a parameter of the client");
            return Err(Error::ServerError);
        }
''', new=''''''),
    dict(id="c15-worker-threads-unchecked", prop="C15", file="src/config.rs", expect="C15-V",
         what="D34 again: worker_threads = 0 is accepted",
         old='''        if self.general.worker_threads == 0 {''', new='''        if false && self.general.worker_threads == 0 {'''),
    dict(id="c15-duplicate-usernames-accepted", prop="C15", file="src/config.rs", expect="C15-V",
         what="D34 again: users named alike in one pool are accepted",
         old='''            if !usernames.insert(user.username.as_str()) {''', new='''            if !usernames.insert(user.username.as_str()) && self.users.is_empty() {'''),
    # ------------------------------------------------------------------ C12
    dict(id="c12-raw-value", prop="C12", file="src/server.rs", expect="C12-R2",
         what="value interpolated without escaping again",
         old='''            let value = value.replace('\\\\', "\\\\\\\\").replace('\\'', "''");
''', new=''''''),
    dict(id="c12-sync-after-first-send", prop="C12", file="src/client.rs", expect="C12-R1",
         what="parameters synchronised only when the client has non-default parameters (skipped otherwise)",
         old='''            server.sync_parameters(&self.server_parameters).await?;''',
         new='''            if self.prepared_statements_enabled {
                server.sync_parameters(&self.server_parameters).await?;
            }'''),
    dict(id="c12-client-map-not-updated", prop="C12", file="src/client.rs", expect="C12-R3",
         what="client traffic no longer passes the client's parameter map to recv",
         old='''            server.recv(Some(&mut self.server_parameters)),''', new='''            server.recv(None),'''),
    dict(id="c12-untracked-timezone", prop="C12", file="src/server.rs", expect="C12-R5",
         what="TimeZone dropped from the tracked set",
         old='''    set.insert("TimeZone".to_string());
''', new=''''''),
    dict(id="c12-tell-before-merge", prop="C12", file="src/client.rs", expect="C12-R4",
         what="startup parameters merged after the client was told the values",
         old='''        server_parameters.set_from_hashmap(&parameters, false);

        debug!("Password authentication successful");

        auth_ok(&mut write).await?;
        write_all(&mut write, (&server_parameters).into()).await?;''',
         new='''        debug!("Password authentication successful");

        auth_ok(&mut write).await?;
        write_all(&mut write, (&server_parameters).into()).await?;
        server_parameters.set_from_hashmap(&parameters, false);'''),
    # ------------------------------------------------------------------ C01
    dict(id="c01-release-in-transaction", prop="C01", file="src/client.rs", expect="C01-R1",
         what="Q arm releases without looking at in_transaction()",
         old="""                        if !server.in_transaction() && !server.in_copy_mode() {
                            // Report transaction executed statistics.""",
         new="""                        if !server.in_copy_mode() {
                            // Report transaction executed statistics."""),
    dict(id="c01-release-in-copy", prop="C01", file="src/client.rs", expect="C01-R2",
         what="Q arm releases although a COPY may have started (both copy tests of the arm removed)",
         old="""                        if !server.in_transaction() && !server.in_copy_mode() {
                            // Report transaction executed statistics.
                            self.stats.transaction();
                            server
                                .stats()
                                .transaction(self.server_parameters.get_application_name());

                            // Release server back to the pool if we are in transaction mode.
                            // If we are in session mode, we keep the server until the client disconnects.
                            if self.transaction_mode && !server.in_copy_mode() {
                                self.stats.idle();""",
         new="""                        if !server.in_transaction() {
                            // Report transaction executed statistics.
                            self.stats.transaction();
                            server
                                .stats()
                                .transaction(self.server_parameters.get_application_name());

                            // Release server back to the pool if we are in transaction mode.
                            // If we are in session mode, we keep the server until the client disconnects.
                            if self.transaction_mode {
                                self.stats.idle();"""),
    dict(id="c01-session-mode-releases", prop="C01", file="src/client.rs", expect="C01-R3",
         what="Sync arm releases in session mode too",
         old='''                            if self.transaction_mode && !server.in_copy_mode() {
                                break;
                            }''',
         new='''                            if !server.in_copy_mode() {
                                break;
                            }'''),
    dict(id="c01-shared-server-field", prop="C01", file="src/pool.rs", expect="C01-R5",
         what="a struct that can park a shared server connection",
         old='''/// Wrapper for the bb8 connection pool.
pub struct ServerPool {''',
         new='''pub struct Parked {
    pub conn: Option<std::sync::Arc<parking_lot::Mutex<crate::server::Server>>>,
}

/// Wrapper for the bb8 connection pool.
pub struct ServerPool {'''),
    # ------------------------------------------------------------------ C18
    dict(id="c18-ok-without-disconnect", prop="C18", file="src/client.rs", expect="C18-R1",
         what="Terminate in the idle loop returns without disconnect",
         old='''                debug!("Client disconnecting");

                self.stats.disconnect();

                return Ok(());''', new='''                debug!("Client disconnecting");

                return Ok(());'''),
    dict(id="c18-total-reset", prop="C18", file="src/stats/address.rs", expect="C18-R4",
         what="a total is reset together with the per-period counters",
         old='''        self.current.errors.store(0, Ordering::Relaxed);
    }''', new='''        self.current.errors.store(0, Ordering::Relaxed);
        self.total.errors.store(0, Ordering::Relaxed);
    }'''),
    dict(id="c18-drop-no-disconnect", prop="C18", file="src/server.rs", expect="C18-R2",
         what="Server::drop no longer removes its stats entry",
         old='''        // Update statistics
        self.stats.disconnect();

        let mut bytes = BytesMut::with_capacity(5);''', new='''        let mut bytes = BytesMut::with_capacity(5);'''),
    dict(id="c18-forget-without-idle", prop="C18", file="src/client.rs", expect="C18-R3",
         what="server not marked idle on release",
         old='''            server.stats().idle();
            self.connected_to_server = false;''', new='''            self.connected_to_server = false;'''),
    dict(id="c18-sync-not-counted", prop="C18", file="src/client.rs", expect="C18-R5",
         what="Sync arm releases without counting the transaction on the server",
         old="""                            if should_send_to_server {
                                self.stats.transaction();
                                server
                                    .stats()
                                    .transaction(self.server_parameters.get_application_name());
                            }
""", new="""                            if should_send_to_server {
                                self.stats.transaction();
                            }
"""),
    dict(id="c18-failed-checkout-stays-waiting", prop="C18", file="src/client.rs", expect="C18-R3",
         what="failed checkout leaves the client waiting",
         old='''                    // protocol buffer
                    self.stats.idle();
''', new='''                    // protocol buffer
'''),
    # ------------------------------------------------------------------ C16
    dict(id="c16-read-before-register", prop="C16", file="src/pool.rs", expect="C16-R1",
         what="flag read before the waiter is registered (lost wake-up window)",
         old='''        let waiter = self.paused_waiter.notified();
        let paused = self.paused.load(Ordering::Relaxed);
''', new='''        let paused = self.paused.load(Ordering::Relaxed);
        let waiter = self.paused_waiter.notified();
'''),
    dict(id="c16-notify-before-clear", prop="C16", file="src/pool.rs", expect="C16-R2",
         what="waiters woken before the flag is cleared",
         old='''        self.paused.store(false, Ordering::Relaxed);
        self.paused_waiter.notify_waiters();''', new='''        self.paused_waiter.notify_waiters();
        self.paused.store(false, Ordering::Relaxed);'''),
    dict(id="c16-notify-one", prop="C16", file="src/pool.rs", expect="C16-R2",
         what="only one held client is released",
         old='''        self.paused_waiter.notify_waiters();''', new='''        self.paused_waiter.notify_one();'''),
    dict(id="c16-gate-skipped-for-sync", prop="C16", file="src/client.rs", expect="C16-R3",
         what="extended-protocol Sync bypasses the pause gate",
         old='''            pool.wait_paused().await;''', new='''            if message[0] as char != 'S' {
                pool.wait_paused().await;
            }'''),
    dict(id="c16-admin-pause-first-pool-only", prop="C16", file="src/admin.rs", expect="C16-R4",
         what="global PAUSE stops after the first pool",
         old='''            for (_, pool) in get_all_pools() {
                pool.pause();
            }''', new='''            if let Some((_, pool)) = get_all_pools().into_iter().next() {
                pool.pause();
            }'''),
    # ------------------------------------------------------------------ C07
    dict(id="c07-primary-bannable", prop="C07", file="src/pool.rs", expect="C07-R1",
         what="the primary guard in ban() removed",
         old='''        // Primary can never be banned
        if address.role == Role::Primary {
            return;
        }
''', new=''''''),
    dict(id="c07-failed-checkout-returns", prop="C07", file="src/pool.rs", expect="C07-R",
         what="a failed checkout of one candidate ends the search",
         old='''                    address.stats.error();
                    client_stats.checkout_error();
                    continue;''', new='''                    address.stats.error();
                    client_stats.checkout_error();
                    return Err(Error::AllServersDown);'''),
    dict(id="c07-failed-checkout-no-ban", prop="C07", file="src/pool.rs", expect="C07-R2",
         what="failed checkout no longer bans",
         old='''                    self.ban(address, BanReason::FailedCheckout, Some(client_stats));
''', new=''''''),
    dict(id="c07-skip-try-unban", prop="C07", file="src/pool.rs", expect="C07-R3",
         what="banned addresses are used without try_unban",
         old='''            if self.is_banned(address) {
                if self.try_unban(address).await {''', new='''            if self.is_banned(address) {
                if self.try_unban(address).await || true {'''),
    dict(id="c07-unban-all-off-by-one", prop="C07", file="src/pool.rs", expect="C07-R5",
         what="unban-all compares with a constant instead of the replica count",
         old='''        let all_replicas_banned = read_guard[address.shard].len() == replicas_available;''',
         new='''        let _ = replicas_available;
        let all_replicas_banned = read_guard[address.shard].len() == 3;'''),
    dict(id="c07-receive-untimed", prop="C07", file="src/client.rs", expect="C07-R6",
         what="server replies awaited without the statement timeout",
         old='''        match tokio::time::timeout(
            statement_timeout_duration,
            server.recv(Some(&mut self.server_parameters)),
        )
        .await
        {''', new='''        let _ = statement_timeout_duration;
        match Ok::<_, tokio::time::error::Elapsed>(server.recv(Some(&mut self.server_parameters)).await)
        {'''),
    dict(id="c07-send-error-no-ban", prop="C07", file="src/client.rs", expect="C07-R2",
         what="a failed send no longer bans the server",
         old='''            Err(err) => {
                pool.ban(address, BanReason::MessageSendFailed, Some(&self.stats));
                Err(err)
            }
        }
    }''', new='''            Err(err) => {
                let _ = (pool, address);
                Err(err)
            }
        }
    }'''),
    # ------------------------------------------------------------------ C04
    dict(id="c04-max-size-doubled", prop="C04", file="src/pool.rs", expect="C04-R1",
         what="bb8 max_size is twice the configured pool_size",
         old='''                            .max_size(user.pool_size)''', new='''                            .max_size(user.pool_size * 2)'''),
    dict(id="c04-guard-forgotten", prop="C04", file="src/client.rs", expect="C04-R",
         what="the guard is forgotten instead of dropped on release (connection never returns to the pool)",
         old='''            self.release();
            self.stats.idle();
        }
    }''', new='''            self.release();
            self.stats.idle();
            std::mem::forget(reference);
        }
    }'''),
    dict(id="c04-failed-checkout-disconnects", prop="C04", file="src/client.rs", expect="C04-R4",
         what="a failed checkout ends the session",
         old='''                    checkout_failure_count += 1;
                    if let Some(limit) = pool.settings.checkout_failure_limit {''',
         new='''                    checkout_failure_count += 1;
                    if checkout_failure_count > 0 {
                        return Err(err);
                    }
                    if let Some(limit) = pool.settings.checkout_failure_limit {'''),
    # ------------------------------------------------------------------ C06
    dict(id="c06-rot-5", prop="C06", file="src/sharding.rs", expect="C06-R4",
         what="one rotation amount in mix changed (4 -> 5)",
         old='''        a = a.wrapping_sub(c);
        a ^= Self::rot(c, 4);
        c = c.wrapping_add(b);

        b = b.wrapping_sub(a);
        b ^= Self::rot(a, 6);''', new='''        a = a.wrapping_sub(c);
        a ^= Self::rot(c, 5);
        c = c.wrapping_add(b);

        b = b.wrapping_sub(a);
        b ^= Self::rot(a, 6);'''),
    dict(id="c06-final-swapped-operands", prop="C06", file="src/sharding.rs", expect="C06-R4",
         what="b and c swapped in the returned 64-bit value",
         old='''        ((b as u64) << 32) | (c as u64)''', new='''        ((c as u64) << 32) | (b as u64)'''),
    dict(id="c06-negative-keys", prop="C06", file="src/sharding.rs", expect="C06-R4",
         what="negative keys no longer complement the high half",
         old='''        lohalf ^= if key >= 0 { hihalf } else { !hihalf };''', new='''        lohalf ^= hihalf;'''),
    dict(id="c06-shard-gt", prop="C06", file="src/client.rs", expect="C06-R2",
         what="SET SHARD range check off by one",
         old='''                                if selected_shard >= pool.shards() {''', new='''                                if selected_shard > pool.shards() {'''),
    dict(id="c06-no-retain", prop="C06", file="src/pool.rs", expect="C06-R3",
         what="explicit shard no longer narrows the candidates",
         old='''            Some(shard_id) => candidates.retain(|address| address.shard == shard_id),''',
         new='''            Some(shard_id) => { let _ = shard_id; }'''),
    dict(id="c06-key-modulo", prop="C06", file="src/query_router.rs", expect="C06-R1",
         what="SET SHARDING KEY uses key % shards instead of the sharder",
         old='''        let shard = sharder.shard(sharding_key);
        self.set_shard(Some(shard));''', new='''        let _ = sharder;
        let shard = sharding_key as usize % self.pool_settings.shards;
        self.set_shard(Some(shard));'''),
    dict(id="c01-copydone-arm-releases-during-next-copy", prop="C01", file="src/client.rs", expect="C01-R2",
         what="the CopyDone arm releases the server although its reply opened the next COPY (D37 again)",
         old="""                        if !server.in_transaction() && !server.in_copy_mode() {
                            self.stats.transaction();
                            server
                                .stats()
                                .transaction(self.server_parameters.get_application_name());

                            // Release server back to the pool if we are in transaction mode.
                            // If we are in session mode, we keep the server until the client disconnects.
                            if self.transaction_mode {
                                break;
                            }
                        }
                    }

                    // Some unexpected message.""", new="""                        if !server.in_transaction() {
                            self.stats.transaction();
                            server
                                .stats()
                                .transaction(self.server_parameters.get_application_name());

                            // Release server back to the pool if we are in transaction mode.
                            // If we are in session mode, we keep the server until the client disconnects.
                            if self.transaction_mode {
                                break;
                            }
                        }
                    }

                    // Some unexpected message."""),
    dict(id="c11-stray-copydone-awaited", prop="C11", file="src/client.rs", expect="C11-R11",
         what="a CopyDone outside COPY mode is forwarded and its reply awaited (D38 again)",
         old="""                        if !server.in_copy_mode() {
                            self.buffer.clear();

                            if !server.in_transaction() && self.transaction_mode {
                                break;
                            }

                            continue;
                        }
""", new="""                        if !server.in_copy_mode() && self.buffer.len() > 1 << 30 {
                            self.buffer.clear();

                            if !server.in_transaction() && self.transaction_mode {
                                break;
                            }

                            continue;
                        }
"""),
    dict(id="c08-client-discard-all-not-tracked", prop="C08", file="src/server.rs", expect="C08-R5",
         what="the DISCARD ALL command tag no longer empties the statement cache (half of D39 again)",
         old="""                                "DEALLOCATE ALL" | "DISCARD ALL" => {""", new="""                                "DEALLOCATE ALL" => {"""),
    dict(id="c03-stalled-client-kept", prop="C03", file="src/client.rs", expect="C03-R8",
         what="a client whose message was cut by the deadline is kept (D40 again)",
         old="""                                return Err(Error::ClientError(
                                    "idle in transaction timeout in the middle of a message"
                                        .into(),
                                ));""", new="""                                break;"""),
    dict(id="c13-optional-single-quotes", prop="C13", file="src/query_router.rs", expect="C13-R1",
         what="SET SHARD accepts a value with one quote only (D43 again)",
         old="""    r"(?i-u)^ *SET SHARD TO (?:'([0-9]+|ANY)'|([0-9]+|ANY)) *;? *$",""", new="""    r"(?i-u)^ *SET SHARD TO '?([0-9]+|ANY)'? *;? *$","""),
    dict(id="c13-unicode-case-folding", prop="C13", file="src/query_router.rs", expect="C13-R1",
         what="SHOW SHARD folds case the Unicode way again (D43 again)",
         old="""    r"(?i-u)^ *SHOW SHARD *;? *$",""", new="""    r"(?i)^ *SHOW SHARD *;? *$","""),
    dict(id="c13-bare-value-group-not-read", prop="C13", file="src/query_router.rs", expect="C13-R1",
         what="only the quoted value group is read: bare values are lost",
         old="""captures.get(1).or_else(|| captures.get(2))""", new="""captures.get(1)"""),
    dict(id="c14-failed-rebuild-keeps-new-config", prop="C14", file="src/config.rs", expect="C14-R2",
         what="a failed rebuild leaves the new file published as CONFIG (D44 again)",
         old="""            CONFIG.store(Arc::new(old_config));
            return Err(err);""", new="""            return Err(err);"""),
    dict(id="c14-restore-without-failure", prop="C14", file="src/config.rs", expect="C14-R1",
         what="reload_config puts the old configuration back although the rebuild succeeded",
         old="""            CONFIG.store(Arc::new(old_config));
            return Err(err);
        }
        Ok(true)""", new="""            return Err(err);
        }
        CONFIG.store(Arc::new(old_config));
        Ok(true)"""),
    dict(id="c12-startup-bytes-as-latin1", prop="C12", file="src/messages.rs", expect="C12-R7",
         what="startup strings built one byte per char again (D45 again)",
         old="""        buf.push(String::from_utf8_lossy(&tmp).into_owned());""", new="""        buf.push(tmp.iter().map(|c| *c as char).collect::<String>());"""),
    dict(id="c12-empty-startup-value-dropped", prop="C12", file="src/messages.rs", expect="C12-R7",
         what="every empty string of the startup packet is dropped (D45 again)",
         old="""        if tmp.is_empty() && buf.len() % 2 == 0 {
            break;
        }""", new="""        if tmp.is_empty() {
            continue;
        }"""),
    dict(id="c19-inherited-plugins-need-parser", prop="C19", file="src/query_router.rs", expect="C19-R3",
         what="plugins run only in pools whose parser is on for routing (D46 again)",
         old="""        if self.pool_settings.plugins.is_some() {
            return true;
        }""", new="""        if self.pool_settings.query_parser_enabled && self.pool_settings.plugins.is_some() {
            return true;
        }"""),
    dict(id="c05-bind-not-inferred", prop="C05", file="src/client.rs", expect="C05-R8",
         what="a Bind of a prepared statement is buffered without inferring its role (D47 again)",
         old="""                        if let Some(parse_message) = self.parse_message_of_bound_statement(&message) {
                            if let Ok(ast) = query_router.parse(&parse_message) {
                                let earlier_statement_in_batch =
                                    self.extended_protocol_data_buffer.iter().any(|data| {
                                        matches!(
                                            data,
                                            ExtendedProtocolData::Parse { .. }
                                                | ExtendedProtocolData::Bind { .. }
                                        )
                                    });
                                let _ = query_router
                                    .infer_for_batch(&ast, earlier_statement_in_batch);
                            }
                        }
""",
         new="""                        let _ = self.parse_message_of_bound_statement(&message);
"""),
    dict(id="c05-bind-inferred-from-the-bind-message", prop="C05", file="src/client.rs", expect="C05-R8",
         what="the role at Bind time is inferred from the Bind message itself (no SQL in it) instead of the stored statement",
         old="""                        if let Some(parse_message) = self.parse_message_of_bound_statement(&message) {
                            if let Ok(ast) = query_router.parse(&parse_message) {""",
         new="""                        if self.prepared_statements_enabled {
                            if let Ok(ast) = query_router.parse(&message) {"""),
    dict(id="c05-shard-conflict-returns-early", prop="C05", file="src/query_router.rs", expect="C05-R3",
         what="a shard conflict between reads ends the classification of the message (D48 again)",
         old="""                            if let Err(err) =
                                self.handle_inferred_shard(inferred_shard, &mut prev_inferred_shard)
                            {
                                shard_conflict.get_or_insert(err);
                            }""", new="""                            self.handle_inferred_shard(inferred_shard, &mut prev_inferred_shard)?;
                            let _ = &mut shard_conflict;"""),
    dict(id="c06-placeholders-not-cleared", prop="C06", file="src/query_router.rs", expect="C06-R6",
         what="infer() keeps the key positions of earlier statements (D49 again)",
         old="""        self.placeholders.clear();

        if !self.pool_settings.query_parser_read_write_splitting {""", new="""        if !self.pool_settings.query_parser_read_write_splitting {"""),
    dict(id="c06-activity-shortcut-skips-shard", prop="C06", file="src/query_router.rs", expect="C06-R6",
         what="the mutation-cache shortcut goes on to the next statement without deriving the shard (D50 again)",
         old="""                        self.active_role = Some(Role::Primary);
                        primary_set_based_on_activity = true;
                    }

                    // Decide the role before anything below can bail out.""", new="""                        self.active_role = Some(Role::Primary);
                        primary_set_based_on_activity = true;
                        continue;
                    }

                    // Decide the role before anything below can bail out."""),
    dict(id="c08-failed-reprepare-forgets-name", prop="C08", file="src/client.rs", expect="C08-R4",
         what="a refused re-prepare removes the client's statement name (D51 again)",
         old="""                    debug!("Could not prepare {} on the server", parse.name);""",
         new="""                    debug!("Could not prepare {} on the server", parse.name);
                    self.prepared_statements.retain(|_, (p, _)| p.name != parse.name);"""),
    dict(id="c08-refused-batch-forgets-by-rewritten-name", prop="C08", file="src/client.rs", expect="C08-R4",
         what="a refused batch forgets every statement that shares the rewritten name (D52 again)",
         old="""            if let ExtendedProtocolData::Parse {
                client_given_name: Some(client_given_name),
                ..
            } = data
            {
                self.prepared_statements.remove(client_given_name);
            }""", new="""            if let ExtendedProtocolData::Parse {
                metadata: Some((parse, _)),
                ..
            } = data
            {
                let rewritten = parse.name.clone();
                self.prepared_statements
                    .retain(|_, (cached, _)| cached.name != rewritten);
            }"""),
    dict(id="c08-refused-batch-looks-up-the-rewritten-name", prop="C08", file="src/client.rs", expect="C08-R4",
         what="a refused batch removes the name read from the buffered (rewritten) message: nothing is forgotten (D63 again)",
         old="""            if let ExtendedProtocolData::Parse {
                client_given_name: Some(client_given_name),
                ..
            } = data
            {
                self.prepared_statements.remove(client_given_name);
            }""", new="""            if let ExtendedProtocolData::Parse {
                data,
                metadata: Some(_),
                ..
            } = data
            {
                if let Ok(client_given_name) = Parse::get_name(data) {
                    self.prepared_statements.remove(&client_given_name);
                }
            }"""),
    dict(id="c08-buffered-parse-carries-the-rewritten-name", prop="C08", file="src/client.rs", expect="C08-R4",
         what="the name kept with the buffered Parse is the rewritten one (D63 through the other end)",
         old="""                Some((new_parse.clone(), hash)),
                Some(client_given_name),""", new="""                Some((new_parse.clone(), hash)),
                Some(new_parse.name.clone()),"""),
    dict(id="c19-refused-statement-stays-bound", prop="C19", file="src/client.rs", expect="C19-R6",
         what="a refused batch removes the name read from the buffered (rewritten) message: the refused statement can be bound later (D63 again)",
         old="""            if let ExtendedProtocolData::Parse {
                client_given_name: Some(client_given_name),
                ..
            } = data
            {
                self.prepared_statements.remove(client_given_name);
            }""", new="""            if let ExtendedProtocolData::Parse {
                data,
                metadata: Some(_),
                ..
            } = data
            {
                if let Ok(client_given_name) = Parse::get_name(data) {
                    self.prepared_statements.remove(&client_given_name);
                }
            }"""),
    dict(id="c05-parse-arm-ignores-earlier-bind", prop="C05", file="src/client.rs", expect="C05-R8",
         what="the Parse arm's batch test counts earlier Parse messages only (D53 again)",
         old="""                                            matches!(
                                                data,
                                                ExtendedProtocolData::Parse { .. }
                                                    | ExtendedProtocolData::Bind { .. }
                                            )
                                        });
                                    let _ = query_router
                                        .infer_for_batch(&ast, earlier_statement_in_batch);
                                }
                            }
                            Err(error) => {""", new="""                                            matches!(data, ExtendedProtocolData::Parse { .. })
                                        });
                                    let _ = query_router
                                        .infer_for_batch(&ast, earlier_statement_in_batch);
                                }
                            }
                            Err(error) => {"""),
    dict(id="c08-replay-looks-the-name-up", prop="C08", file="src/client.rs", expect="C08-R4",
         what="the replay of a Bind consults the client's name map again (D54 again)",
         old="""        // We send the parse message to the server ourselves,
        // since pgcat is initiating the prepared statement on this specific server
        match self""", new="""        if !self.prepared_statements.values().any(|(p, _)| p.name == parse.name) && self.prepared_statements.get(&parse.name).is_none() {
            return Err(Error::ClientError(format!("prepared statement `{}` not found", parse.name)));
        }
        match self"""),
    dict(id="c04-startup-without-deadline", prop="C04", file="src/pool.rs", expect="C04-R7",
         what="the connection attempt is awaited without a deadline (D56 again)",
         old="""        match tokio::time::timeout(
            std::time::Duration::from_millis(self.connect_timeout),
            startup,
        )
        .await
        .unwrap_or_else(|_| {""", new="""        match Ok::<_, ()>(startup.await).unwrap_or_else(|_: ()| {"""),
    dict(id="c11-single-deallocate-ignored", prop="C11", file="src/server.rs", expect="C11-R13",
         what="the DEALLOCATE command tag is ignored again (D58 again)",
         old="""                                "DEALLOCATE" => {
                                    if self.prepared_statement_cache.is_some() {""", new="""                                "DEALLOCATE " => {
                                    if self.prepared_statement_cache.is_some() {"""),
    dict(id="c15-zero-shutdown-timeout-accepted", prop="C15", file="src/config.rs", expect="C15-V",
         what="shutdown_timeout = 0 is accepted again (D59 again)",
         old="""        if self.general.shutdown_timeout == 0 {""", new="""        if self.general.shutdown_timeout == 0 && self.general.port == 0 {"""),
    dict(id="c15-general-plugins-not-validated", prop="C15", file="src/config.rs", expect="C15-V",
         what="the general [plugins] section is not validated (half of D60 again)",
         old="""        if let Some(ref plugins) = self.plugins {
            plugins.validate()?;
        }

        // A client that asks for one of these databases gets the admin console""", new="""        // A client that asks for one of these databases gets the admin console"""),
    dict(id="c16-rebuilt-pool-fresh-notify", prop="C16", file="src/pool.rs", expect="C16-R2",
         what="a rebuilt pool gets a fresh Notify (half of D62 again)",
         old="""                    paused_waiter: match old_pool_ref {
                        Some(ref old_pool) => old_pool.paused_waiter.clone(),
                        None => Arc::new(Notify::new()),
                    },""", new="""                    paused_waiter: Arc::new(Notify::new()),"""),
    dict(id="c14-message-used-before-refresh", prop="C14", file="src/client.rs", expect="C14-R4",
         what="the pool is re-resolved only before the checkout again (D61 again)",
         old="""            pool = self.get_pool().await?;
            query_router.update_pool_settings(&pool.settings);

            // Handle all custom protocol commands, if any.""", new="""            // Handle all custom protocol commands, if any."""),
    dict(id="c02-cleanup-answer-ignored", prop="C02", file="src/server.rs", expect="C02-R5",
         what="checkin_cleanup no longer looks at what the server answered to the clean-up (D64 again)",
         old="""            if self.query_failed {
                self.mark_bad("the server refused the clean-up");
                return Ok(());
            }
""", new=""),
    dict(id="c12-cleanup-answer-ignored", prop="C12", file="src/server.rs", expect="C12-R6",
         what="checkin_cleanup gives the connection up only when the clean-up query itself failed to be sent (D64 again)",
         old="""            if self.query_failed {
                self.mark_bad("the server refused the clean-up");
                return Ok(());
            }
""", new="""            if self.is_bad() {
                return Ok(());
            }
"""),
    dict(id="c16-resume-longer-command-is-all-pools", prop="C16", file="src/admin.rs", expect="C16-R4",
         what="only a two-word command is searched for a db,user argument (D65 again)",
         old="""async fn resume<T>(stream: &mut T, tokens: Vec<&str>) -> Result<(), Error>
where
    T: tokio::io::AsyncWrite + std::marker::Unpin,
{
    // Everything after the command is its argument: `db, user` arrives split at the blank.
    let argument = tokens[1..].join(" ");
    let parts: Vec<&str> = match tokens.len() > 1 {""",
         new="""async fn resume<T>(stream: &mut T, tokens: Vec<&str>) -> Result<(), Error>
where
    T: tokio::io::AsyncWrite + std::marker::Unpin,
{
    // Everything after the command is its argument: `db, user` arrives split at the blank.
    let argument = tokens[1..].join(" ");
    let parts: Vec<&str> = match tokens.len() == 2 {"""),
    dict(id="c14-identity-without-ban-time", prop="C14", file="src/pool.rs", expect="C14-R3",
         what="ban_time is built into the pool but is no longer part of its identity (D66 again, one field)",
         old="""                config.general.ban_time.hash(&mut hasher);
""", new=""),
    dict(id="c19-identity-without-inherited-plugins", prop="C19", file="src/pool.rs", expect="C19-R3",
         what="the inherited global plugins are no longer part of a pool's identity (D66 again)",
         old="""                config.plugins.hash(&mut hasher);
""", new=""),
    dict(id="c18-drop-leaves-the-entry", prop="C18", file="src/client.rs", expect="C18-R1",
         what="Drop for Client no longer removes the client's statistics entry (D67 again)",
         old="""        if !self.cancel_mode {
            self.stats.disconnect();
        }
    }
}""", new="""    }
}"""),
    dict(id="c10-clean-return-keeps-the-key", prop="C10", file="src/client.rs", expect="C10-R3",
         what="handle returns after a completed clean-up without release() (D69 again)",
         old="""                                self.release();

                                return Err(err);""", new="""                                return Err(err);"""),
    dict(id="c08-parse-count-signed", prop="C08", file="src/messages.rs", expect="C08-R1",
         what="the Parse decoder loops over the parameter count as a signed number (D70 again)",
         old="""        for _ in 0..num_params as u16 {""", new="""        for _ in 0..num_params {"""),
    dict(id="c14-removed-pool-keeps-its-gate-shut", prop="C14", file="src/pool.rs", expect="C14-R2",
         what="from_config no longer opens the gate of pools that left the map (D71 again)",
         old="""            if !new_pools.contains_key(&identifier) {
                pool.resume();
            }""", new="""            if !new_pools.contains_key(&identifier) {
                debug!("pool {} removed", identifier);
            }"""),
    dict(id="c14-every-previous-pool-resumed", prop="C14", file="src/pool.rs", expect="C14-R2",
         what="from_config resumes every pool of the previous map, kept ones included (a reload lifts every PAUSE)",
         old="""            if !new_pools.contains_key(&identifier) {
                pool.resume();
            }""", new="""            let _ = &identifier;
            pool.resume();"""),
    dict(id="c14-reload-lock-dropped-early", prop="C14", file="src/config.rs", expect="C14-R2",
         what="the reload lock is released before the pools are built (D72 again)",
         old="""    let _reload = RELOAD_LOCK.lock().await;
""", new="""    drop(RELOAD_LOCK.lock().await);
"""),
    dict(id="c18-local-batch-counted", prop="C18", file="src/client.rs", expect="C18-R5",
         what="a batch answered from the statement cache alone is counted as a transaction (D73 again)",
         old="""                            if should_send_to_server {
                                self.stats.transaction();
                                server
                                    .stats()
                                    .transaction(self.server_parameters.get_application_name());
                            }
""", new="""                            self.stats.transaction();
                            server
                                .stats()
                                .transaction(self.server_parameters.get_application_name());
"""),
    dict(id="c17-reload-awaited-in-the-loop", prop="C17", file="src/main.rs", expect="C17-R4",
         what="the SIGHUP arm awaits the reload inline again (D74 again)",
         old="""                    let client_server_map = client_server_map.clone();
                    tokio::task::spawn(async move {
                        _ = reload_config(client_server_map).await;

                        get_config().show();
                    });""", new="""                    _ = reload_config(client_server_map.clone()).await;

                    get_config().show();"""),
    dict(id="c03-copyfail-arm-lost", prop="C03", file="src/client.rs", expect="C03-R10",
         what="CopyFail no longer has an arm in the transaction loop (falls into `_ =>`, never forwarded)",
         old="""                    'c' | 'f' => {""", new="""                    'c' => {"""),
    dict(id="c18-rebuilt-pool-fresh-totals", prop="C18", file="src/pool.rs", expect="C18-R4",
         what="a rebuilt pool gives every server fresh totals (D77 again)",
         old="""                            mirrors: mirror_addresses,
                            stats,""", new="""                            mirrors: mirror_addresses,
                            stats: Arc::new(AddressStats::default()),"""),
    dict(id="c04-startup-not-under-catch-unwind", prop="C04", file="src/pool.rs", expect="C04-R7",
         what="a panic in Server::startup unwinds through connect() again (D78 again)",
         old="""        .unwrap_or_else(|_| {
            Err(Error::SocketError(format!(
                "the startup of a connection to server {:?} panicked",
                self.address
            )))
        }) {""", new="""        .unwrap_or_else(|panic| std::panic::resume_unwind(panic))
        {"""),
    dict(id="c12-template-from-the-live-record", prop="C12", file="src/pool.rs", expect="C12-R4",
         what="validate() copies the connection's live parameter record (D79 again)",
         old="""                    let server_parameters: ServerParameters = server.startup_parameters();""",
         new="""                    let server_parameters: ServerParameters = server.server_parameters();"""),
    dict(id="c15-admin-name-not-reserved", prop="C15", file="src/config.rs", expect="C15-V",
         what="only one of the two admin database names is refused as a pool name (D81 again)",
         old="""        for reserved in ["pgcat", "pgbouncer"] {""",
         new="""        for reserved in ["pgcat"] {"""),
    dict(id="c15-third-admin-name", prop="C15", file="src/client.rs", expect="C15-V",
         what="Client::startup learns a third name for the admin console that validate() does not reserve",
         old="""        let admin = ["pgcat", "pgbouncer"]""",
         new="""        let admin = ["pgcat", "pgbouncer", "admin"]"""),
    dict(id="c15-cache-ttl-unbounded", prop="C15", file="src/config.rs", expect="C15-V",
         what="db_activity_ttl has no upper bound again (D80 again)",
         old="""            if self.db_activity_ttl > MAX_CACHE_EXPIRATION_SECS {""",
         new="""            if false && self.db_activity_ttl > MAX_CACHE_EXPIRATION_SECS {"""),
    dict(id="c15-cache-ttl-bound-in-the-wrong-unit", prop="C15", file="src/config.rs", expect="C15-V",
         what="the millisecond value is compared with a bound written out in the wrong unit (1000x too large)",
         old="""            if self.table_mutation_cache_ms_ttl > MAX_CACHE_EXPIRATION_SECS * 1000 {""",
         new="""            if self.table_mutation_cache_ms_ttl > 31_536_000_000_000_000 {"""),
    dict(id="c06-bound-statement-skipped-when-parsed-anywhere-in-the-batch", prop="C06", file="src/client.rs", expect="C06-R6",
         what="the Bind arm gives up on a statement parsed anywhere in this batch, not only last (D82 again)",
         old="""            .iter()
            .rev()
            .find_map(|data| match data {
                ExtendedProtocolData::Parse { metadata, .. } => Some(
                    matches!(metadata, Some((buffered, _)) if buffered.name == parse.name),
                ),
                _ => None,
            })
            .unwrap_or(false);""", new="""            .iter()
            .any(|data| matches!(data, ExtendedProtocolData::Parse { metadata: Some((buffered, _)), .. } if buffered.name == parse.name));"""),
    dict(id="c16-intercepted-batch-keeps-the-server", prop="C16", file="src/client.rs", expect="C16-R3",
         what="the Sync arm goes on waiting after a plugin answered the batch, without the release test (D83 again)",
         old="""                                write_all(&mut self.write, result).await?;
                                plugin_output = None;
                                self.forget_buffered_prepared_statements();
                                self.reset_buffered_state();

                                if self.transaction_mode
                                    && !server.in_transaction()
                                    && !server.in_copy_mode()
                                {
                                    break;
                                }
""", new="""                                write_all(&mut self.write, result).await?;
                                plugin_output = None;
                                self.forget_buffered_prepared_statements();
                                self.reset_buffered_state();
"""),
    dict(id="c17-admin-read-restarted-after-the-broadcast", prop="C17", file="src/client.rs", expect="C17-R1",
         what="the idle loop selects over read_message again and the admin branch restarts the read (D85 again)",
         old="""            tokio::select! {
                _ = self.shutdown.recv() => {
                    if !self.admin {
                        error_response_terminal(
                            &mut self.write,
                            "terminating connection due to administrator command"
                        ).await?;

                        self.stats.disconnect();
                        return Ok(());
                    }

                    // Admin clients ignore shutdown.
                },
                _ = self.read.fill_buf() => (),
            };

            let message = read_message(&mut self.read).await?;""",
         new="""            let message = tokio::select! {
                _ = self.shutdown.recv() => {
                    if !self.admin {
                        error_response_terminal(
                            &mut self.write,
                            "terminating connection due to administrator command"
                        ).await?;

                        self.stats.disconnect();
                        return Ok(());
                    }

                    // Admin clients ignore shutdown.
                    else {
                        read_message(&mut self.read).await?
                    }
                },
                message_result = read_message(&mut self.read) => message_result?
            };"""),
    dict(id="c17-denied-query-keeps-the-server", prop="C17", file="src/client.rs", expect="C17-R1",
         what="the Query arm of the transaction loop goes on waiting after a Deny without the release test (D83 again)",
         old="""                                        error_response(&mut self.write, &error).await?;

                                        if self.transaction_mode
                                            && !server.in_transaction()
                                            && !server.in_copy_mode()
                                        {
                                            break;
                                        }
""", new="""                                        error_response(&mut self.write, &error).await?;
"""),
    dict(id="c04-prewarm-without-a-deadline", prop="C04", file="src/pool.rs", expect="C04-R7",
         what="the prewarm queries are awaited with no deadline again (D86 again)",
         old="""                            Ok(result) => result?,
                            Err(_) => {
                                return Err(Error::SocketError(format!(
                                    "server {:?} did not answer the prewarm queries within {} ms",
                                    self.address, self.connect_timeout
                                )))
                            }
                        }""", new="""                            Ok(result) => result?,
                            Err(_) => prewarmer.run().await?,
                        }"""),
    dict(id="c04-cache-only-batch-keeps-the-server", prop="C04", file="src/client.rs", expect="C04-R3",
         what="a batch served from the statement cache alone skips the release (round-10 seed)",
         old="""                        if should_send_to_server {
                            self.send_and_receive_loop(
                                code,
                                None,""", new="""                        if !should_send_to_server {
                            self.buffer.clear();
                            continue;
                        }
                        if should_send_to_server {
                            self.send_and_receive_loop(
                                code,
                                None,"""),
    # ------------------------------------------------------------------ C17
    dict(id="c17-shutdown-checked-in-transaction", prop="C17", file="src/client.rs", expect="C17-R1",
         what="the transaction loop also reacts to the shutdown broadcast",
         old='''                trace!("Client message: {}", code);

                // During COPY ... FROM STDIN the server is read again only when the COPY ends. Anything''', new='''                trace!("Client message: {}", code);
                if self.shutdown.try_recv().is_ok() && !self.admin {
                    return Ok(());
                }

                // During COPY ... FROM STDIN the server is read again only when the COPY ends. Anything'''),
    dict(id="c17-missing-decrement", prop="C17", file="src/client.rs", expect="C17-R3",
         what="the TLS path forgets the -1",
         old='''                        let result = client.handle().await;

                        if !client.is_admin() {
                            let _ = drain.send(-1).await;
                        }

                        if result.is_err() {
                            client.stats.disconnect();
                        }

                        result
                    }
                    Err(err) => Err(err),
                }
            }
            // TLS is not configured, we cannot offer it.''', new='''                        let result = client.handle().await;

                        if result.is_err() {
                            client.stats.disconnect();
                        }

                        result
                    }
                    Err(err) => Err(err),
                }
            }
            // TLS is not configured, we cannot offer it.'''),
    dict(id="c17-sigint-breaks", prop="C17", file="src/main.rs", expect="C17-R4",
         what="SIGINT leaves the accept loop at once",
         old='''                    // Broadcast that client tasks need to finish
                    let _ = shutdown_tx.send(());''', new='''                    // Broadcast that client tasks need to finish
                    let _ = shutdown_tx.send(());
                    if total_clients >= 0 { break; }'''),
    dict(id="c17-sigterm-ignored-once-shutting-down", prop="C17", file="src/main.rs", expect="C17-R4",
         what="a SIGTERM that follows SIGINT is taken as already handled and does not end the process (round-9 seed)",
         old="""                    info!("Got SIGTERM, closing with {} clients active", total_clients);
                    break;""", new="""                    info!("Got SIGTERM, closing with {} clients active", total_clients);
                    if admin_only {
                        continue;
                    }
                    break;"""),
    dict(id="c17-drain-arm-awaits-exit-channel", prop="C17", file="src/main.rs", expect="C17-R5",
         what="the accept loop waits for room in the exit channel it alone drains (D36 again)",
         old="""                        let _ = exit_tx.try_send(());""", new="""                        let _ = exit_tx.send(()).await;"""),
    dict(id="c17-sigint-arm-awaits-drain-channel", prop="C17", file="src/main.rs", expect="C17-R5",
         what="the SIGINT arm waits for room in the drain channel the loop alone drains",
         old="""                    let _ = drain_tx.try_send(0);""", new="""                    let _ = drain_tx.send(0).await;"""),
    dict(id="c17-admins-kicked", prop="C17", file="src/client.rs", expect="C17-R1",
         what="admin clients are disconnected by shutdown too",
         old='''                _ = self.shutdown.recv() => {
                    if !self.admin {''', new='''                _ = self.shutdown.recv() => {
                    if !self.admin || self.transaction_mode {'''),
    dict(id="c17-admin-only-not-forwarded", prop="C17", file="src/main.rs", expect="C17-R2",
         what="new clients are not told that shutdown started",
         old='''                            drain_tx,
                            admin_only,
                            tls_certificate,''', new='''                            drain_tx,
                            false,
                            tls_certificate,'''),
    # ------------------------------------------------------------------ C20
    dict(id="c20-blocking-send", prop="C20", file="src/mirrors.rs", expect="C20-R1",
         what="mirror hand-off waits for queue space",
         old='''            match sender.try_send(immutable_bytes.clone()) {
                Ok(_) => {}
                Err(err) => {
                    warn!("Failed to send bytes to a mirror channel {}", err);
                }
            }''', new='''            match sender.blocking_send(immutable_bytes.clone()) {
                Ok(_) => {}
                Err(err) => {
                    warn!("Failed to send bytes to a mirror channel {}", err);
                }
            }'''),
    dict(id="c20-mirror-partial", prop="C20", file="src/server.rs", expect="C20-R2",
         what="only part of the request is mirrored",
         old='''        self.mirror_send(messages);''', new='''        self.mirror_send(&BytesMut::from(&messages[..messages.len() / 2]));'''),
    dict(id="c20-no-index-guard", prop="C20", file="src/pool.rs", expect="C20-R4",
         what="every mirror attached to every server of the shard",
         old='''                                if mirror_settings.mirroring_target_index != address_index {
                                    continue;
                                }''', new=''''''),
    dict(id="c20-shared-cancel-map-and-pool-lookup", prop="C20", file="src/mirrors.rs", expect="C20-R3",
         what="mirror task looks at the shared pools",
         old='''            let pool = self.create_pool().await;
            let address = self.address.clone();''', new='''            let pool = self.create_pool().await;
            let _shared = crate::pool::get_all_pools();
            let address = self.address.clone();'''),
    dict(id="c20-unbounded-channel-size-from-config", prop="C20", file="src/mirrors.rs", expect="C20-R1",
         what="mirror queue capacity no longer a constant",
         old='''            let (bytes_tx, bytes_rx) = channel::<Bytes>(10);''', new='''            let (bytes_tx, bytes_rx) = channel::<Bytes>(addresses.len() * 1000);'''),
    dict(id="c20-exit-branch-of-the-checkout-goes-round", prop="C20", file="src/mirrors.rs", expect="C20-R5",
         what="the exit branch of the wait for a mirror connection continues instead of leaving the loop (D87 again)",
         old="""                    _ = self.disconnect_rx.recv() => {
                        info!("Got mirror exit signal, exiting {:?}", address.clone());
                        break;
                    }

                    connection = pool.get() => match connection {""", new="""                    _ = self.disconnect_rx.recv() => {
                        info!("Got mirror exit signal, exiting {:?}", address.clone());
                        continue;
                    }

                    connection = pool.get() => match connection {"""),
    dict(id="c20-back-off-sleep-outside-the-select", prop="C20", file="src/mirrors.rs", expect="C20-R5",
         what="after a failed checkout the mirror task sleeps a back-off period without listening for the exit signal",
         old="""                                err,
                                address.clone()
                            );
                            continue;
                        }
                    },
                };""", new="""                                err,
                                address.clone()
                            );
                            tokio::time::sleep(std::time::Duration::from_secs(3600)).await;
                            continue;
                        }
                    },
                };"""),
    dict(id="c20-mirror-manager-runs-the-global-plugins", prop="C20", file="src/mirrors.rs", expect="C20-R3",
         what="the mirror's connection manager is given the general plugins section (prewarm queries originate on the mirror connection)",
         old="""            Arc::new(RwLock::new(None)),
            None,
            true,""", new="""            Arc::new(RwLock::new(None)),
            config.plugins.clone(),
            true,"""),
    dict(id="c17-admin-shutdown-writes-before-the-signal", prop="C17", file="src/admin.rs", expect="C17-R2",
         what="admin SHUTDOWN writes to the administrator (fallible, suspends) before it raises the signal",
         old="""    let mut shutdown_success = "t";

    let pid = std::process::id();""", new="""    let mut shutdown_success = "t";

    write_all_half(stream, &res).await?;
    res.clear();
    let pid = std::process::id();"""),
    dict(id="c04-kept-pool-identity-without-the-users", prop="C04", file="src/pool.rs", expect="C04-R1",
         what="the identity that keeps a pool across a reload is the section with its users cleared (pool_size no longer part of it)",
         old="""                pool_config.hash_value().hash(&mut hasher);""", new="""                let mut shared_config = pool_config.clone();
                shared_config.users.clear();
                shared_config.hash_value().hash(&mut hasher);"""),
    dict(id="c11-guarded-read-goes-round", prop="C11", file="src/messages.rs", expect="C11-R16",
         what="parse_params reads the next byte only if one remains and goes round otherwise (never-ending loop on an unterminated string)",
         old="""            tmp.push(c);
            c = bytes.get_u8();""", new="""            tmp.push(c);
            if bytes.has_remaining() {
                c = bytes.get_u8();
            }"""),
    dict(id="c07-admin-ban-skips-banned-addresses", prop="C07", file="src/admin.rs", expect="C07-R5",
         what="admin BAN skips an address that is already on the ban list (D88 again)",
         old="""            pool.ban(&address, BanReason::AdminBan(duration_seconds), None);
            res.put(data_row(&vec![""", new="""            if pool.is_banned(&address) {
                continue;
            }
            pool.ban(&address, BanReason::AdminBan(duration_seconds), None);
            res.put(data_row(&vec!["""),
    dict(id="c07-failure-replaces-a-running-admin-ban", prop="C07", file="src/pool.rs", expect="C07-R1",
         what="ban() inserts whatever the list holds (D89 again)",
         old="""                if now.timestamp() - since.timestamp() <= *duration {
                    return;
                }""", new="""                if now.timestamp() - since.timestamp() <= *duration {
                    debug!("replacing the admin ban of {:?}", address);
                }"""),
    dict(id="c07-admin-ban-kept-whatever-its-age", prop="C07", file="src/pool.rs", expect="C07-R1",
         what="an AdminBan entry is kept without looking at its age (a lapsed, uncollected admin ban swallows a new failure)",
         old="""            if let Some((BanReason::AdminBan(duration), since)) = guard[address.shard].get(address) {
                if now.timestamp() - since.timestamp() <= *duration {
                    return;
                }
            }""", new="""            if let Some((BanReason::AdminBan(_), _)) = guard[address.shard].get(address) {
                return;
            }"""),
    dict(id="c07-second-admin-ban-ignored", prop="C07", file="src/pool.rs", expect="C07-R1",
         what="the keep exit is also taken by a new AdminBan (a second, longer BAN is ignored)",
         old="""        if !matches!(reason, BanReason::AdminBan(_)) {
            if let Some((BanReason::AdminBan(duration), since))""", new="""        if !matches!(reason, BanReason::FailedCheckout) {
            if let Some((BanReason::AdminBan(duration), since))"""),
    dict(id="c02-rollback-after-the-resets", prop="C02", file="src/server.rs", expect="C02-R5",
         what="checkin_cleanup resets the session before it rolls the abandoned transaction back (the ROLLBACK undoes the resets)",
         old='        // Client disconnected with an open transaction on the server connection.\n        // Pgbouncer behavior is to close the server connection but that can cause\n        // server connection thrashing if clients repeatedly do this.\n        // Instead, we ROLLBACK that transaction before putting the connection back in the pool\n        if self.in_transaction() {\n            warn!(target: "pgcat::server::cleanup", "Server returned while still in transaction, rolling back transaction");\n            self.query("ROLLBACK").await?;\n\n            // Only the server\'s answer tells if that worked: a connection left in copy-in mode does not\n            // execute the ROLLBACK, it reads the message as a protocol violation that fails the transaction.\n            if self.in_transaction() {\n                self.mark_bad("still in a transaction after ROLLBACK");\n            }\n        }\n\n        // Client disconnected but it performed session-altering operations such as\n        // SET statement_timeout to 1 or create a prepared statement. We clear that\n        // to avoid leaking state between clients. For performance reasons we only\n        // send `RESET ALL` if we think the session is altered instead of just sending\n        // it before each checkin.\n        if self.cleanup_state.needs_cleanup() && self.cleanup_connections {\n            info!(target: "pgcat::server::cleanup", "Server returned with session state altered, discarding state ({}) for application {}", self.cleanup_state, self.application_name);\n            let mut reset_string = String::from("RESET ROLE;");\n\n            if self.cleanup_state.needs_cleanup_set {\n                reset_string.push_str("RESET ALL;");\n            };\n\n            if self.cleanup_state.needs_cleanup_prepare {\n                reset_string.push_str("DEALLOCATE ALL;");\n                // Since we deallocated all prepared statements, we need to clear the cache\n                if let Some(cache) = &mut self.prepared_statement_cache {\n                    cache.clear();\n                }\n                self.evicted_prepared_statements.clear();\n            };\n\n            self.query(&reset_string).await?;\n\n            // Only the server\'s answer tells if that worked: the statements run as one transaction,\n            // and a statement_timeout the client left behind, or a cancel request that arrives late,\n            // cancels them like any other query - the settings are then still in force.\n            if self.query_failed {\n                self.mark_bad("the server refused the clean-up");\n                return Ok(());\n            }\n\n            self.cleanup_state.reset();\n        }\n', new='        // Client disconnected but it performed session-altering operations such as\n        // SET statement_timeout to 1 or create a prepared statement. We clear that\n        // to avoid leaking state between clients. For performance reasons we only\n        // send `RESET ALL` if we think the session is altered instead of just sending\n        // it before each checkin.\n        if self.cleanup_state.needs_cleanup() && self.cleanup_connections {\n            info!(target: "pgcat::server::cleanup", "Server returned with session state altered, discarding state ({}) for application {}", self.cleanup_state, self.application_name);\n            let mut reset_string = String::from("RESET ROLE;");\n\n            if self.cleanup_state.needs_cleanup_set {\n                reset_string.push_str("RESET ALL;");\n            };\n\n            if self.cleanup_state.needs_cleanup_prepare {\n                reset_string.push_str("DEALLOCATE ALL;");\n                // Since we deallocated all prepared statements, we need to clear the cache\n                if let Some(cache) = &mut self.prepared_statement_cache {\n                    cache.clear();\n                }\n                self.evicted_prepared_statements.clear();\n            };\n\n            self.query(&reset_string).await?;\n\n            // Only the server\'s answer tells if that worked: the statements run as one transaction,\n            // and a statement_timeout the client left behind, or a cancel request that arrives late,\n            // cancels them like any other query - the settings are then still in force.\n            if self.query_failed {\n                self.mark_bad("the server refused the clean-up");\n                return Ok(());\n            }\n\n            self.cleanup_state.reset();\n        }\n\n        // Client disconnected with an open transaction on the server connection.\n        // Pgbouncer behavior is to close the server connection but that can cause\n        // server connection thrashing if clients repeatedly do this.\n        // Instead, we ROLLBACK that transaction before putting the connection back in the pool\n        if self.in_transaction() {\n            warn!(target: "pgcat::server::cleanup", "Server returned while still in transaction, rolling back transaction");\n            self.query("ROLLBACK").await?;\n\n            // Only the server\'s answer tells if that worked: a connection left in copy-in mode does not\n            // execute the ROLLBACK, it reads the message as a protocol violation that fails the transaction.\n            if self.in_transaction() {\n                self.mark_bad("still in a transaction after ROLLBACK");\n            }\n        }\n'),
    dict(id="c14-reload-shortcut-leaves-plugins-out", prop="C14", file="src/config.rs", expect="C14-R2",
         what="reload_config skips the rebuild when general and pools are unchanged (a change of the top-level [plugins] never reaches the pools)",
         old="""    if old_config != new_config {
        info!("Config changed, reloading");""", new="""    if old_config != new_config {
        if old_config.general == new_config.general && old_config.pools == new_config.pools {
            info!("Config changed, pools are not affected");
            return Ok(true);
        }
        info!("Config changed, reloading");"""),
    # ------------------------------------------------------------------ C11
    dict(id="c11-inline-client", prop="C11", file="src/main.rs", expect="C11-R1",
         what="client handled inline in the accept loop instead of its own task",
         old='''                    tokio::task::spawn(async move {
                        let start = chrono::offset::Utc::now().naive_utc();
''', new='''                    let _ = (async move {
                        let start = chrono::offset::Utc::now().naive_utc();
'''),
    dict(id="c11-panic-abort", prop="C11", file="Cargo.toml", expect="C11-R1",
         what="panic = abort in the release profile",
         old='''[dev-dependencies]''', new='''[profile.release]
panic = "abort"

[dev-dependencies]'''),
    dict(id="c11-ban-on-client-error", prop="C11", file="src/client.rs", expect="C11-R4",
         what="a statement with an empty rewritten name (something only the client's bytes decide) bans the server",
         old='''        debug!("Checking for prepared statement {}", parse.name);
''', new='''        debug!("Checking for prepared statement {}", parse.name);
        if parse.name.is_empty() {
            pool.ban(address, BanReason::MessageSendFailed, Some(&self.stats));
        }
'''),
    dict(id="c11-unbounded-startup", prop="C11", file="src/client.rs", expect="C11-R5",
         what="startup packet length no longer bounded",
         old='''    if !(8..=MAX_STARTUP_PACKET_LENGTH).contains(&len) {
        return Err(Error::ClientBadStartup);
    }
''', new='''    if len < 8 {
        return Err(Error::ClientBadStartup);
    }
'''),
    dict(id="c11-exit-on-bad-startup", prop="C11", file="src/client.rs", expect="C11-R1",
         what="an unexpected startup code exits the process",
         old='''        _ => Err(Error::ProtocolSyncError(format!(
            "Unexpected startup code: {}",
            code
        ))),''', new='''        _ => {
            if code == 0 { std::process::exit(1); }
            Err(Error::ProtocolSyncError(format!(
            "Unexpected startup code: {}",
            code
        )))},'''),
    # ------------------------------------------------------------------ C03
    dict(id="c03-consume-before-copy", prop="C03", file="src/server.rs", expect="C03-R2",
         what="recv reads the code byte before copying the message",
         old='''            // Buffer the message we'll forward to the client later.
            self.buffer.put(&message[..]);

            let code = message.get_u8() as char;''', new='''            let code = message.get_u8() as char;
            // Buffer the message we'll forward to the client later.
            self.buffer.put(&message[..]);
'''),
    dict(id="c03-truncate-response", prop="C03", file="src/client.rs", expect="C03-R",
         what="reply chunk truncated before forwarding",
         old='''            let response = self
                .receive_server_message(server, address, pool, client_stats)
                .await?;

            match write_all_flush(&mut self.write, &response).await {''',
         new='''            let mut response = self
                .receive_server_message(server, address, pool, client_stats)
                .await?;
            response.truncate(8196);

            match write_all_flush(&mut self.write, &response).await {'''),
    dict(id="c03-first-chunk-only", prop="C03", file="src/client.rs", expect="C03-R4",
         what="forward loop stops after the first chunk",
         old='''            if !server.is_data_available() {
                break;
            }
        }

        // Report query executed statistics.''', new='''            if !server.is_data_available() || true {
                break;
            }
        }

        // Report query executed statistics.'''),
    dict(id="c03-command-complete-clears", prop="C03", file="src/server.rs", expect="C03-R4",
         what="CommandComplete clears data_available",
         old='''                // CommandComplete
                'C' => {
                    if self.in_copy_mode {
                        self.in_copy_mode = false;
                    }
''', new='''                // CommandComplete
                'C' => {
                    if self.in_copy_mode {
                        self.in_copy_mode = false;
                    }
                    self.data_available = false;
'''),
    dict(id="c03-clear-before-send", prop="C03", file="src/client.rs", expect="C03-R5",
         what="Client.buffer cleared before the batch is sent",
         old='''                        if should_send_to_server {
                            self.send_and_receive_loop(''', new='''                        if self.buffer.len() > 1 << 20 { self.buffer.clear(); }
                        if should_send_to_server {
                            self.send_and_receive_loop('''),
    dict(id="c03-datarow-no-flag", prop="C03", file="src/server.rs", expect="C03-R4",
         what="DataRow no longer marks more data available",
         old='''                    // More data is available after this message, this is not the end of the reply.
                    self.data_available = true;
''', new='''                    // More data is available after this message, this is not the end of the reply.
'''),
    dict(id="c19-dispatch-follows-session-override", prop="C19", file="src/query_router.rs", expect="C19-R3",
         what="statement parsing follows the client's parser override again",
         old='''        if self.pool_settings.plugins.is_some() {
            return true;
        }

        self.query_parser_enabled()''', new='''        self.query_parser_enabled()'''),
]

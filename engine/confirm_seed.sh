#!/bin/bash
# confirm_seed.sh <prop> <worktree> <outdir> <testname>: confirms a seeded change (compiles, lib tests pass,
# demo fails with / passes without), then runs the property's check against it.
prop=$1; wt=$2; out=$3; t=$4
export CARGO_TARGET_DIR=$wt/target CARGO_NET_OFFLINE=true
cd $wt || exit 2
git diff -- src > /tmp/confirm-$prop.diff
if ! diff -q /tmp/confirm-$prop.diff $out/patch.diff >/dev/null; then echo "NOTE: worktree diff differs from patch.diff"; fi
echo "== with change: demo"; cargo test --offline --test $t 2>&1 | grep -E "^test result|^test .*(FAILED|ok)$" | head -12
echo "== with change: lib"; cargo test --offline --lib 2>&1 | grep -E "^test result" | head -2
git checkout -q -- src
echo "== without change: demo"; cargo test --offline --test $t 2>&1 | grep -E "^test result" | head -3
git apply /tmp/confirm-$prop.diff
echo "== check $prop against the change"
cd /verif && PGCAT_REPO=$wt PGCAT_EVIDENCE_DIR=/tmp/confirm-ev ./check $prop 2>&1 | grep -E "construct:|^C[0-9]+:|VIOLATION" | head -12

#!/bin/bash
# usage: prepare.sh <PROP> [extra-note-file]   -> creates /tmp/seed-<PROP> (worktree of /repo HEAD) and /tmp/seed-<PROP>-out/{PROMPT,PROPERTY}.txt
# tooling for validating the checkers with independently written breaking changes (DESIGN.md §6.2); not used by any registered command
set -e
P=$1
K=$(dirname "$(readlink -f "$0")")
rm -rf /tmp/seed-$P-out; mkdir -p /tmp/seed-$P-out
git -C /repo worktree remove --force /tmp/seed-$P 2>/dev/null || true
rm -rf /tmp/seed-$P
git -C /repo worktree add -q --detach /tmp/seed-$P HEAD
python3 - "$P" "$K" "$2" <<'PY'
import json,sys
p,k,extra=sys.argv[1],sys.argv[2],sys.argv[3] if len(sys.argv)>3 else ""
t=open(k+"/prompt_template.txt").read()
h=json.load(open(k+"/hints.json"))[p]
if extra:
    h+=" "+open(extra).read().strip()
open("/tmp/seed-%s-out/PROMPT.txt"%p,"w").write(t.replace("PID",p).replace("HINT",h))
for l in open("/verif/properties.jsonl"):
    d=json.loads(l)
    if d["id"]==p:
        a=d["anchors"]
        txt="PROPERTY %s — %s\n\n%s\n\nQuantifier: %s\n\nRelevant files: %s\n\nState:\n%s\n\nMechanism:\n%s\n"%(p,d["title"],d["statement"],d["quantifier"]["text"],", ".join(a["files"]),
            "\n".join("- %s: %s (%s)"%(s["name"],s["meaning"],s["where"]) for s in a["state"]),"\n".join("- %s (%s)"%(s["name"],s["where"]) for s in a["mechanism"]))
        open("/tmp/seed-%s-out/PROPERTY.txt"%p,"w").write(txt)
PY
echo prepared $P

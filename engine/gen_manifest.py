#!/usr/bin/env python3
"""Regenerates /verif/MANIFEST.json from the table below (single source of truth)."""
import json, os

VERIF = os.path.dirname(os.path.dirname(os.path.abspath(__file__)))

TRUST = "Trusted: rustc nightly's MIR construction and instance resolution, the fact extractor (engine/driver), the rule library (engine/mirlib.py); library internals of bb8/tokio/sqlparser. Normal (non-unwinding) control flow unless a rule says otherwise."

# id -> (technique, level text, level note, design ref)
CHECKS = {
    "C02": ("typestate over MIR CFG (product reachability) + effect summaries (bad_on_err fixpoint) + release-gate dominance/who-may-write rules + constant table",
            "All-paths structural decision over the type-checked MIR: (R1) the release gate — a Server field set in claim(), cleared only at the clean end of checkin_cleanup (after successful ROLLBACK/reset, never in COPY mode, no server I/O afterwards) and consulted by has_broken() — makes every exit of the borrowed region, including `?`, panics and dropped futures, unable to hand back an un-cleaned connection; (R2) typestate enumeration of every return of Client::handle inside the borrowed region (armed whenever the gate is absent); (R4) timeout-cancelled server I/O marks the server bad; (R5) SET/PREPARE/named-Parse dirty marking and the ROLLBACK / RESET ROLE / RESET ALL / DEALLOCATE ALL statements; (R6) COPY at check-in => bad.",
            "Does not model the server's actual session state or SET inside transaction blocks; bb8 0.8.6 is trusted to call has_broken() on guard drop and discard broken connections. " + TRUST, "DESIGN.md §4 C02"),
    "C05": ("dominance on discriminant arms + field/variant coverage of the classifier (call-graph closure incl. sqlparser Visitor impls) + flag discipline (must-pass) + provenance of checkout arguments + table extraction",
            "All-paths/all-sites structural decision over the type-checked MIR of QueryRouter::infer, its classifier, Client::handle and ConnectionPool::get: non-primary roles are assigned only inside the Statement::Query arm; every other arm (present or future Statement variants) assigns Some(Primary) before any exit; the classifier inspects Query.locks, Select.into, SetExpr::Insert/Update and traverses nested queries/CTEs/set operations; a positive verdict is sticky for the rest of the message and precedes every error exit; the checkout's shard/role arguments are the router's shard()/role(); candidates are filtered by `address.role == role` and never extended; the SET SERVER ROLE literal table equals the reference.",
            "Does not decide that sqlparser's AST/traversal matches PostgreSQL's grammar, nor the db-activity timers; per-batch stickiness across several Parse messages is not decided (see DESIGN.md). " + TRUST, "DESIGN.md §4 C05"),
    "C09": ("must-pass-through over MIR CFG + provenance (def-use) + who-may-construct",
            "All-paths structural proof over the type-checked MIR of Client::startup: every CFG path to the AuthenticationOk write crosses a trust arm or the equal edge of a comparison between the client's response buffer and an MD5 hash computed from configured secrets and the salt issued on this connection; pool-found and admin-only gates likewise; Client values are only constructed behind auth_ok. Decides the authentication mechanism for every input, not sampled inputs.",
            "Does not decide MD5 itself, TLS, or timing. " + TRUST, "DESIGN.md §4 C09"),
    "C13": ("constant-table extraction + must-pass-through reply discipline over MIR CFG + taint-based panic-site inventory with discharge table",
            "All-sites/all-paths structural decision over the type-checked MIR: the 7 command regexes (read from the compiled constant) are anchored (?i)^...$ without top-level alternation, aligned index-by-index with the Command variant the handler returns, with capture groups exactly on the SET forms and the role alternation equal to the handled literals; every Command arm of handle_custom_protocol sends exactly one reply ending in ReadyForQuery before Ok(true); handled => no checkout/send in that iteration, not-a-command => Ok(false) with no client write; SHOW reads the fields SET writes; every panic-capable operation in try_execute_command on data tainted by the query text is either in the discharge table (with a reason, some re-verified structurally) or a violation.",
            "Regex matching over all strings is not evaluated (only the table's shape); regex crate semantics trusted. " + TRUST, "DESIGN.md §4 C13"),
    "C15": ("obligation<->validator pairing: taint-based enumeration of panic-capable/positional uses of configuration quantities over MIR + control-dependence analysis of BadConfig returns",
            "All-sites structural decision: every unwrap/expect/panic/index/Rem and every bb8/tokio builder contract whose operand is tainted by a configuration field in pool construction, routing, banning, mirrors, sharding and admin code is enumerated from the type-checked MIR (69 sites today) and must be discharged by the validators registered for that quantity; each validator is re-verified on every run as a `return Err(BadConfig)` in Config/Pool/User/Shard::validate whose controlling conditions (control dependence + taint) depend on that quantity; call-site guards and by-construction facts used by the pairing are re-verified too. A new panic-capable use of a config value, or a deleted validator, is a violation.",
            "TOML/serde acceptance, TLS file checks and the validators' arithmetic beyond dependence on the right quantities/constants are not decided; bb8/tokio panics come from their documented contracts. " + TRUST, "DESIGN.md §4 C15"),
    "C14": ("who-may-write over statics (whole program, resolved through Lazy/ArcSwap receivers) + dominance by validation + loop membership + must-pass-through in Client::handle",
            "All-sites/all-paths structural decision over lib+bin MIR: CONFIG is stored at one site, in config::parse, reachable only over the Ok edge of Config::validate, and what is stored is the validated value; POOLS is swapped at one site, outside every loop of from_config, before the only Ok return and after every error exit; from_config/parse/reload_config have exactly the expected callers and reload rebuilds pools only on parse()==Ok; an unchanged config_hash carries the live pool over and the iteration ends without building a new bb8 pool; Client::handle re-resolves its pool by (pool_name, username) between reading a message and every checkout, checks out on that pool, refreshes router settings, and a missing pool yields Err.",
            "Atomicity of arc_swap and the timing of the reload relative to clients are not decided; CONFIG is published before from_config succeeds (valid file, unreachable servers with validate_config) is reported, not armed. " + TRUST, "DESIGN.md §4 C14"),
    "C19": ("path-avoid over MIR CFG from every Deny/Intercept edge + def-use/control-dependence slicing of the pending-verdict variable + control dependence of the dispatch on client-settable state + field coverage of the name comparison",
            "All-paths/all-sites structural decision over the type-checked MIR of Client::handle and the plugins: from every Deny/Intercept edge (fresh result or pending variable, both loops) no server send and, for Deny, no checkout is reachable within the iteration, consuming arms answer the client, clear the buffered batch and forget the batch's prepared statements; every send of the Sync arm is unreachable from the Deny/Intercept arms; a fresh verdict is stored only under a condition that reads the pending one; the dispatch conditions are checked for dependence on fields that the client's own SET commands assign (known finding D9); table_access compares Ident.value of the last name part, lower-cased unless quote_style is set, not the printed ObjectName; plugins==None / enabled==false return Allow, intercept precedes table_access, intercept payload ends with 'Z'.",
            "sqlparser's visit_relations completeness is trusted; statements the parser rejects are excluded by the property. " + TRUST, "DESIGN.md §4 C19"),
    "C10": ("who-may-write over the cancel map (receivers resolved through Arc/Mutex guards by type) + provenance of stored key/value and of Server::cancel's arguments + must-pass-through (release before idle loop / guard drop)",
            "All-sites/all-paths structural decision over lib+bin MIR: the client->server map is inserted into only by Server::claim (key = the claiming client's pid/key parameters, value = that server's own pid, key, host, port), removed from only by Client::release and Drop (with the client's own key), looked up only by the cancel branch of handle; handle claims with self.process_id/secret_key which come from rand::random at startup and are never reassigned; every path from claim back to the idle loop passes release(), which precedes the drop of the pooled connection; Server::cancel has one caller, reached only over the Some edge of the lookup, with all four arguments from the looked-up tuple; the miss arm contacts nothing.",
            "The window between an error return of handle and the Drop of the Client is a schedule property and is not decided. " + TRUST, "DESIGN.md §4 C10"),
    "C08": ("sibling cross-check of wire decoders/encoders (linearised field-kind sequences over MIR call order and loops) + field coverage/unambiguity of the cache key + must-pass-through ordering in the Sync arm + who-may-write on the name map",
            "All-sites/all-paths structural decision over the type-checked MIR: Parse/Bind/Describe/Close are decoded and encoded with identical wire-field sequences (loops included) and Bind::rename copies the remainder of the original verbatim with length adjusted by the name lengths; the pool cache key reads query and param_types, not the name, each fed to the hasher separately (or formatted with literal separators); in the Sync arm a Bind/Describe naming a cached statement is appended only after ensure_prepared_statement_is_on_server()==Ok and a cached Parse is forwarded only on has_prepared_statement()==false after registration, else ParseComplete is synthesised; Client.prepared_statements is inserted into only by buffer_parse under the client's own name and otherwise only read/removed; an eviction builds Close(evicted), appends it to the buffer that is sent, before Ok; ErrorResponse un-caches the failed statement; rewrite/rename assign only the name.",
            "Multi-connection histories (LRU order, which server a transaction lands on) and hash collisions of distinct encodings are not decided. " + TRUST, "DESIGN.md §4 C08"),
    "C12": ("must-pass-through ordering in Client::handle + direct-flow taint into the quoted SQL literal (format_args template decoded from the compiled constant) + presence/provenance rules on ParameterStatus handling and startup merge + constant-table agreement",
            "All-paths/all-sites structural decision over the type-checked MIR: every path from the checkout to a server send/receive passes a successful Server::sync_parameters(client's map) on the server just checked out; in sync_parameters the value placed inside '...' does not flow straight from the parameter map (an intervening escaper call is required) and keys come from TRACKED_PARAMETERS; Server::recv applies a ParameterStatus to the server's map and to the caller's map (startup=false, values read from the message) in the 'S' arm, client traffic passes Some(&mut client map), pooler-internal queries pass None; at login the pool's parameters are merged with the startup packet before being written and kept; tracked set = defaults = the five parameters of the property.",
            "What PostgreSQL reports back, and the correctness of the escaper beyond its presence, are not decided (the demo demos/d4_c12_quoted_parameter.rs exercises it). " + TRUST, "DESIGN.md §4 C12"),
    "C01": ("value-edge must-cross path rules over the transaction loop (loop/exit-edge analysis on MIR CFG) + receiver provenance + type/ownership facts from the type checker",
            "All-paths structural decision over the type-checked MIR of Client::handle: from every server round trip inside the transaction loop, every exit edge of the loop that leads to the release path is reached only across in_transaction()==false, across in_copy_mode()==false where the reply may open a COPY, and across transaction_mode==true (session mode keeps the server); every Server method / helper in handle operates on the connection of this iteration's single checkout; Server is not Clone, no field/static stores a PooledConnection or shared Server, bb8 checkouts occur only at the three known sites, no owned checkouts or forgets, Server values are built only by Server::startup.",
            "That bb8 hands a connection to one borrower at a time is trusted; interleavings are not decided; the clause 'every result was produced for its own statement' additionally rests on C02 (nothing unread on a connection that changes hands) and C03. " + TRUST, "DESIGN.md §4 C01"),
    "C18": ("pairing (must-pass-through) of register/disconnect over all normal exits + who-may-write on the registries (statics resolved) + operation-kind restriction on atomic counters enumerated from MIR + loop-exit path rules for transaction counting",
            "All-sites/all-paths structural decision over the type-checked MIR: the client is registered once; every Ok return of handle after registration passes ClientStats::disconnect and every Err result of handle is disconnected by client_entrypoint; CLIENT_STATS/SERVER_STATS are inserted/removed only by the Reporter's four functions; server stats are registered only in ServerPool::connect, removed on failed startup and in Drop for Server; successful checkouts mark server and client active, failed ones put the client back to idle, waiting precedes the checkout; connected_to_server is cleared only after ServerStats::idle and Drop for Client marks a still-assigned server idle; every atomic mutation in the stats module is classified and totals are touched only by fetch_add/fetch_max; every release after a round trip counts one transaction on client and server and send_and_receive_loop counts one query outside its receive loop.",
            "Equality of totals with server-side counts and unwinding exits are not decided. " + TRUST, "DESIGN.md §4 C18"),
    "C16": ("ordering (dominance) rules inside wait_paused/resume + who-may-write/notify enumeration + must-pass-through placement of the gate in Client::handle + admin wiring",
            "All-paths structural decision over the type-checked MIR: wait_paused creates the Notified future on paused_waiter before it loads `paused`, awaits that very future only on the paused==true edge and does not suspend otherwise; resume stores false before Notify::notify_waiters (not notify_one); pause only stores true; `paused` has no other writer and paused_waiter no other notifier; each ConnectionPool is built with its own flag and Notify; every idle-loop iteration of Client::handle that checks out has awaited wait_paused() on its own pool before, with no server I/O earlier; admin PAUSE/RESUME visit every pool (loop over get_all_pools) or the named pool and reply with ReadyForQuery. These are exactly the orderings the documented tokio Notify contract needs for freedom from lost wake-ups.",
            "Interleavings are not explored; tokio's Notify contract is trusted. " + TRUST, "DESIGN.md §4 C16"),
    "C07": ("who-may-write on the ban list + value-edge path rules in ConnectionPool::get/run_health_check/try_unban and the client's I/O helpers + provenance of timeouts",
            "All-sites/all-paths structural decision over the type-checked MIR: the ban list is inserted into only by ban(), only over role != Primary, with the address it was given; a failed bb8 checkout or health check bans the tried candidate and continues with the next one, run_health_check returns false only after mark_bad and ban, send/receive helpers return Err only after banning; from is_banned()==true the checkout is reached only over try_unban()==true, every candidate is tested, a just-unbanned address forces a health check and the fast return depends on that flag; AllServersDown is returned only when candidates are exhausted; removals happen only in unban/try_unban, unban-all is tied to `banned == count(role==Replica)`, expiry compares with ban_time or the admin duration; the health check and every client-path Server::recv run under timeouts taken from healthcheck_timeout / statement_timeout, connects under connect_timeout.",
            "Detection latency, fault sequences and candidate ordering are not decided; server I/O in sync_parameters/checkin_cleanup/register_prepared_statement is not under a pgcat timeout (reported). " + TRUST, "DESIGN.md §4 C07"),
    "C04": ("provenance of bb8 builder arguments + escape/type facts on PooledConnection from the type checker + must-pass-through (guard dropped before the idle wait) + path rules on the checkout-failure arm",
            "Structural necessary conditions decided over the type-checked MIR (bb8 itself enforces the bound and the waiter queue and is trusted): every bb8 pool of server connections is built in from_config (max_size = user.pool_size unchanged, connection_timeout from connect_timeout, one pool per server) or for a mirror (constant max_size); no field, static, spawned task, Arc or forget can hold a PooledConnection and guards appear only in the four known bodies; in Client::handle the guard is defined inside the idle-loop iteration, never moved, and dropped on every path back to the idle wait; a failed checkout reports an error and continues the idle loop, returning only through checkout_failure_limit.",
            "bb8 0.8.6's enforcement of max_size, its FIFO/LIFO waiter queue and timeouts are trusted; histories of connects/errors/disconnects are not explored. " + TRUST, "DESIGN.md §4 C04"),
}

NOT_APPLICABLE = {}


def main():
    props = [json.loads(l) for l in open(os.path.join(VERIF, "properties.jsonl"))]
    checks = []
    for p in props:
        pid = p["id"]
        if pid in CHECKS and os.path.exists(os.path.join(VERIF, "checks", pid.lower() + ".py")):
            tech, text, note, ref = CHECKS[pid]
            checks.append({
                "property_id": pid,
                "quick_cmd": "./check %s" % pid,
                "thorough_cmd": "./check %s --tier thorough" % pid,
                "evidence_file": "/verif/evidence/%s.json" % pid,
                "replay_cmd_template": "./check %s --replay {path}" % pid,
                "engine": "pgcat-facts+mirlib",
                "level_claimed": {"category": "other", "text": text, "design_ref": ref},
                "level_note": note,
                "technique": "static analysis: " + tech,
            })
    claimed = {c["property_id"] for c in checks}
    na = []
    for p in props:
        if p["id"] not in claimed:
            na.append({"property_id": p["id"], "reason": NOT_APPLICABLE.get(p["id"], "check not built yet (work in progress; DESIGN.md §4 describes the planned static rules)")})
    m = {
        "version": 1,
        "setup_cmd": "./setup.sh",
        "hooks": {
            "guard": "pgcat_verif",
            "enable": "none needed: static analysis reads /repo's MIR through a RUSTC_WORKSPACE_WRAPPER driver; no hook exists in /repo and the guard is unused",
            "baseline_off_cmd": "cd /repo && cargo test --workspace --no-fail-fast --offline",
            "source_commits": [],
            "add_only": True,
        },
        "engines": [
            {"name": "pgcat-facts+mirlib", "path": "engine/", "serves_properties": sorted(claimed),
             "kind_free_text": "rustc_private driver (engine/driver) dumps mir_built facts of crate pgcat (lib+bin) from /repo's working tree on every run; Python rule library (engine/mirlib.py) decides CFG path queries, value edges, dominators, def-use provenance, who-may-call/write tables; checks/cNN.py instantiate the rules per property"},
        ],
        "checks": checks,
        "notes": "Static analysis only. ./check CNN re-extracts facts whenever /repo's src/Cargo.* content hash changes (cache under /verif/.cache). Known findings: /verif/known_findings.jsonl. Fail-closed: missing anchors and instance floors are violations.",
        "not_applicable": na,
    }
    json.dump(m, open(os.path.join(VERIF, "MANIFEST.json"), "w"), indent=1)
    print("MANIFEST: %d checks, %d not_applicable" % (len(checks), len(na)))


if __name__ == "__main__":
    main()

#!/usr/bin/env python3
"""debug helper: print bodies / calls from the current fact files
usage: explore.py list <regex> | calls <body> [regex] | dump <body> [from] [to] | sw <body>"""
import sys, os, re
sys.path.insert(0, os.path.dirname(os.path.abspath(__file__)))
import runner
from mirlib import *


def opstr(op):
    c = op_const(op)
    if c is not None:
        if "fn" in c:
            return "fn:" + strip_generics(c["fn"])
        if "static" in c:
            return "static:" + c["static"]
        return "const " + str(c.get("str", c.get("sint", c.get("int", c.get("s")))))
    p = op_place(op)
    if p:
        return ("move " if op["c"] == "move" else "") + place_str(p)
    return str(op)


def rvstr(rv):
    k = rv["k"]
    if k == "use":
        return opstr(rv["op"])
    if k == "ref":
        return ("&mut " if rv["mut"] else "&") + place_str(rv["pl"])
    if k == "agg":
        return "%s{%s}" % ((rv.get("adt") or rv.get("def") or rv["agg"]) + ("::" + rv["variant"] if rv.get("variant") else ""), ", ".join(opstr(o) for o in rv["ops"]))
    if k == "bin":
        return "%s(%s, %s)" % (rv["op"], opstr(rv["a"]), opstr(rv["b"]))
    if k == "un":
        return "%s(%s)" % (rv["op"], opstr(rv["a"]))
    if k == "cast":
        return "%s as %s [%s]" % (opstr(rv["op"]), rv["ty"], rv["kind"])
    if k == "discr":
        return "discriminant(%s)" % place_str(rv["pl"])
    return str(rv)


def dump(body, lo=0, hi=None):
    hi = body.nblocks if hi is None else hi
    for b in range(lo, min(hi, body.nblocks)):
        blk = body.blocks[b]
        print("bb%d%s:" % (b, " (cleanup)" if blk["cleanup"] else ""))
        for st in blk["stmts"]:
            if st["k"] == "assign":
                print("    %s = %s   // %s" % (place_str(st["lhs"]), rvstr(st["rv"]), st["span"]))
        t = blk["term"]
        k = t["k"]
        if k == "call":
            c = Call(body, b, t)
            print("    %s = %s(%s) -> bb%s unwind %s   // %s" % (place_str(t["dest"]), c.name, ", ".join(opstr(a) for a in t["args"]), t["target"], t["unwind"], t["span"]))
        elif k == "switch":
            print("    switch(%s: %s) %s otherwise bb%d" % (opstr(t["op"]), t["ty"], t["targets"], t["otherwise"]))
        elif k == "drop":
            print("    drop(%s: %s) -> bb%s unwind %s cdrop %s" % (place_str(t["pl"]), t["ty"][:60], t["target"], t["unwind"], t["cdrop"]))
        else:
            print("    %s %s" % (k, {x: y for x, y in t.items() if x in ("target", "unwind", "cdrop", "imaginary", "msg")}))


if __name__ == "__main__":
    paths, info = runner.extract_facts()
    F = Facts(paths)
    cmd = sys.argv[1]
    if cmd == "list":
        for n, b in sorted(F.bodies.items()):
            if re.search(sys.argv[2], n):
                print(n, b.kind, b.nblocks, b.span)
    elif cmd == "calls":
        b = F.body(sys.argv[2])
        pat = sys.argv[3] if len(sys.argv) > 3 else ""
        for c in b.calls():
            if re.search(pat, c.name):
                print("bb%d %s  [%s]  %s" % (c.block, c.name, ", ".join(opstr(a) for a in c.args), c.span))
    elif cmd == "dump":
        b = F.body(sys.argv[2])
        lo = int(sys.argv[3]) if len(sys.argv) > 3 else 0
        hi = int(sys.argv[4]) if len(sys.argv) > 4 else None
        print(b.name, b.kind, "argc", b.argc)
        for l, ns in sorted(b.varnames.items()):
            print("  _%d = %s : %s" % (l, ns, b.locals[l]["ty"][:80]))
        dump(b, lo, hi)
    elif cmd == "sw":
        b = F.body(sys.argv[2])
        for sw in switches(b):
            d = sw.discr()
            if d:
                print("bb%d discr %s %s arms=%s other=%d rest=%s" % (sw.block, d[0][:50], place_str(d[1]), d[2], d[3], d[4]))
            else:
                print("bb%d %s %s" % (sw.block, sw.ty, [repr(o) for o in sw.origins()][:6]))

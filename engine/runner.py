"""Common runner: fact extraction from /repo's working tree, rule bookkeeping,
known findings, evidence and replay files."""
import fcntl
import hashlib
import json
import os
import shutil
import subprocess
import sys
import time

VERIF = os.path.dirname(os.path.dirname(os.path.abspath(__file__)))
REPO = os.environ.get("PGCAT_REPO", "/repo")
CACHE = os.path.join(VERIF, ".cache")
DRIVER_DIR = os.path.join(VERIF, "engine", "driver")
DRIVER = os.path.join(DRIVER_DIR, "target", "release", "pgcat-facts")
FILTER = os.path.join(VERIF, "engine", "rustc_filter.sh")
BODY_FLOOR = 1000  # lib had 1164 bodies when the rules were written


class CheckError(Exception):
    pass


def tree_hash():
    h = hashlib.sha256()
    files = []
    for root, dirs, fs in os.walk(os.path.join(REPO, "src")):
        dirs.sort()
        for f in sorted(fs):
            files.append(os.path.join(root, f))
    for f in ("Cargo.toml", "Cargo.lock", "build.rs"):
        p = os.path.join(REPO, f)
        if os.path.exists(p):
            files.append(p)
    for p in files:
        h.update(p.encode())
        with open(p, "rb") as fh:
            h.update(fh.read())
    # the engine itself is part of the key
    for p in (os.path.join(DRIVER_DIR, "src", "main.rs"),):
        with open(p, "rb") as fh:
            h.update(fh.read())
    return h.hexdigest()[:20]


def nightly_sysroot():
    return subprocess.check_output(["rustc", "+nightly", "--print", "sysroot"], text=True).strip()


def build_driver():
    src = os.path.join(DRIVER_DIR, "src", "main.rs")
    if os.path.exists(DRIVER) and os.path.getmtime(DRIVER) >= os.path.getmtime(src):
        return
    env = dict(os.environ, CARGO_NET_OFFLINE="true")
    r = subprocess.run(["cargo", "build", "--release", "--offline"], cwd=DRIVER_DIR, env=env, stdout=subprocess.PIPE, stderr=subprocess.STDOUT, text=True)
    if r.returncode != 0:
        raise CheckError("driver build failed:\n" + r.stdout[-4000:])


def extract_facts(force=False):
    """returns (list of fact file paths, info dict). Re-extracts whenever the
    content hash of the working tree changed."""
    os.makedirs(CACHE, exist_ok=True)
    lock = open(os.path.join(CACHE, "extract.lock"), "w")
    fcntl.flock(lock, fcntl.LOCK_EX)
    try:
        t0 = time.time()
        build_driver()
        th = tree_hash()
        out = os.path.join(CACHE, "facts", th)
        lib = os.path.join(out, "pgcat-lib.json")
        binf = os.path.join(out, "pgcat-bin.json")
        ok = os.path.join(out, "OK")
        cached = os.path.exists(ok) and os.path.exists(lib) and os.path.exists(binf) and not force
        if not cached:
            if os.path.isdir(out):
                shutil.rmtree(out)
            os.makedirs(out)
            target = os.path.join(CACHE, "target")
            # cargo's freshness cache would skip the wrapper: drop pgcat's fingerprints
            fp = os.path.join(target, "debug", ".fingerprint")
            if os.path.isdir(fp):
                for d in os.listdir(fp):
                    if d.startswith("pgcat-"):
                        shutil.rmtree(os.path.join(fp, d), ignore_errors=True)
            env = dict(os.environ)
            env.update(
                CARGO_NET_OFFLINE="true",
                LD_LIBRARY_PATH=nightly_sysroot() + "/lib" + (":" + env["LD_LIBRARY_PATH"] if env.get("LD_LIBRARY_PATH") else ""),
                RUSTFLAGS="-Awarnings",
                RUSTC_WRAPPER=FILTER,
                RUSTC_WORKSPACE_WRAPPER=DRIVER,
                CARGO_TARGET_DIR=target,
                PGCAT_FACTS_OUT=out,
                PGCAT_FACTS_RUN_ID=th,
                PGCAT_FACTS_CRATES="pgcat",
            )
            env.pop("RUSTUP_TOOLCHAIN", None)
            r = subprocess.run(
                ["cargo", "+nightly", "check", "--offline", "--lib", "--bins"],
                cwd=REPO, env=env, stdout=subprocess.PIPE, stderr=subprocess.STDOUT, text=True,
            )
            if r.returncode != 0:
                raise CheckError("cargo +nightly check of /repo failed (facts not extracted):\n" + r.stdout[-6000:])
            if not (os.path.exists(lib) and os.path.exists(binf)):
                raise CheckError("fact files missing after cargo check (driver skipped?)\n" + r.stdout[-3000:])
            open(ok, "w").write(th)
            # keep only the 4 most recent fact dirs
            base = os.path.join(CACHE, "facts")
            ds = sorted((os.path.getmtime(os.path.join(base, d)), d) for d in os.listdir(base))
            for _, d in ds[:-4]:
                shutil.rmtree(os.path.join(base, d), ignore_errors=True)
        return [lib, binf], {"tree_hash": th, "cached": cached, "extract_s": round(time.time() - t0, 2)}
    finally:
        fcntl.flock(lock, fcntl.LOCK_UN)
        lock.close()


# ---------------------------------------------------------------------------


class Rule:
    def __init__(self, ctx, rid, statement, floor=0, armed=True):
        self.ctx = ctx
        self.id = rid
        self.statement = statement
        self.floor = floor
        self.armed = armed
        self.instances = []  # (ok:bool, key, desc)
        self.notes = []

    def ok(self, key, desc=""):
        self.instances.append((True, key, desc))

    def fail(self, key, desc, where="", path=None):
        """key: stable identity of the violating construct (no line numbers)"""
        self.instances.append((False, key, desc))
        self.ctx.report(self, key, desc, where, path)

    def check(self, cond, key, desc_ok, desc_fail=None, where="", path=None):
        if cond:
            self.ok(key, desc_ok)
        else:
            self.fail(key, desc_fail or ("NOT: " + desc_ok), where, path)
        return cond

    def note(self, s):
        self.notes.append(s)

    def missing(self, what):
        self.fail("ANCHOR-MISSING:" + what, "anchor not found: %s (rule cannot be evaluated; failing closed)" % what)

    def n_ok(self):
        return sum(1 for o, _, _ in self.instances if o)

    def finish(self):
        n = len(self.instances)
        if n < self.floor:
            self.fail("FLOOR", "only %d instance(s) found, floor is %d (rule would pass vacuously; failing closed)" % (n, self.floor))


class Ctx:
    def __init__(self, prop, tier, facts, info):
        self.prop = prop
        self.tier = tier
        self.facts = facts
        self.info = info
        self.rules = []
        self.reports = []  # dicts
        self.known = load_known(prop)
        self.samples = []
        self.t0 = time.time()
        self.evaluations = 0
        self.explanation = ""
        self.assumptions = []
        self.trusted = []

    def rule(self, rid, statement, floor=0, armed=True):
        r = Rule(self, rid, statement, floor, armed)
        self.rules.append(r)
        return r

    def report(self, rule, key, desc, where, path):
        self.reports.append({"rule": rule.id, "statement": rule.statement, "key": key, "desc": desc, "where": where, "path": path, "armed": rule.armed})

    def body(self, name, rule=None):
        b = self.facts.body(name)
        if b is None and rule is not None:
            rule.missing("body " + name)
        return b

    def sample(self, s):
        if len(self.samples) < 40:
            self.samples.append(s)


def load_known(prop):
    p = os.path.join(VERIF, "known_findings.jsonl")
    out = []
    if os.path.exists(p):
        for line in open(p):
            line = line.strip()
            if not line or line.startswith("#"):
                continue
            e = json.loads(line)
            if e.get("property") == prop and e.get("status") == "known":
                out.append(e)
    return out


def finish(ctx, seed):
    for r in ctx.rules:
        r.finish()
    ev_dir = os.environ.get("PGCAT_EVIDENCE_DIR") or os.path.join(VERIF, "evidence")
    os.makedirs(os.path.join(ev_dir, "replay"), exist_ok=True)
    # old replay files of this property
    for f in os.listdir(os.path.join(ev_dir, "replay")):
        if f.startswith(ctx.prop + "-"):
            os.remove(os.path.join(ev_dir, "replay", f))
    nviol = 0
    known_keys = {(k["rule"], k["key"]): k for k in ctx.known}
    printed_known = set()
    info_reports = 0
    for i, rep in enumerate(ctx.reports):
        if not rep["armed"]:
            info_reports += 1
            print("INFO(not armed) %s %s: %s %s" % (ctx.prop, rep["rule"], rep["desc"], rep["where"]))
            continue
        kk = (rep["rule"], rep["key"])
        if kk in known_keys:
            if kk not in printed_known:
                printed_known.add(kk)
                print("KNOWN-FINDING: property=%s %s %s — %s" % (ctx.prop, rep["rule"], rep["key"], known_keys[kk].get("what", rep["desc"])))
            continue
        nviol += 1
        rp = os.path.join(ev_dir, "replay", "%s-%d.json" % (ctx.prop, nviol))
        with open(rp, "w") as f:
            json.dump({"property": ctx.prop, "tree_hash": ctx.info.get("tree_hash"), **rep}, f, indent=1)
        print("  rule %s: %s" % (rep["rule"], rep["statement"]))
        print("  construct: %s" % rep["key"])
        print("  %s %s" % (rep["desc"], rep["where"]))
        if rep.get("path"):
            print("  path: " + " -> ".join(str(x) for x in rep["path"][:40]))
        print("VIOLATION property=%s replay=%s" % (ctx.prop, rp))
    obligations = sum(len(r.instances) for r in ctx.rules if r.armed)
    discharged = sum(r.n_ok() for r in ctx.rules if r.armed)
    distinct = len({(r.id, k) for r in ctx.rules for (o, k, d) in r.instances})
    rules_out = []
    for r in ctx.rules:
        rules_out.append({
            "rule": r.id, "statement": r.statement, "armed": r.armed, "floor": r.floor,
            "instances": len(r.instances), "held": r.n_ok(),
            "detail": [{"ok": o, "key": k, "desc": d} for (o, k, d) in r.instances][:60],
            "notes": r.notes[:40],
        })
    samples = ctx.samples or [{"rule": r.id, "key": k, "desc": d} for r in ctx.rules for (o, k, d) in r.instances[:2]][:20]
    ev = {
        "property_id": ctx.prop,
        "tier": ctx.tier,
        "seed": seed,
        "level": "other",
        "coverage": {
            "explanation": ctx.explanation or "all-paths structural clauses over rustc's type-checked MIR (mir_built) of /repo's current working tree",
            "evaluations": max(1, ctx.evaluations + obligations),
            "distinct_nontrivial": max(distinct, 0),
            "rule": "one evaluation = one rule instance (call site / path query / table entry) decided on this run; distinct = distinct (rule, construct) pairs with at least one site",
            "obligations": obligations,
            "discharged": discharged,
            "samples": samples if samples else ["(no instance)"],
            "checker_cmd": "./check %s --tier %s" % (ctx.prop, ctx.tier),
            "trusted_base": ctx.trusted or ["rustc nightly MIR construction and instance resolution", "engine/driver fact extractor", "engine/mirlib.py"],
            "exhaustive": True,
            "facts": ctx.info,
            "bodies_analysed": sum(m["nbodies"] for m in ctx.facts.meta),
            "rules": rules_out,
            "known_findings_matched": sorted("%s %s" % k for k in printed_known),
            "informational_reports": info_reports,
            "checker_selftest": getattr(ctx, "selftest", None),
        },
        "assumptions": ctx.assumptions,
        "wall_s": round(time.time() - ctx.t0 + ctx.info.get("extract_s", 0) + ctx.info.get("load_s", 0), 2),
        "violations": nviol,
    }
    with open(os.path.join(ev_dir, ctx.prop + ".json"), "w") as f:
        json.dump(ev, f, indent=1, default=str)
    stt = getattr(ctx, "selftest", None)
    if stt:
        ms, sd = stt.get("mutants", []), stt.get("seeded", [])
        print("%s checker self-test (thorough): %d/%d mutants caught, %d/%d seeded changes caught%s" % (
            ctx.prop, sum(1 for x in ms if x["status"] == "CAUGHT"), len(ms), sum(1 for x in sd if x["status"] == "CAUGHT"), len(sd),
            (" — " + str(stt.get("skipped") or stt.get("error"))) if (stt.get("skipped") or stt.get("error")) else ""))
        for x in ms + sd:
            if x["status"] != "CAUGHT":
                print("  SELFTEST-%s %s" % (x["status"], x["id"]))
    print("%s: %d rule(s), %d instance(s), %d held, %d violation(s), %d known finding(s) [%s, facts %s%s]" % (
        ctx.prop, len(ctx.rules), obligations, discharged, nviol, len(printed_known), ctx.tier, ctx.info.get("tree_hash"), " cached" if ctx.info.get("cached") else ""))
    return 1 if nviol else 0


def main(argv):
    import importlib
    if len(argv) < 2:
        print("usage: check CNN [--tier quick|thorough] [--replay file]")
        return 2
    prop = argv[1].upper()
    tier = os.environ.get("VERIF_TIER", "quick")
    if "--tier" in argv:
        tier = argv[argv.index("--tier") + 1]
    if tier not in ("quick", "thorough"):
        tier = "quick"
    seed = int(os.environ.get("VERIF_SEED", "0") or 0)
    sys.path.insert(0, os.path.join(VERIF, "engine"))
    sys.path.insert(0, os.path.join(VERIF, "checks"))
    from mirlib import Facts
    t0 = time.time()
    try:
        paths, info = extract_facts()
        facts = Facts(paths)
        info["load_s"] = round(time.time() - t0 - info["extract_s"], 2)
        lib = [m for m in facts.meta if m["tag"] == "lib"]
        if not lib or lib[0]["nbodies"] < BODY_FLOOR:
            raise CheckError("fact file has %s bodies, floor %d" % (lib and lib[0]["nbodies"], BODY_FLOOR))
        if any(m["run_id"] != info["tree_hash"] for m in facts.meta):
            raise CheckError("stale fact file (run id mismatch)")
    except CheckError as e:
        print("CHECK-ERROR property=%s: %s" % (prop, e))
        return 2
    ctx = Ctx(prop, tier, facts, info)
    try:
        mod = importlib.import_module(prop.lower())
    except ImportError as e:
        print("CHECK-ERROR property=%s: no check module (%s)" % (prop, e))
        return 2
    mod.run(ctx)
    if tier == "thorough" and not os.environ.get("PGCAT_REPO"):
        ctx.selftest = checker_selftest(prop)
    return finish(ctx, seed)


def checker_selftest(prop):
    """thorough tier: validate the checker itself both ways — every mutant recipe of this property
    (engine/mutants.py) and every confirmed seeded change (seeded/*/patch.diff) is applied to a scratch
    worktree of /repo's HEAD (outside /repo and /verif, removed afterwards) and must be reported."""
    import tempfile
    sys.path.insert(0, os.path.join(VERIF, "engine"))
    res = {"mutants": [], "seeded": [], "note": "checker validation, not part of the property verdict"}
    try:
        from mutants import MUTANTS
    except Exception as e:
        res["error"] = str(e)
        return res
    st = subprocess.run(["git", "-C", REPO, "status", "--porcelain", "--untracked-files=no"], stdout=subprocess.PIPE, text=True).stdout.strip()
    if st:
        res["skipped"] = "/repo has uncommitted changes; the self-test works on a worktree of HEAD and would not see them"
        return res
    wt = tempfile.mkdtemp(prefix="pgcat-thorough-")
    os.rmdir(wt)
    evd = tempfile.mkdtemp(prefix="pgcat-thorough-ev-")
    r = subprocess.run(["git", "-C", REPO, "worktree", "add", "-q", "--detach", wt, "HEAD"], stdout=subprocess.PIPE, stderr=subprocess.STDOUT, text=True)
    if r.returncode:
        res["error"] = r.stdout[-300:]
        return res
    env = dict(os.environ, PGCAT_REPO=wt, PGCAT_EVIDENCE_DIR=evd, VERIF_TIER="quick")
    try:
        for m in MUTANTS:
            if m["prop"] != prop:
                continue
            path = os.path.join(wt, m["file"])
            src = open(path).read()
            if src.count(m["old"]) != 1:
                res["mutants"].append({"id": m["id"], "status": "STALE"})
                continue
            open(path, "w").write(src.replace(m["old"], m["new"]))
            out = subprocess.run([os.path.join(VERIF, "check"), prop], env=env, stdout=subprocess.PIPE, stderr=subprocess.STDOUT, text=True).stdout
            open(path, "w").write(src)
            status = "BUILD-ERROR" if "CHECK-ERROR" in out else ("CAUGHT" if ("VIOLATION property=%s" % prop) in out and m["expect"] in out else "MISSED")
            res["mutants"].append({"id": m["id"], "status": status, "what": m["what"]})
        import glob
        for d in sorted(glob.glob(os.path.join(VERIF, "seeded", "*"))):
            try:
                meta = json.load(open(os.path.join(d, "meta.json")))
            except Exception:
                continue
            if meta.get("property") != prop:
                continue
            if meta.get("superseded"):
                res["seeded"].append({"id": meta["id"], "status": "SUPERSEDED", "why": meta["superseded"]})
                continue
            a = subprocess.run(["git", "-C", wt, "apply", os.path.join(d, "patch.diff")], stdout=subprocess.PIPE, stderr=subprocess.STDOUT, text=True)
            if a.returncode:
                res["seeded"].append({"id": meta["id"], "status": "STALE"})
                continue
            out = subprocess.run([os.path.join(VERIF, "check"), prop], env=env, stdout=subprocess.PIPE, stderr=subprocess.STDOUT, text=True).stdout
            subprocess.run(["git", "-C", wt, "checkout", "-q", "--", "."])
            res["seeded"].append({"id": meta["id"], "status": "CAUGHT" if ("VIOLATION property=%s" % prop) in out else "MISSED"})
    finally:
        subprocess.run(["git", "-C", REPO, "worktree", "remove", "--force", wt], stdout=subprocess.PIPE, stderr=subprocess.STDOUT)
        shutil.rmtree(evd, ignore_errors=True)
    return res


if __name__ == "__main__":
    sys.exit(main(sys.argv))

#!/usr/bin/env python3
"""Regression run over /verif/seeded/*: applies each confirmed seeded change (patch.diff) to a scratch
worktree of /repo's HEAD (outside /repo and /verif), runs the property's check against it and reports
whether it is caught. usage: seeded.py [--only ID]"""
import json, os, subprocess, sys, shutil, tempfile, glob, time

VERIF = os.path.dirname(os.path.dirname(os.path.abspath(__file__)))

def sh(cmd):
    return subprocess.run(cmd, shell=True, stdout=subprocess.PIPE, stderr=subprocess.STDOUT, text=True)

def main():
    only = sys.argv[sys.argv.index("--only") + 1] if "--only" in sys.argv else None
    wt = tempfile.mkdtemp(prefix="pgcat-seeded-"); os.rmdir(wt)
    evd = tempfile.mkdtemp(prefix="pgcat-seeded-ev-")
    r = sh("git -C /repo worktree add -q --detach %s HEAD" % wt)
    if r.returncode:
        print(r.stdout); return 2
    bad = 0
    try:
        for d in sorted(glob.glob(os.path.join(VERIF, "seeded", "*"))):
            meta = json.load(open(os.path.join(d, "meta.json")))
            if only and only not in meta["id"]:
                continue
            if meta.get("superseded"):
                print("%-45s %-4s SUPERSEDED (%s)" % (meta["id"], meta["property"], meta["superseded"][:110]))
                continue
            r = sh("git -C %s apply %s" % (wt, os.path.join(d, "patch.diff")))
            if r.returncode:
                print("%-45s %-4s STALE (patch does not apply: %s)" % (meta["id"], meta["property"], r.stdout.strip()[:80])); bad += 1
                continue
            env = dict(os.environ, PGCAT_REPO=wt, PGCAT_EVIDENCE_DIR=evd)
            t0 = time.time()
            out = subprocess.run([os.path.join(VERIF, "check"), meta["property"]], env=env, stdout=subprocess.PIPE, stderr=subprocess.STDOUT, text=True).stdout
            sh("git -C %s checkout -q -- ." % wt)
            caught = ("VIOLATION property=%s" % meta["property"]) in out
            rules = sorted({l.split("rule ")[1].split(":")[0] for l in out.splitlines() if l.strip().startswith("rule ")})
            print("%-45s %-4s %-7s %.1fs %s" % (meta["id"], meta["property"], "CAUGHT" if caught else "MISSED", time.time() - t0, ",".join(rules)))
            sys.stdout.flush()
            bad += 0 if caught else 1
    finally:
        sh("git -C /repo worktree remove --force %s" % wt)
        shutil.rmtree(evd, ignore_errors=True)
    print("seeded: %d not caught" % bad)
    return 1 if bad else 0

if __name__ == "__main__":
    sys.exit(main())

#!/usr/bin/env python3
"""Mutant self-test of the checkers (DESIGN §2.4): each mutant is a one-hunk edit applied to a
scratch worktree of /repo's HEAD (outside /repo and /verif); the named check must report a
VIOLATION mentioning the expected rule, and must be silent on the unmodified worktree.
usage: selftest.py [--only ID[,ID..]] [--prop CNN] [--keep]"""
import json, os, subprocess, sys, shutil, tempfile, time

VERIF = os.path.dirname(os.path.dirname(os.path.abspath(__file__)))
sys.path.insert(0, os.path.join(VERIF, "engine"))
from mutants import MUTANTS

def sh(cmd, **kw):
    return subprocess.run(cmd, shell=True, stdout=subprocess.PIPE, stderr=subprocess.STDOUT, text=True, **kw)

def main():
    only = None
    prop = None
    if "--only" in sys.argv:
        only = set(sys.argv[sys.argv.index("--only") + 1].split(","))
    if "--prop" in sys.argv:
        prop = sys.argv[sys.argv.index("--prop") + 1].upper()
    wt = tempfile.mkdtemp(prefix="pgcat-selftest-")
    evd = tempfile.mkdtemp(prefix="pgcat-selftest-ev-")
    os.rmdir(wt)
    r = sh("git -C /repo worktree add -q --detach %s HEAD" % wt)
    if r.returncode:
        print(r.stdout); return 2
    results = []
    try:
        for m in MUTANTS:
            if only and m["id"] not in only: continue
            if prop and m["prop"] != prop: continue
            path = os.path.join(wt, m["file"])
            src = open(path).read()
            if src.count(m["old"]) != 1:
                results.append((m["id"], m["prop"], "STALE", "anchor text occurs %d times" % src.count(m["old"])))
                print("%-28s %-4s %-18s %s" % results[-1]); sys.stdout.flush()
                continue
            open(path, "w").write(src.replace(m["old"], m["new"]))
            env = dict(os.environ, PGCAT_REPO=wt, PGCAT_EVIDENCE_DIR=evd)
            t0 = time.time()
            r = subprocess.run([os.path.join(VERIF, "check"), m["prop"]], env=env, stdout=subprocess.PIPE, stderr=subprocess.STDOUT, text=True)
            out = r.stdout
            open(path, "w").write(src)
            fired = "VIOLATION property=%s" % m["prop"] in out
            named = m["expect"] in out
            if "CHECK-ERROR" in out:
                status = "BUILD-ERROR"
            elif fired and named:
                status = "CAUGHT"
            elif fired:
                status = "CAUGHT-OTHER-RULE"
            else:
                status = "MISSED"
            results.append((m["id"], m["prop"], status, "%.1fs %s" % (time.time() - t0, m["what"])))
            print("%-28s %-4s %-18s %s" % results[-1]); sys.stdout.flush()
    finally:
        sh("git -C /repo worktree remove --force %s" % wt)
        shutil.rmtree(evd, ignore_errors=True)
    bad = [r for r in results if r[2] not in ("CAUGHT",)]
    print("selftest: %d mutants, %d caught, %d not" % (len(results), len(results) - len(bad), len(bad)))
    return 1 if bad else 0

if __name__ == "__main__":
    sys.exit(main())

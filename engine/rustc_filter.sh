#!/bin/bash
# RUSTC_WRAPPER: $1 = real rustc. Drops the two --cfg flags that the build
# scripts of ahash 0.8.3 / rustix 0.38.4 inject when they detect a nightly
# compiler (feature gates that no longer exist). Nothing else is touched.
rustc="$1"; shift
args=()
skip=0
for a in "$@"; do
  if [ $skip -eq 1 ]; then
    skip=0
    case "$a" in
      'feature="stdsimd"'|rustc_attrs) continue ;;
      *) args+=("--cfg" "$a"); continue ;;
    esac
  fi
  if [ "$a" = "--cfg" ]; then skip=1; continue; fi
  args+=("$a")
done
exec "$rustc" "${args[@]}"
